import GscribModel.Lemmas.Tracer
/-! # C10 — interpolated paths follow the requested curve and end on target

Property theorems only (helpers: `Lemmas/Tracer.lean`).  The model is `Model/Tracer.lean`, a transcription of
`gscrib/geometry/tracer.py` and `Direction.enforce/full_turn`, written once over a scalar type.  The curve
theorems below are about that model read over `ℝ` (`realTrig`: `Real.cos`, `Real.sin`, `Complex.arg`, the complex
norm); the filter/emission theorems are over `ℚ` and hold for **any** list of samples.  The same definitions are
executed over `Float` by the driver and compared with the real code (harness/c10.py).

Not covered here (stated in the evidence): floating-point rounding inside numpy/libm (sampled by the
correspondence), scipy's `CubicSpline` (trusted to interpolate; `C10_cover` then bounds how far a control point
can be from the emitted path).  "The path starts at the current position" is the builder invariant of C01;
here `C10_arc_start`/`C10_helix` show the curve itself starts there and `C10_emit_exact` that the emitted words
lead a machine through exactly the kept vertices. -/
open GscribModel.Tracer Real

/-! ## arcs and circles (over ℝ) -/

/-- **Constant radius**: every sample of `arc_function` is at the start point's distance from the centre. -/

theorem C10_arc_on_circle (cw : Bool) (o t c : V3 ℝ) (θ : ℝ) :
    let p := arcPoint realTrig (arcOf realTrig cw o t c) θ
    (p.x - c.x) ^ 2 + (p.y - c.y) ^ 2 = (o.x - c.x) ^ 2 + (o.y - c.y) ^ 2 := by
  simp only [arcPoint, arcOf]
  rw [← hypot_sq (o.x - c.x) (o.y - c.y)]
  have := cos_sq_add_sin_sq' (realTrig.atan2 (o.y - c.y) (o.x - c.x) +
    enforce realTrig cw (realTrig.atan2 (t.y - c.y) (t.x - c.x) - realTrig.atan2 (o.y - c.y) (o.x - c.x)) * θ)
  nlinarith [this]

/-- The curve starts at the current position (θ = 0). -/
theorem C10_arc_start (cw : Bool) (o t c : V3 ℝ) :
    arcPoint realTrig (arcOf realTrig cw o t c) 0 = o := by
  cases o with | mk ox oy oz =>
  simp only [arcPoint, arcOf, mul_zero, add_zero, zero_mul, V3.mk.injEq]
  refine ⟨?_, ?_, trivial⟩
  · rw [polar_x]; ring
  · rw [polar_y]; ring

/-- **Ends on target**: when start and target are equidistant from the centre (the check `arc` makes),
    θ = 1 is the target — X, Y and Z — in both directions. -/
theorem C10_arc_end (cw : Bool) (o t c : V3 ℝ)
    (hr : realTrig.hypot (o.x - c.x) (o.y - c.y) = arcTargetRadius realTrig t c) :
    arcPoint realTrig (arcOf realTrig cw o t c) 1 = t := by
  cases t with | mk tx ty tz =>
  obtain ⟨k, hk⟩ := enforce_mod cw (realTrig.atan2 (ty - c.y) (tx - c.x) - realTrig.atan2 (o.y - c.y) (o.x - c.x))
  simp only [arcTargetRadius] at hr
  simp only [arcPoint, arcOf, mul_one, one_mul, V3.mk.injEq]
  rw [hk, hr]
  have e : realTrig.atan2 (o.y - c.y) (o.x - c.x) +
      (realTrig.atan2 (ty - c.y) (tx - c.x) - realTrig.atan2 (o.y - c.y) (o.x - c.x) + k * (2 * π))
      = realTrig.atan2 (ty - c.y) (tx - c.x) + k * (2 * π) := by ring
  rw [e, cos_add_turns, sin_add_turns, polar_x, polar_y]
  refine ⟨by ring, by ring, by ring⟩

/-- **Sweep**: clockwise arcs sweep an angle in `[-2π, 0)`, counter-clockwise ones in `(0, 2π]`; the sweep takes the
    start angle to the target angle (mod 2π); a full circle (target = start) is exactly `∓2π`; the angle is strictly
    monotone in θ in the selected direction. -/

theorem C10_arc_sweep (o t c : V3 ℝ) :
    (arcOf realTrig true o t c).tot ∈ Set.Ico (-(2 * π)) 0
    ∧ (arcOf realTrig false o t c).tot ∈ Set.Ioc 0 (2 * π)
    ∧ (∀ cw, ∃ k : ℤ, (arcOf realTrig cw o t c).a0 + (arcOf realTrig cw o t c).tot
          = realTrig.atan2 (t.y - c.y) (t.x - c.x) + k * (2 * π))
    ∧ (t.x = o.x → t.y = o.y →
          (arcOf realTrig true o t c).tot = -(2 * π) ∧ (arcOf realTrig false o t c).tot = 2 * π)
    ∧ (∀ θ₁ θ₂ : ℝ, θ₁ < θ₂ →
          (arcOf realTrig true o t c).a0 + (arcOf realTrig true o t c).tot * θ₂
            < (arcOf realTrig true o t c).a0 + (arcOf realTrig true o t c).tot * θ₁
          ∧ (arcOf realTrig false o t c).a0 + (arcOf realTrig false o t c).tot * θ₁
            < (arcOf realTrig false o t c).a0 + (arcOf realTrig false o t c).tot * θ₂) := by
  have hd := atan2_diff_range (t.x - c.x) (t.y - c.y) (o.x - c.x) (o.y - c.y)
  have hcw := enforce_cw_range _ hd.1 hd.2
  have hccw := enforce_ccw_range _ hd.1 hd.2
  refine ⟨⟨hcw.1, hcw.2⟩, ⟨hccw.1, hccw.2⟩, ?_, ?_, ?_⟩
  · intro cw
    obtain ⟨k, hk⟩ := enforce_mod cw (realTrig.atan2 (t.y - c.y) (t.x - c.x) - realTrig.atan2 (o.y - c.y) (o.x - c.x))
    exact ⟨k, by simp only [arcOf]; rw [hk]; ring⟩
  · intro hx hy
    simp only [arcOf, hx, hy, sub_self, enforce, twoPi_eq, le_refl, if_true, Bool.false_eq_true, if_false]
    constructor <;> ring
  · intro θ₁ θ₂ h
    simp only [arcOf] at hcw hccw ⊢
    constructor <;> nlinarith [hcw.2, hccw.1]

/-- **Z is linear** in θ, hence in the angle travelled (the sweep is never zero). -/
theorem C10_arc_z_linear (cw : Bool) (o t c : V3 ℝ) (θ : ℝ) :
    let A := arcOf realTrig cw o t c
    (arcPoint realTrig A θ).z = o.z + θ * (t.z - o.z)
    ∧ A.tot ≠ 0
    ∧ (arcPoint realTrig A θ).z - o.z = ((A.a0 + A.tot * θ) - A.a0) / A.tot * (t.z - o.z) := by
  have hs := C10_arc_sweep o t c
  have hne : (arcOf realTrig cw o t c).tot ≠ 0 := by
    cases cw
    · exact ne_of_gt hs.2.1.1
    · exact ne_of_lt hs.1.2
  refine ⟨by simp [arcPoint, arcOf], hne, ?_⟩
  have : (arcPoint realTrig (arcOf realTrig cw o t c) θ).z = o.z + θ * (t.z - o.z) := by simp [arcPoint, arcOf]
  rw [this]
  field_simp
  ring

/-! ## `arc_radius` -/

/-- **Centre of `arc_radius`**: at distance `|radius|` from start and from target, on the side given by
    `is_clockwise == (radius > 0)`: the cross product `(o − c) × (t − c)` is `−h·d` (short way round is clockwise)
    on that branch and `+h·d` on the other. -/
theorem C10_arc_radius_choice (cw : Bool) (o t : V3 ℝ) (radius : ℝ)
    (hne : realTrig.hypot (t.x - o.x) (t.y - o.y) ≠ 0)
    (hr : realTrig.hypot (t.x - o.x) (t.y - o.y) / 2 ≤ |radius|) :
    let c := radiusCentreAbs cw o t radius
    let d := realTrig.hypot (t.x - o.x) (t.y - o.y)
    let h := Real.sqrt (radius ^ 2 - (d / 2) ^ 2)
    (o.x - c.x) ^ 2 + (o.y - c.y) ^ 2 = radius ^ 2
    ∧ (t.x - c.x) ^ 2 + (t.y - c.y) ^ 2 = radius ^ 2
    ∧ (o.x - c.x) * (t.y - c.y) - (o.y - c.y) * (t.x - c.x)
        = (if (cw == decide (0 < radius)) = true then -(h * d) else h * d) := by
  intro c d h
  have hd2 : d ^ 2 = (t.x - o.x) ^ 2 + (t.y - o.y) ^ 2 := hypot_sq _ _
  have hrad : 0 ≤ radius ^ 2 - (d / 2) ^ 2 := by
    have : (d / 2) ^ 2 ≤ |radius| ^ 2 := pow_le_pow_left₀ (by have := hypot_nonneg (t.x - o.x) (t.y - o.y); positivity) hr 2
    rw [sq_abs] at this; linarith
  have hh2 : h ^ 2 = radius ^ 2 - (d / 2) ^ 2 := Real.sq_sqrt hrad
  obtain ⟨ex, ey⟩ := radiusCentreAbs_eq cw o t radius
  have := centre_alg o t h d radius (cw == decide (0 < radius)) hne hd2 hh2
  simp only [c, ex, ey]
  exact this

/-- **Minor / major arc by the sign of the radius**: with the centre `arc_radius` constructs, the traced sweep is
    shorter than a half turn when `radius > 0` and longer when `radius < 0`, in either direction. -/
theorem C10_arc_radius_minor_major (cw : Bool) (o t : V3 ℝ) (radius : ℝ)
    (hne : realTrig.hypot (t.x - o.x) (t.y - o.y) ≠ 0)
    (hr : realTrig.hypot (t.x - o.x) (t.y - o.y) / 2 < |radius|) :
    let A := arcOf realTrig cw o t (radiusCentreAbs cw o t radius)
    (0 < radius → |A.tot| < π) ∧ (radius < 0 → π < |A.tot|) := by
  intro A
  set c := radiusCentreAbs cw o t radius with hc
  set d := realTrig.hypot (t.x - o.x) (t.y - o.y) with hd
  set h := Real.sqrt (radius ^ 2 - (d / 2) ^ 2) with hh
  obtain ⟨q1, q2, q3⟩ := C10_arc_radius_choice cw o t radius hne (le_of_lt hr)
  have hdpos : 0 < d := lt_of_le_of_ne (hypot_nonneg _ _) (Ne.symm hne)
  have hhpos : 0 < h := by
    apply Real.sqrt_pos.mpr
    have : (d / 2) ^ 2 < |radius| ^ 2 := pow_lt_pow_left₀ hr (by positivity) (by norm_num)
    rw [sq_abs] at this; linarith
  -- both radii equal |radius|
  have hR0 : realTrig.hypot (o.x - c.x) (o.y - c.y) = |radius| := by
    rw [hypot_eq_sqrt, q1, Real.sqrt_sq_eq_abs]
  have hR1 : realTrig.hypot (t.x - c.x) (t.y - c.y) = |radius| := by
    rw [hypot_eq_sqrt, q2, Real.sqrt_sq_eq_abs]
  have hcross := cross_eq_sin (o.x - c.x) (o.y - c.y) (t.x - c.x) (t.y - c.y)
  rw [hR0, hR1] at hcross
  -- sin of the sweep = sin of the raw angle difference
  obtain ⟨k, hk⟩ := enforce_mod cw (realTrig.atan2 (t.y - c.y) (t.x - c.x) - realTrig.atan2 (o.y - c.y) (o.x - c.x))
  have hsin : Real.sin A.tot = Real.sin (realTrig.atan2 (t.y - c.y) (t.x - c.x) - realTrig.atan2 (o.y - c.y) (o.x - c.x)) := by
    have : A.tot = enforce realTrig cw (realTrig.atan2 (t.y - c.y) (t.x - c.x) - realTrig.atan2 (o.y - c.y) (o.x - c.x)) := rfl
    rw [this, hk, Real.sin_add_int_mul_two_pi]
  have hrr : 0 < |radius| * |radius| := by
    have : 0 < |radius| := lt_of_le_of_lt (by positivity) hr
    positivity
  have hsw := C10_arc_sweep o t c
  have hhd : 0 < h * d := mul_pos hhpos hdpos
  rw [← hsin] at hcross
  constructor
  · intro hpos
    cases cw
    · -- ccw, r > 0: cross = +h d > 0
      rw [if_neg (by simp [hpos])] at q3
      have : 0 < Real.sin A.tot := by
        have : 0 < |radius| * |radius| * Real.sin A.tot := by rw [← hcross, q3]; exact hhd
        exact (pos_iff_pos_of_mul_pos this).mp hrr
      have hlt := (sin_pos_iff_ccw hsw.2.1.1 hsw.2.1.2).1 this
      rw [abs_of_pos hsw.2.1.1]; exact hlt
    · rw [if_pos (by simp [hpos])] at q3
      have : Real.sin A.tot < 0 := by
        have : |radius| * |radius| * Real.sin A.tot < 0 := by rw [← hcross, q3]; linarith
        exact neg_of_mul_neg_right this (le_of_lt hrr)
      have hlt := (sin_neg_iff_cw hsw.1.1 hsw.1.2).1 this
      rw [abs_of_neg hsw.1.2]; linarith
  · intro hneg
    cases cw
    · rw [if_pos (by simp [not_lt.mpr (le_of_lt hneg)])] at q3
      have : Real.sin A.tot < 0 := by
        have : |radius| * |radius| * Real.sin A.tot < 0 := by rw [← hcross, q3]; linarith
        exact neg_of_mul_neg_right this (le_of_lt hrr)
      have hlt := (sin_pos_iff_ccw hsw.2.1.1 hsw.2.1.2).2 this
      rw [abs_of_pos hsw.2.1.1]; exact hlt
    · rw [if_neg (by simp [not_lt.mpr (le_of_lt hneg)])] at q3
      have : 0 < Real.sin A.tot := by
        have : 0 < |radius| * |radius| * Real.sin A.tot := by rw [← hcross, q3]; exact hhd
        exact (pos_iff_pos_of_mul_pos this).mp hrr
      have hlt := (sin_neg_iff_cw hsw.1.1 hsw.1.2).2 this
      rw [abs_of_neg hsw.1.2]; linarith

/-! ## helix, spiral, thread -/

/-- **Helix / spiral** (`spiral` is `helix` about the current position): the radius about the axis is affine in θ
    from the start radius to the target radius, the total angle is the arc's sweep plus `turns − 1` full turns in
    the selected direction (so between `turns − 1` and `turns` turns), Z is linear, the curve starts at the current
    position and ends on the target. -/
theorem C10_helix (cw : Bool) (o t c : V3 ℝ) (turns : ℕ) (hturns : 1 ≤ turns) (θ : ℝ) :
    let H := helixOf realTrig cw o t c turns
    let p := helixPoint realTrig H θ
    -- the radius about the axis is affine in θ, from |o − c| to |t − c|
    ((p.x - c.x) ^ 2 + (p.y - c.y) ^ 2 = (H.r0 + H.dr * θ) ^ 2
      ∧ H.r0 = realTrig.hypot (o.x - c.x) (o.y - c.y) ∧ H.r0 + H.dr = realTrig.hypot (t.x - c.x) (t.y - c.y))
    -- total angle = the arc's sweep plus (turns − 1) full turns in the selected direction
    ∧ H.tot = (arcOf realTrig cw o t c).tot + fullTurn realTrig cw * ((turns - 1 : ℕ) : ℝ)
    ∧ (cw = true → -(2 * π * turns) ≤ H.tot ∧ H.tot < -(2 * π * (turns - 1 : ℕ)))
    ∧ (cw = false → 2 * π * (turns - 1 : ℕ) < H.tot ∧ H.tot ≤ 2 * π * turns)
    -- Z is linear in θ (hence in the angle), the curve starts at o and ends on the target
    ∧ p.z = o.z + θ * (t.z - o.z)
    ∧ helixPoint realTrig H 0 = o
    ∧ helixPoint realTrig H 1 = t := by
  intro H p
  have htot := helix_tot cw o t c turns
  have hsw := C10_arc_sweep o t c
  have hcast : ((turns - 1 : ℕ) : ℝ) = (turns : ℝ) - 1 := by
    rw [Nat.cast_sub hturns]; simp
  refine ⟨⟨?_, rfl, ?_⟩, htot, ?_, ?_, ?_, ?_, ?_⟩
  · simp only [p, H, helixPoint, helixOf]
    have := cos_sq_add_sin_sq' (realTrig.atan2 (o.y - c.y) (o.x - c.x) + (helixOf realTrig cw o t c turns).tot * θ)
    simp only [helixOf] at this
    nlinarith [this]
  · simp only [H, helixOf]; ring
  · intro h; subst h
    rw [htot, fullTurn_real, if_pos rfl, hcast]
    constructor <;> nlinarith [hsw.1.1, hsw.1.2, Real.pi_pos]
  · intro h; subst h
    rw [htot, fullTurn_real, if_neg (by simp), hcast]
    constructor <;> nlinarith [hsw.2.1.1, hsw.2.1.2, Real.pi_pos]
  · simp [p, H, helixPoint, helixOf]
  · cases o with | mk ox oy oz =>
    simp only [H, helixPoint, helixOf, mul_zero, add_zero, zero_mul, V3.mk.injEq]
    refine ⟨?_, ?_, trivial⟩
    · rw [polar_x]; ring
    · rw [polar_y]; ring
  · cases t with | mk tx ty tz =>
    obtain ⟨k, hk⟩ := hsw.2.2.1 cw
    have hang : H.a0 + H.tot * 1 = realTrig.atan2 (ty - c.y) (tx - c.x)
        + ((k + (if cw then -1 else 1) * ((turns - 1 : ℕ) : ℤ) : ℤ) : ℝ) * (2 * π) := by
      have e0 : H.a0 = (arcOf realTrig cw o ⟨tx, ty, tz⟩ c).a0 := rfl
      rw [mul_one, htot, e0, ← add_assoc, hk, fullTurn_real]
      cases cw <;> push_cast <;> simp <;> ring
    have hx : (helixPoint realTrig H 1).x = c.x + (H.r0 + H.dr * 1) * realTrig.cos (H.a0 + H.tot * 1) := rfl
    have hy : (helixPoint realTrig H 1).y = c.y + (H.r0 + H.dr * 1) * realTrig.sin (H.a0 + H.tot * 1) := rfl
    have hz : (helixPoint realTrig H 1).z = o.z + 1 * (tz - o.z) := rfl
    have hr1 : H.r0 + H.dr * 1 = realTrig.hypot (tx - c.x) (ty - c.y) := by simp only [H, helixOf]; ring
    have : helixPoint realTrig H 1 = ⟨(helixPoint realTrig H 1).x, (helixPoint realTrig H 1).y, (helixPoint realTrig H 1).z⟩ := rfl
    rw [this, hx, hy, hz, hr1, hang, cos_add_turns, sin_add_turns, polar_x, polar_y]
    simp only [V3.mk.injEq]
    refine ⟨by ring, by ring, by ring⟩

/-- **Thread** (repaired centre): the axis passes through the midpoint of start and target for every start
    position, so the radius is constant — half the start–target distance. -/
theorem C10_thread_radius (cw rel : Bool) (o : V3 ℝ) (target : PL ℝ) (pitch θ : ℝ) :
    let t := toAbsolute rel o target
    let H := (traceThread realTrig cw rel o target pitch).1
    let p := helixPoint realTrig H θ
    -- the axis goes through the midpoint of start and target, whatever the start position
    (H.cx = (o.x + t.x) / 2 ∧ H.cy = (o.y + t.y) / 2)
    -- start and end radius agree, so the radius term is constant …
    ∧ H.dr = 0
    -- … and every sample is at half the start–target distance from the axis
    ∧ (p.x - (o.x + t.x) / 2) ^ 2 + (p.y - (o.y + t.y) / 2) ^ 2 = ((t.x - o.x) ^ 2 + (t.y - o.y) ^ 2) / 4
    -- number of turns: `max(1, int(|Δz| / pitch))`
    ∧ (traceThread realTrig cw rel o target pitch).1.tot
        = (arcOf realTrig cw o t (V3.add o (threadCentre o t).resolve)).tot
          + fullTurn realTrig cw * ((max 1 ⌊|t.z - o.z| / pitch⌋₊ - 1 : ℕ) : ℝ) := by
  intro t H p
  have hcx : H.cx = (o.x + t.x) / 2 := by
    simp only [H, traceThread, traceHelix, helixOf, threadCentre, V3.add, PL.resolve, Option.getD_some]; ring
  have hcy : H.cy = (o.y + t.y) / 2 := by
    simp only [H, traceThread, traceHelix, helixOf, threadCentre, V3.add, PL.resolve, Option.getD_some]; ring
  have hdr : H.dr = 0 := by
    simp only [H, traceThread, traceHelix, helixOf, threadCentre, V3.add, PL.resolve, Option.getD_some]
    rw [hypot_eq_sqrt, hypot_eq_sqrt, sub_eq_zero]
    congr 1; ring
  have hr0 : H.r0 ^ 2 = ((t.x - o.x) ^ 2 + (t.y - o.y) ^ 2) / 4 := by
    simp only [H, traceThread, traceHelix, helixOf, threadCentre, V3.add, PL.resolve, Option.getD_some]
    rw [hypot_sq]; ring
  refine ⟨⟨hcx, hcy⟩, hdr, ?_, ?_⟩
  · have hx : p.x = H.cx + (H.r0 + H.dr * θ) * realTrig.cos (H.a0 + H.tot * θ) := rfl
    have hy : p.y = H.cy + (H.r0 + H.dr * θ) * realTrig.sin (H.a0 + H.tot * θ) := rfl
    have := cos_sq_add_sin_sq' (H.a0 + H.tot * θ)
    rw [hx, hy, hdr, hcx, hcy, ← hr0]
    nlinarith [this]
  · simp only [traceThread, traceHelix, helixOf, arcOf, threadTurns, absK_real, realTrig]
    rfl

/-! ## the segment filter and the emission as moves (over ℚ, for ANY list of samples / any norm function) -/

/-- **Kept vertices are a subsequence** of the samples, in order, beginning with the first sample. -/
theorem C10_filter_subseq (sqrt : Rat → Rat) (res : Rat) (pts : List (V3 Rat)) :
    (filterSegments sqrt res pts).Sublist pts ∧ (filterSegments sqrt res pts).head? = pts.head? := by
  cases pts with
  | nil => simp [filterSegments, keepPoints]
  | cons p ps =>
    simp only [filterSegments, keepPoints, List.head?_cons, and_true]
    exact (applyMask_sublist ps _).cons_cons p

/-- **The final sample is always kept**, whatever the distances: the filtered path ends at `f(1)`. -/
theorem C10_filter_last (sqrt : Rat → Rat) (res : Rat) (pts : List (V3 Rat)) :
    (∀ ds : List Rat, ds ≠ [] → (filterMask res ds).getLast? = some true)
    ∧ (filterSegments sqrt res pts).getLast? = pts.getLast? := by
  refine ⟨fun ds h => filterGo_last res (res / 10) res ds h, ?_⟩
  cases pts with
  | nil => simp [filterSegments, keepPoints]
  | cons p ps =>
    cases ps with
    | nil => simp [filterSegments, keepPoints, applyMask]
    | cons q qs =>
      have hne : distances sqrt (p :: q :: qs) ≠ [] := by simp [distances]
      have hlen : (filterMask res (distances sqrt (p :: q :: qs))).length = (q :: qs).length := by
        simp [filterMask, filterGo_length, distances_length]
      have hlast := filterGo_last res (res / 10) res _ hne
      have := applyMask_getLast (q :: qs) (filterMask res (distances sqrt (p :: q :: qs))) hlen hlast
      simp only [filterSegments, keepPoints]
      have hne2 : applyMask (q :: qs) (filterMask res (distances sqrt (p :: q :: qs))) ≠ [] := by
        intro e; rw [e] at this; simp at this; cases qs <;> simp [List.getLast?] at this
      cases hg : applyMask (q :: qs) (filterMask res (distances sqrt (p :: q :: qs))) with
      | nil => exact absurd hg hne2
      | cons x xs =>
        rw [hg] at this
        rw [List.getLast?_cons_cons, List.getLast?_cons_cons]; exact this

/-- **Coverage**: every sample (index `i + 1`) lies within `0.9·res` of path length *after* a kept vertex — the
    first sample, or the kept sample `j + 1 ≤ i + 1`.  Hence every sample, and every spline control point up to one
    sample spacing, is closer than one resolution to an emitted vertex. -/
theorem C10_cover (res : Rat) (hres : 0 ≤ res) (ds : List Rat) (i : Nat) (hi : i < ds.length) :
    (ds.take (i + 1)).sum ≤ res - res / 10
    ∨ ∃ j, j ≤ i ∧ (filterMask res ds)[j]? = some true
          ∧ ((ds.take (i + 1)).drop (j + 1)).sum ≤ res - res / 10 := by
  have h0 : 0 ≤ res - res / 10 := by linarith
  have := cover_aux res (res / 10) h0 ds 0 h0 i hi
  simpa [filterMask] using this

/-- **Emission is exact**: a machine executing the emitted words (G90: go there, G91: add) visits exactly the
    vertices handed to `move`, in both distance modes — for the filtered samples of `parametric` this means the
    path ends on the final sample. -/
theorem C10_emit_exact (sqrt : Rat → Rat) (rel : Bool) (res : Rat) (o : V3 Rat) (samples : List (V3 Rat)) :
    (∀ (cur : V3 Rat) (pts : List (V3 Rat)), machine rel cur (emitMoves rel cur pts) = pts)
    ∧ machine rel o (emitParametric sqrt rel res o samples) = filterSegments sqrt res samples
    ∧ (machine rel o (emitParametric sqrt rel res o samples)).getLast? = samples.getLast? := by
  have key : ∀ (pts : List (V3 Rat)) (cur : V3 Rat), machine rel cur (emitMoves rel cur pts) = pts := by
    intro pts
    induction pts with
    | nil => intro cur; simp [emitMoves, machine]
    | cons p ps ih =>
      intro cur
      cases rel
      · simp only [emitMoves, machine, toDistanceMode, Bool.false_eq_true, if_false]
        rw [ih p]
      · have e : V3.add cur (V3.sub p cur) = p := by
          cases p; cases cur; simp only [V3.add, V3.sub, V3.mk.injEq]
          exact ⟨by ring, by ring, by ring⟩
        simp only [emitMoves, machine, toDistanceMode, if_true, e]
        rw [ih p]
  refine ⟨fun cur pts => key pts cur, key _ o, ?_⟩
  simp only [emitParametric]
  rw [key]
  exact (C10_filter_last sqrt res samples).2

/-- **Polylines visit exactly the given points**: the machine positions are the absolute targets, in both
    distance modes; in absolute mode fully specified targets are the targets themselves, in relative mode each
    target is the previous position plus the offset. -/
theorem C10_polyline_exact (rel : Bool) (o : V3 Rat) (targets : List (PL Rat)) :
    machine rel o (emitPolyline rel o targets) = toAbsoluteList rel o targets
    ∧ (∀ pts : List (V3 Rat), toAbsoluteList false o (pts.map V3.toPL) = pts)
    ∧ (∀ (p : PL Rat) (rest : List (PL Rat)),
        toAbsoluteList true o (p :: rest) = V3.add o p.resolve :: toAbsoluteList true (V3.add o p.resolve) rest) := by
  refine ⟨(C10_emit_exact (fun x => x) rel 0 o []).1 o _, ?_, ?_⟩
  · intro pts
    induction pts generalizing o with
    | nil => simp [toAbsoluteList]
    | cons p ps ih =>
      simp only [List.map_cons, toAbsoluteList, Bool.false_eq_true, if_false]
      have : (V3.toPL p).replaceIn o = p := by cases p; simp [V3.toPL, PL.replaceIn]
      rw [this, ih]
  · intro p rest; simp [toAbsoluteList]

/-! ## non-vacuity: concrete instances of the hypotheses -/

/-- quarter circle about the origin from (1,0,0) to (0,1,2): the radii agree, so `C10_arc_end` applies -/
example : arcPoint realTrig (arcOf realTrig true ⟨1, 0, 0⟩ ⟨0, 1, 2⟩ ⟨0, 0, 0⟩) 1 = ⟨0, 1, 2⟩ :=
  C10_arc_end true ⟨1, 0, 0⟩ ⟨0, 1, 2⟩ ⟨0, 0, 0⟩ (by simp [arcTargetRadius, hypot_eq_sqrt])

/-- `arc_radius` from (0,0) to (2,0) with radius 2 (not a semicircle): hypotheses of `C10_arc_radius_minor_major` -/
example : |(arcOf realTrig false ⟨0, 0, 0⟩ ⟨2, 0, 0⟩ (radiusCentreAbs false ⟨0, 0, 0⟩ ⟨2, 0, 0⟩ 2)).tot| < π :=
  (C10_arc_radius_minor_major false ⟨0, 0, 0⟩ ⟨2, 0, 0⟩ 2
    (by simp [hypot_eq_sqrt]) (by simp [hypot_eq_sqrt])).1 (by norm_num)

/-- a filter run: resolution 1, five samples 3/10 apart — the fourth and the (always kept) last survive -/
example : filterMask (1 : Rat) [3/10, 3/10, 3/10, 3/10, 3/10] = [false, false, false, true, true] := by
  decide +kernel

/-- relative-mode polyline from (1,1,1): offsets (1,0,·) then (0,2,3) reach (2,1,1) and (2,3,4) -/
example : machine true ⟨1, 1, 1⟩ (emitPolyline true (⟨1, 1, 1⟩ : V3 Rat) [⟨some 1, some 0, none⟩, ⟨some 0, some 2, some 3⟩])
    = [⟨2, 1, 1⟩, ⟨2, 3, 4⟩] := by
  decide +kernel

import GscribModel.Lemmas.Format
/-! # C09 — comment text can never change what the machine executes

Property theorems only (helper lemmas: `Lemmas/Format.lean`; model: `Model/Format.lean`).
The model's `comment` is the repaired `DefaultFormatter.comment`: every run of CR/LF and every
occurrence of the closing delimiter is replaced by one blank (`re.sub` / `str.replace` semantics),
and `str.format` is no longer involved.  `stripLine` / `execLines` are an independent comment
stripper for `;`-to-end-of-line styles and for every bracketed pair.

`StyleOK` holds for every style of `COMMENT_OPENINGS/ENDINGS` and for `;`, `//`, `#`
(`C08_styles_supported`); `EolOK` for `\n`, `\r\n`, `\r`. -/
open GscribModel.Format

/-- **Sanitiser safety**, for *all* text and every style: the sanitised text contains no line break
    and — under a bracketed style — no occurrence of the closing delimiter (of any length). -/
theorem C09_sanitize_safe (st : Style) (hs : StyleOK st) (text : Str) :
    (∀ c ∈ sanitize st text, isBreak c = false)
    ∧ (st.closing ≠ [] → occurs st.closing (sanitize st text) = false) :=
  ⟨sanitize_noBreak st text, fun hne => sanitize_free st text hne hs.blank_notin_closing⟩

/-- **The comment is confined**: whatever the text, stripping the comments of a rendered line
    `code ++ comment(text)` (after `line()`'s `rstrip`) leaves exactly the code part, and the line
    body contains no line break. -/
theorem C09_comment_confined (st : Style) (hs : StyleOK st) (W : Str) (hW : CodeText st W) (text : Str) :
    stripLine st (rstrip (W ++ comment st text)) = W
    ∧ ∀ c ∈ rstrip (W ++ comment st text), isBreak c = false := by
  refine ⟨stripLine_comment hs hW text, ?_⟩
  intro c hc
  have := mem_rstrip hc
  simp only [List.mem_append] at this
  rcases this with h | h
  · exact hW.noBreak c h
  · exact comment_noBreak hs text c h

/-- **Comment text is inert**: for ALL text, every supported style, every line ending and every entry
    point that takes text — `comment()`, `annotate()`, `comment=` of the `GCodeCore` moves
    (`format.command`) and of `set_axis/auto_home/probe` (`_get_statement`), and the
    `emergency_halt` message — the call writes its lines, and after comment stripping the
    executable words, line by line, are those of the same call with an empty text; the number of
    line-break characters (hence of lines) is the same. -/
theorem C09_inert (cfg : Cfg) (e : Entry) (text : Str) (hs : StyleOK cfg.style) (he : EolOK cfg.eol)
    (hok : ∀ s ∈ entryStmts e [], StmtOK cfg s) :
    ∃ out out₀, renderEntry cfg e text = .ok out ∧ renderEntry cfg e [] = .ok out₀
      ∧ execLines cfg.style out = execLines cfg.style out₀
      ∧ breakCount out = breakCount out₀ := by
  have h0 : ∀ s ∈ entryStmts e [], LeadOK cfg s := fun s h => (hok s h).leadOK hs
  have hl := entry_leads cfg e text []
  have h1 : ∀ s ∈ entryStmts e text, LeadOK cfg s := leadOK_transfer hl h0
  obtain ⟨ls, r1, x1, b1⟩ := render_lines hs he _ h1
  obtain ⟨ls0, r0, x0, b0⟩ := render_lines hs he _ h0
  refine ⟨ls.flatten, ls0.flatten, by simp [renderEntry, r1], by simp [renderEntry, r0], ?_, ?_⟩
  · rw [x1, x0, leadWords_eq hl]
  · rw [b1, b0]
    have := congrArg List.length hl
    simp only [List.length_map] at this
    rw [this]

/-- the executable content is moreover exactly the code parts of the statements, so an
    `emergency_halt` still executes `M05`, `M09`, `M00|M30` and nothing else -/
theorem C09_exec_is_code (cfg : Cfg) (e : Entry) (text : Str) (hs : StyleOK cfg.style) (he : EolOK cfg.eol)
    (hok : ∀ s ∈ entryStmts e [], StmtOK cfg s) :
    ∃ out, renderEntry cfg e text = .ok out
      ∧ execLines cfg.style out
          = ((entryStmts e text).map (leadWords cfg)).filter fun ws => !ws.isEmpty := by
  have h0 : ∀ s ∈ entryStmts e [], LeadOK cfg s := fun s h => (hok s h).leadOK hs
  have h1 : ∀ s ∈ entryStmts e text, LeadOK cfg s := leadOK_transfer (entry_leads cfg e text []) h0
  obtain ⟨ls, r1, x1, _⟩ := render_lines hs he _ h1
  exact ⟨ls.flatten, by simp [renderEntry, r1], x1⟩

/-! ## Non-vacuity and the pre-repair counter-examples -/

/-- `emergency_halt("x */ G1 X9\nM3 S1000")` under `/* … */`, CRLF: three executable lines, 8 break characters -/
example :
    (match renderEntry ⟨5, styleOf ['/', '*'], ['\r', '\n'], ['X'], ['Y'], ['Z']⟩
        (.ehalt ['M', '0', '5'] ['o', 'f', 'f'] ['M', '0', '9'] ['o', 'f', 'f'] ['M', '0', '0'] ['p'])
        ['x', ' ', '*', '/', ' ', 'G', '1', ' ', 'X', '9', '\n', 'M', '3', ' ', 'S', '1'] with
      | .ok out => (execLines (styleOf ['/', '*']) out, breakCount out)
      | .error _ => ([], 0))
    = ([[['M', '0', '5']], [['M', '0', '9']], [['M', '0', '0']]], 8) := by
  decide +kernel

/-- the hypotheses of `C09_inert` are met by this call -/
example : ∀ s ∈ entryStmts
      (.ehalt ['M', '0', '5'] ['o', 'f', 'f'] ['M', '0', '9'] ['o', 'f', 'f'] ['M', '0', '0'] ['p']) [],
    StmtOK ⟨5, styleOf ['/', '*'], ['\r', '\n'], ['X'], ['Y'], ['Z']⟩ s := by
  have ok : ∀ (l n : Str), l ≠ [] → (∀ c ∈ l, isLabelChar c = true ∧ (styleOf ['/', '*']).opening.head? ≠ some c) →
      isPlainDecimal n = true → WordOK (styleOf ['/', '*']) ⟨l, n⟩ := fun l n a b c => ⟨⟨a, b⟩, c⟩
  intro s hs
  simp only [entryStmts, List.mem_cons, List.mem_nil_iff, or_false] at hs
  rcases hs with rfl | rfl | rfl | rfl
  · exact ⟨[⟨['M'], ['0', '5']⟩], by decide, by
      intro w hw; simp at hw; subst hw; exact ok _ _ (by decide) (by decide) (by decide)⟩
  · exact ⟨[⟨['M'], ['0', '9']⟩], by decide, by
      intro w hw; simp at hw; subst hw; exact ok _ _ (by decide) (by decide) (by decide)⟩
  · exact ⟨[], by decide, by intro w hw; simp at hw⟩
  · exact ⟨[⟨['M'], ['0', '0']⟩], by decide, by
      intro w hw; simp at hw; subst hw; exact ok _ _ (by decide) (by decide) (by decide)⟩

/-- what the sanitiser is for: *without* it (text substituted verbatim, as before the repair) the
    same stripper finds an extra executable line — the old failing input of DESIGN §8-4 -/
example :
    execLines (styleOf [';'])
      (['G', '1', ' ', 'X', '1', ' ', ';', ' '] ++ ['a', '\n', 'M', '3', ' ', 'S', '9'] ++ ['\n'])
    = [[['G', '1'], ['X', '1']], [['M', '3'], ['S', '9']]] := by
  decide +kernel

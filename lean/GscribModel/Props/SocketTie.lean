import GscribModel.Gen.SocketSrc
import GscribModel.Lemmas.Socket
/-! # The socket model is the translated `Device._readline_buf` / `_readline_socket`

`Gen/SocketSrc.lean` is *generated* on every run from the source text of `gscrib/printrun/device.py`
(`tools/gen_socket.py`): `_readline_buf` and `_readline_socket` statement by statement, in `Except PyErr`, over the record
`Device` (`_read_buffer`, `_is_connected`) and a script of `Pass`es (the environment's answers during one trip through the
`while True:` loop: first `read`, `select`, second `read` — see `Model/SocketPrelude.lean`).  The theorems below prove the
hand-written model of C17 (`Model/Socket.lean`) equal to that translation, for every buffer and every script:

* `SocketTie_readline_buf` — `readlineBuf` is `_readline_buf` (which never raises: `[-1]` is only reached on a non-empty list);
* `SocketTie_readline_socket` — `readlineSocket buf (script.map fold)` is `_readline_socket`: same result (`ofRes`), same
  buffer, `_is_connected` cleared exactly when end-of-stream is reported, no exception, and the same unread input.
  `fold` is the model's event convention *proved*, not assumed: the two reads and the select of the source are translated
  separately, and a pass amounts to the event `fold p` (second read iff the first said "no data yet" and select was non-empty).
  The model does not consume the `eof` event (a closed socket answers `b''` for ever) whereas the translation consumes one
  pass per trip: the model's unread events are the translation's unread passes, preceded by `eof` iff the call ended at it;
* `SocketTie_result_faithful` — the model never returns `.line []`, so `ofRes` loses nothing;
* `SocketTie_init`, `SocketTie_keeps_bufOk` — the equalities need **no** invariant of the buffer; the invariant that the
  C17 theorems need (`BufOk`: only the last chunk may hold a newline) holds for the translated `__init__` value and is
  preserved by the translated `_readline_socket`.

Out of scope: `OSError` from `read` / `select` (handler sets `_is_connected = False`, raises `DeviceError`); the size
argument of `read` (a parameter of the translation that the prelude ignores: the tie holds for every size). -/
open GscribModel GscribModel.Socket GscribModel.SockPy GscribModel.Gen.SocketSrc

namespace GscribModel.SocketTie
theorem join_nil : ∀ l : List Bytes, SockPy.join [] l = l.flatten
  | [] => rfl
  | [x] => by simp [SockPy.join]
  | x :: y :: r => by simp [SockPy.join, join_nil (y :: r)]

theorem findFrom_nl : ∀ (s : Bytes) (i : Int),
    findFrom [10] s i = match findNL s with | none => -1 | some k => i + k
  | [], i => by simp [findFrom, findNL]
  | b :: bs, i => by
    by_cases h : b = 10
    · simp [findFrom, findNL, h, NL]
    · have := findFrom_nl bs (i + 1)
      simp only [findFrom, findNL, NL, h, if_false]
      have hp : List.isPrefixOf [10] (b :: bs) = false := by
        simp [List.isPrefixOf]; omega
      rw [hp]; simp only [Bool.false_eq_true, if_false, this]
      cases findNL bs <;> simp
      grind

theorem find_nl (s : Bytes) : SockPy.find s [10] = match findNL s with | none => -1 | some k => (k : Int) := by
  rw [SockPy.find, findFrom_nl]; cases findNL s <;> simp

theorem getItem_last {α : Type} (l : List α) :
    getItem l (-(1 : Int)) = match l.getLast? with | some x => .ok x | none => .error .indexError := by
  cases l with
  | nil => simp [getItem]
  | cons a t =>
    have h1 : ((-1 : Int) + ((a :: t).length : Int)) = (t.length : Int) := by simp [List.length_cons]; omega
    simp only [getItem, h1]
    simp [List.getLast?_eq_getElem?]

theorem sliceTo_last {α : Type} (l : List α) : sliceTo l (-(1 : Int)) = l.dropLast := by
  simp only [sliceTo, normIdx, List.dropLast_eq_take]
  congr 1
  simp; omega

theorem sliceTo_nat {α : Type} (l : List α) (n : Nat) : sliceTo l ((n : Int) + 1) = l.take (n + 1) := by
  simp only [sliceTo, normIdx]
  have : ¬ ((n : Int) + 1 < 0) := by omega
  simp only [this, if_false]
  have : ((n : Int) + 1).toNat = n + 1 := by omega
  rw [this, List.take_eq_take_iff]; omega

theorem sliceFrom_nat {α : Type} (l : List α) (n : Nat) : sliceFrom l ((n : Int) + 1) = l.drop (n + 1) := by
  simp only [sliceFrom, normIdx]
  have : ¬ ((n : Int) + 1 < 0) := by omega
  simp only [this, if_false]
  have : ((n : Int) + 1).toNat = n + 1 := by omega
  rw [this]
  by_cases h : n + 1 ≤ l.length
  · rw [Nat.min_eq_left h]
  · rw [Nat.min_eq_right (by omega), List.drop_length, List.drop_eq_nil_of_le (by omega)]


theorem buf_eq (d : Device) :
    _readline_buf d = .ok ((readlineBuf d._read_buffer).1, { d with _read_buffer := (readlineBuf d._read_buffer).2 }) := by
  obtain ⟨c, buf⟩ := d
  simp only [_readline_buf, readlineBuf, getItem_last, sliceTo_last, join_nil, find_nl, truthy, READ_EMPTY]
  cases hl : buf.getLast? with
  | none =>
    have : buf = [] := by simpa using hl
    subst this; rfl
  | some chunk =>
    have hne : buf.isEmpty = false := by
      cases buf with
      | nil => simp at hl
      | cons a t => rfl
    simp only [hne, Bool.not_false, if_true]
    cases hf : findNL chunk with
    | none => simp [hf, bind, Except.bind, pure, Except.pure]
    | some k =>
      simp only [hf, bind, Except.bind, pure, Except.pure, sliceTo_nat, sliceFrom_nat, SockPy.len]
      have h0 : decide ((k : Int) ≥ 0) = true := by simp
      simp only [h0, if_true, List.nil_append]
      by_cases hlt : k + 1 < chunk.length
      · have h1 : decide ((k : Int) + 1 < (chunk.length : Int)) = true := by simp; omega
        have h2 : (List.drop (k + 1) chunk).isEmpty = false := by
          rw [List.isEmpty_eq_false_iff]; intro h; have := congrArg List.length h; simp at this; omega
        simp only [h1, h2, if_true]; rfl
      · have h1 : decide ((k : Int) + 1 < (chunk.length : Int)) = false := by simp; omega
        have h2 : (List.drop (k + 1) chunk).isEmpty = true := by
          rw [List.isEmpty_iff, List.drop_eq_nil_iff]; omega
        simp only [h1, h2, if_true]; rfl

def ofRead : Option Bytes → Ev
  | none => .again
  | some [] => .eof
  | some (b :: bs) => .chunk b bs

def fold (p : Pass) : Ev := if p.read0.isNone && p.select0 then ofRead p.read1 else ofRead p.read0

def ofRes : Res → Option Bytes
  | .line l => some l
  | .empty => some []
  | .eofR => none

def endsAtEof : List Bytes → List Ev → Bool
  | _, [] => false
  | _, .again :: _ => false
  | _, .eof :: _ => true
  | buf, .chunk b bs :: evs =>
      (readlineBuf (buf ++ [b :: bs])).1.isEmpty && endsAtEof (readlineBuf (buf ++ [b :: bs])).2 evs

abbrev R := Except PyErr (Option Bytes × Device × List Pass)

/-- what one trip through the loop body does, by the event its pass amounts to -/
def trip (d : Device) (rest : List Pass) (k : Device → R) : Ev → R
  | .again => .ok (some [], d, rest)
  | .eof =>
      if d._read_buffer.flatten.isEmpty then .ok (none, { _is_connected := false, _read_buffer := [] }, rest)
      else .ok (some d._read_buffer.flatten, { d with _read_buffer := [] }, rest)
  | .chunk b bs =>
      if (readlineBuf (d._read_buffer ++ [b :: bs])).1.isEmpty
      then k { d with _read_buffer := (readlineBuf (d._read_buffer ++ [b :: bs])).2 }
      else .ok (some (readlineBuf (d._read_buffer ++ [b :: bs])).1,
                { d with _read_buffer := (readlineBuf (d._read_buffer ++ [b :: bs])).2 }, rest)

theorem body_eq (d : Device) (n : Int) (p : Pass) (rest : List Pass) (k : Device → R) :
    _readline_socket_body d n p rest k = trip d rest k (fold p) := by
  obtain ⟨c, buf⟩ := d
  obtain ⟨r0, s0, r1⟩ := p
  have hE : ∀ l : Bytes, (!l.isEmpty) = true ↔ ¬ l.isEmpty = true := by intro l; cases l <;> simp
  rcases r0 with _ | _ | ⟨b, bs⟩ <;> cases s0 <;> rcases r1 with _ | _ | ⟨b', bs'⟩ <;>
    simp only [_readline_socket_body, Pass.read, Pass.select, fold, ofRead, trip, truthyOpt, asBytes, buf_eq, bind, Except.bind,
      pure, Except.pure, truthy, join_nil, READ_EMPTY, READ_EOF, Option.isNone, Bool.and_true, Bool.and_false, if_true, if_false, Bool.false_eq_true, Nat.one_ne_zero] <;>
    (try split) <;> simp_all <;> assumption

/-- `_readline_buf` returning nothing leaves the buffer alone -/
theorem readlineBuf_keep {buf : List Bytes} (he : (readlineBuf buf).1.isEmpty) : (readlineBuf buf).2 = buf := by
  unfold readlineBuf at *
  cases hl : buf.getLast? with
  | none => simp
  | some chunk =>
    cases hf : findNL chunk with
    | none => simp [hf]
    | some k =>
      simp only [hl, hf, List.isEmpty_iff, List.append_eq_nil_iff, List.take_eq_nil_iff] at he
      rcases he.2 with h | h
      · omega
      · subst h; simp [findNL] at hf

/-- the translated result for a model result -/
def ofGo (c : Bool) (buf : List Bytes) (evs : List Ev) (ps' : List Pass) : R :=
  .ok (ofRes (go buf evs).1, { _is_connected := c && ((go buf evs).1 != Res.eofR), _read_buffer := (go buf evs).2.1 }, ps')

theorem loop_eq : ∀ (ps : List Pass) (c : Bool) (buf : List Bytes),
    ∃ ps', (∀ n : Int, _readline_socket_loop { _is_connected := c, _read_buffer := buf } n ps = ofGo c buf (ps.map fold) ps')
      ∧ (go buf (ps.map fold)).2.2 = (if endsAtEof buf (ps.map fold) then [Ev.eof] else []) ++ ps'.map fold
      ∧ ps' <:+ ps := by
  intro ps
  induction ps with
  | nil =>
    intro c buf
    refine ⟨[], fun n => ?_, ?_, List.suffix_refl _⟩
    · simp [_readline_socket_loop, body_eq, fold, Pass.idle, ofRead, trip, ofGo, go, ofRes]
    · simp [go, endsAtEof]
  | cons p ps ih =>
    intro c buf
    simp only [_readline_socket_loop, body_eq, List.map_cons]
    cases hp : fold p with
    | again =>
      refine ⟨ps, fun n => ?_, ?_, List.suffix_cons _ _⟩
      · simp [trip, ofGo, go, ofRes]
      · simp [go, endsAtEof]
    | eof =>
      refine ⟨ps, fun n => ?_, ?_, List.suffix_cons _ _⟩
      · simp only [trip, ofGo, go]
        split <;> simp [ofRes]
      · simp only [go, endsAtEof]
        split <;> simp
    | chunk b bs =>
      simp only [trip, go, endsAtEof]
      by_cases he : (readlineBuf (buf ++ [b :: bs])).1.isEmpty
      · obtain ⟨ps', h1, h2, h3⟩ := ih c (readlineBuf (buf ++ [b :: bs])).2
        refine ⟨ps', fun n => ?_, ?_, h3.trans (List.suffix_cons _ _)⟩
        · simp only [he, if_true, h1, ofGo, go]
        · simp only [he, if_true, h2, Bool.true_and]
      · refine ⟨ps, fun n => ?_, ?_, List.suffix_cons _ _⟩
        · simp [he, ofGo, go, ofRes]
        · simp [he]

end GscribModel.SocketTie

open GscribModel.SocketTie

/-- `Device._readline_buf`: the model's `readlineBuf` on the buffer, for every buffer; it never raises. -/
theorem SocketTie_readline_buf (self : Device) :
    _readline_buf self
      = .ok ((readlineBuf self._read_buffer).1, { self with _read_buffer := (readlineBuf self._read_buffer).2 }) :=
  buf_eq self

/-- `Device._readline_socket`: the model's `readlineSocket` on the folded script, for every object and every script. -/
theorem SocketTie_readline_socket (self : Device) (script : List Pass) :
    ∃ unread,
      _readline_socket self script
        = .ok (ofRes (readlineSocket self._read_buffer (script.map fold)).1,
               { _is_connected := self._is_connected && ((readlineSocket self._read_buffer (script.map fold)).1 != Res.eofR),
                 _read_buffer := (readlineSocket self._read_buffer (script.map fold)).2.1 },
               unread)
      ∧ (readlineSocket self._read_buffer (script.map fold)).2.2
          = (if (readlineBuf self._read_buffer).1.isEmpty && endsAtEof self._read_buffer (script.map fold) then [Ev.eof] else [])
            ++ unread.map fold
      ∧ unread <:+ script := by
  obtain ⟨c, buf⟩ := self
  simp only [_readline_socket, readlineSocket, buf_eq, bind, Except.bind, truthy]
  by_cases he : (readlineBuf buf).1.isEmpty
  · obtain ⟨ps', h1, h2, h3⟩ := loop_eq script c (readlineBuf buf).2
    rw [readlineBuf_keep he] at h1 h2
    simp only [readlineBuf_keep he]
    exact ⟨ps', by simp [he, ofGo, h1], by simpa [he] using h2, h3⟩
  · exact ⟨script, by simp [he, ofRes, pure, Except.pure], by simp [he], List.suffix_refl _⟩

/-- the abstraction of results loses nothing: the model never returns an empty line -/
theorem SocketTie_result_faithful (buf : List Bytes) (evs : List Ev) : (readlineSocket buf evs).1 ≠ .line [] := by
  have hgo : ∀ (evs : List Ev) (buf : List Bytes), (go buf evs).1 ≠ .line [] := by
    intro evs
    induction evs with
    | nil => intro buf; simp [go]
    | cons e es ih =>
      intro buf
      cases e with
      | again => simp [go]
      | eof => simp only [go]; split <;> simp_all
      | chunk b bs => simp only [go]; split <;> simp_all
  simp only [readlineSocket]
  split
  · exact hgo evs buf
  · simp_all

/-- the translated `__init__` leaves an empty buffer (what the model's `calls n [] evs` starts from), not connected -/
theorem SocketTie_init : Device.init._read_buffer = [] ∧ Device.init._is_connected = false ∧ BufOk Device.init._read_buffer := by
  refine ⟨rfl, rfl, ?_⟩
  intro c hc; simp [Device.init] at hc

/-- the buffer invariant of the C17 theorems is preserved by the translated method -/
theorem SocketTie_keeps_bufOk (self self' : Device) (script unread : List Pass) (r : Option Bytes)
    (hok : BufOk self._read_buffer) (h : _readline_socket self script = .ok (r, self', unread)) : BufOk self'._read_buffer := by
  obtain ⟨u, h1, _, _⟩ := SocketTie_readline_socket self script
  rw [h1] at h
  injection h with h
  injection h with _ h
  injection h with h _
  rw [← h]
  exact readlineSocket_bufOk _ _ hok

/-! ## concrete evaluations of the translated functions (non-vacuity) -/
-- "a" buffered; the first read says "no data yet", select finds the socket readable, the re-read brings "b\nc":
-- the line "ab\n" is returned and "c" stays buffered
example : _readline_socket { _is_connected := true, _read_buffer := [[97]] } [⟨none, true, some [98, 10, 99]⟩, ⟨some [100], false, none⟩]
    = .ok (some [97, 98, 10], { _is_connected := true, _read_buffer := [[99]] }, [⟨some [100], false, none⟩]) := by rfl
-- the peer closes with "ab" buffered in two chunks: the tail is delivered, then end-of-stream is reported and the flag cleared
example : _readline_socket { _is_connected := true, _read_buffer := [[97], [98]] } [⟨some [], false, none⟩]
    = .ok (some [97, 98], { _is_connected := true, _read_buffer := [] }, []) := by rfl
example : _readline_socket { _is_connected := true, _read_buffer := [] } [⟨none, true, some []⟩]
    = .ok (none, { _is_connected := false, _read_buffer := [] }, []) := by rfl
-- time-out: nothing is consumed from the buffer
example : _readline_socket { _is_connected := true, _read_buffer := [[97]] } [⟨none, false, some [10]⟩]
    = .ok (some [], { _is_connected := true, _read_buffer := [[97]] }, []) := by rfl
-- two lines in one chunk: one per call, without touching the socket for the second
example : _readline_buf { _is_connected := true, _read_buffer := [[97], [98, 10, 99, 10]] }
    = .ok ([97, 98, 10], { _is_connected := true, _read_buffer := [[99, 10]] }) := by rfl

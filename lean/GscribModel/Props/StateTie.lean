import GscribModel.Gen.StateSrc
/-! # The builder model's state transitions are the translated `GState` methods

`Gen/StateSrc.lean` is *generated* on every run from the source text of `gscrib/gcode_state.py`
(`tools/gen_state.py`): one Lean function per `_set_*` / `_ensure_*` / `_validate_*` method, same order of
checks, calls and assignments.  This file ties the hand-written builder model (`Model/Builder.lean`, the
model every theorem of C01–C03, C05–C07, C11 and C20 is about) to it: `absG` reads a `GState` off a builder
value, and for every command of the builder that goes through a state setter the theorem says

* the model rejects exactly when the translated setter raises, with the same exception class, and the state
  object is then exactly as before the call (nothing is assigned before a check that fails), and
* otherwise the `GState` read off the model's new state is exactly what the translated setter returns

— for **every** state and argument.  A change to the source that reorders a check and an assignment,
drops a validation, or commits before validating changes the generated definitions and one of these
theorems stops checking.  (What calls the setters — `GCodeBuilder` — stays hand-modelled; its tie is the
correspondence run.)

Only hypothesis: `Val.isDouble` — a finite argument is at most `sys.float_info.max` (every double is; the
model's rationals are not bounded).  Halt mode: `GCodeBuilder.write` resets it to `OFF` after every
statement, so it is `OFF` in every state between calls; `StateTie_halt` shows the round trip. -/
open GscribModel.Builder GscribModel.GenPrelude GscribModel.Gen.StateSrc
namespace GscribModel.StateTie

def spinOf : SpinArg → SpinMode | .cw => .CLOCKWISE | .ccw => .COUNTER | _ => .OFF
def powOf : PowerArg → PowerMode | .constant => .CONSTANT | .dynamic => .DYNAMIC | _ => .OFF
def coolOf : CoolArg → CoolantMode | .mist => .MIST | .flood => .FLOOD | _ => .OFF
def swapOf : SwapArg → ToolSwapMode | .automatic => .AUTOMATIC | .manual => .MANUAL | _ => .OFF
def haltOf : HaltArg → HaltMode
  | .pause => .PAUSE | .optionalPause => .OPTIONAL_PAUSE | .endNoReset => .END_WITHOUT_RESET
  | .endReset => .END_WITH_RESET | .pallet => .PALLET_EXCHANGE | .waitBed => .WAIT_FOR_BED
  | .waitHotend => .WAIT_FOR_HOTEND | .waitChamber => .WAIT_FOR_CHAMBER | .waitMotion => .WAIT_FOR_MOTION
  | _ => .OFF
def fmodeOf : Nat → FeedMode | 0 => .INVERSE_TIME | 1 => .UNITS_PER_MINUTE | _ => .UNITS_PER_REVOLUTION
def planeOf : Nat → Plane | 0 => .XY | 1 => .YZ | _ => .ZX
def tempOf : OQ → Val | none => .ninf | some q => .fin q

/-- the `GState` a builder value holds (`state.*` of the real object) -/
def absG (b : B) : GState where
  _user_bounds := b.bounds
  _current_axes := b.saxes
  _current_params := b.params
  _current_tool_number := b.toolNumber
  _current_tool_power := .fin b.power
  _current_spin_mode := spinOf b.spin
  _current_power_mode := powOf b.pmode
  _current_distance_mode := bif b.srel then .RELATIVE else .ABSOLUTE
  _current_extrusion_mode := bif b.erel then .RELATIVE else .ABSOLUTE
  _current_coolant_mode := coolOf b.cool
  _current_feed_mode := fmodeOf b.fmode
  _current_feed_rate := .fin b.feed
  _current_tool_swap_mode := swapOf b.swap
  _current_halt_mode := .OFF
  _current_length_units := bif b.inches then .INCHES else .MILLIMETERS
  _current_time_units := bif b.msTime then .MILLISECONDS else .SECONDS
  _current_temperature_units := bif b.kelvin then .KELVIN else .CELSIUS
  _current_plane := planeOf b.plane
  _current_direction := bif b.dirCcw then .COUNTER else .CLOCKWISE
  _current_resolution := .fin b.res
  _is_coolant_active := b.coolActive
  _is_tool_active := b.toolActive
  _target_hotend_temperature := tempOf b.hotend
  _target_bed_temperature := tempOf b.bed
  _target_chamber_temperature := tempOf b.chamber

/-- a finite value is a double: at most `sys.float_info.max` in magnitude -/
def Val.isDouble : Val → Prop
  | .fin q => q ≤ floatMaxQ
  | _ => True

/-- what the builder does with the outcome of a setter.  The translated method returns the state object as it was
    when the method returned **or raised**: on an exception the model rejects with that class *and the state object is
    untouched* (no assignment precedes a failing check - C05 at the level of the state class); otherwise the state read
    off the model's new value is the method's result. -/
def Agrees (r : Res) (b : B) (g : GState × Option Err) : Prop :=
  match g.2 with
  | some e => r = reject b e ∧ g.1 = absG b
  | none => r.out = .ok ∧ absG r.b = g.1

end GscribModel.StateTie
open GscribModel.StateTie

/-- `GState.__init__` (blank fields, then the thirteen setter calls) yields the model's initial state -/
theorem StateTie_init : GState.init = (absG {}, none) := by decide +kernel

/-! ## helper facts about the prelude's validation -/
namespace GscribModel.StateTie

theorem validateNum_fin (bd : Bounds) (k : BKind) (name : String) (hk : kindOfName name = some k) (q : Rat) :
    validateNum bd name (.fin q) = if bd.okNum k q then .ok () else .error .valueError := by
  simp only [validateNum, hk, Bounds.okNum]
  split <;> simp_all [Val.le]

/-- a value that is no finite number never passes the bounds-then-range check of the translated validators -/
theorem validate_nonfin (bd : Bounds) (name : String) (v : Val) (hv : v.fin? = none) :
    (match validateNum bd name v with
     | .error e => (.error e : Except Err Unit)
     | .ok _ => if (!true || !(Val.le (.fin 0) v && Val.le v floatMax)) then .error .valueError else .ok ()) = .error .valueError
    ∨ kindOfName name = none := by
  cases hk : kindOfName name with
  | none => right; rfl
  | some k =>
    left
    simp only [validateNum, hk]
    rcases hb : bd.get k with _ | ⟨lo, hi⟩ <;> cases v <;> simp_all [Val.fin?, Val.le, floatMax]

theorem range_fin (q : Rat) (h : Val.isDouble (.fin q)) :
    (Val.le (.fin 0) (.fin q) && Val.le (.fin q) floatMax) = decide (0 ≤ q) := by
  simp only [Val.isDouble] at h
  simp [Val.le, floatMax, h]

end GscribModel.StateTie

/-! ## validators -/

/-- `_validate_feed_rate`: bounds first, then `0 ≤ v ≤ float max`; anything that is no finite number is refused -/
theorem StateTie_validate_feed (b : B) (v : Val) (hd : Val.isDouble v) :
    GState._validate_feed_rate (absG b) v =
      (absG b, match v.fin? with
       | some q => if b.okFeed q then none else some .valueError
       | none => some .valueError) := by
  cases v with
  | fin q =>
    simp only [GState._validate_feed_rate, Val.fin?, absG, validateNum_fin b.bounds .feed "feed-rate" (by decide), B.okFeed]
    by_cases h1 : b.bounds.okNum .feed q <;> by_cases h2 : 0 ≤ q <;> simp [h1, h2, range_fin q hd]
  | nan | pinf | ninf =>
    simp only [GState._validate_feed_rate, Val.fin?, validateNum, kindOfName, absG]
    rcases hb : b.bounds.get .feed with _ | ⟨lo, hi⟩ <;> simp [Val.le, floatMax]

theorem StateTie_validate_power (b : B) (v : Val) (hd : Val.isDouble v) :
    GState._validate_tool_power (absG b) v =
      (absG b, match v.fin? with
       | some q => if b.okPower q then none else some .valueError
       | none => some .valueError) := by
  cases v with
  | fin q =>
    simp only [GState._validate_tool_power, Val.fin?, absG, validateNum_fin b.bounds .toolPower "tool-power" (by decide), B.okPower]
    by_cases h1 : b.bounds.okNum .toolPower q <;> by_cases h2 : 0 ≤ q <;> simp [h1, h2, range_fin q hd]
  | nan | pinf | ninf =>
    simp only [GState._validate_tool_power, Val.fin?, validateNum, kindOfName, absG]
    rcases hb : b.bounds.get .toolPower with _ | ⟨lo, hi⟩ <;> simp [Val.le, floatMax]

/-! ## commands that go through a state setter -/

/-- `set_feed_rate(v)` = `_set_feed_rate` -/
theorem StateTie_feed (b : B) (v : Val) (hd : Val.isDouble v) :
    Agrees (step b (.feed v)) b (GState._set_feed_rate (absG b) v) := by
  simp only [GState._set_feed_rate, StateTie_validate_feed b v hd, step]
  cases v with
  | fin q =>
    simp only [Val.fin?]
    by_cases h : b.okFeed q <;> simp [h, Agrees, accept, reject, absG]
  | nan | pinf | ninf => simp [Val.fin?, Agrees]

/-- `set_tool_power(v)` = `_set_tool_power` -/
theorem StateTie_power (b : B) (v : Val) (hd : Val.isDouble v) :
    Agrees (step b (.power v)) b (GState._set_tool_power (absG b) v) := by
  simp only [GState._set_tool_power, StateTie_validate_power b v hd, step]
  cases v with
  | fin q =>
    simp only [Val.fin?]
    by_cases h : b.okPower q <;> simp [h, Agrees, accept, reject, absG]
  | nan | pinf | ninf => simp [Val.fin?, Agrees]

/-- `tool_on(mode, v)` for a running mode = `_set_spin_mode(mode, v)`: active tool ⇒ `ToolStateError` *before*
    the power is looked at; then the power validation; only then tool power, active flag and mode are assigned -/
theorem StateTie_tool_on (b : B) (m : SpinArg) (v : Val) (hm : m = .cw ∨ m = .ccw) (hd : Val.isDouble v) :
    Agrees (step b (.toolOn m v)) b (GState._set_spin_mode (absG b) (spinOf m) v) := by
  have hoff : decide (spinOf m ≠ SpinMode.OFF) = true := by rcases hm with rfl | rfl <;> decide
  have hm' : ¬ (m = .off ∨ m = .bogus) := by rcases hm with rfl | rfl <;> decide
  simp only [GState._set_spin_mode, hoff, if_true, GState._ensure_tool_is_inactive, step, hm', if_false]
  by_cases ht : b.toolActive
  · simp [ht, absG, Agrees]
  · have ht' : (absG b)._is_tool_active = false := by simp [absG, ht]
    simp only [ht', Bool.false_eq_true, if_false, ht, GState._set_tool_power, StateTie_validate_power b v hd]
    cases v with
    | fin q =>
      simp only [Val.fin?]
      by_cases h : b.okPower q <;> simp [h, Agrees, accept, reject, absG, hoff]
    | nan | pinf | ninf => simp [Val.fin?, Agrees]

/-- `tool_off()` = `_set_spin_mode(OFF)`: never refused; power 0, flag down, mode off -/
theorem StateTie_tool_off (b : B) :
    GState._set_spin_mode (absG b) .OFF (.fin 0) = (absG (stepToolOff b).1, none) := by
  simp [GState._set_spin_mode, stepToolOff, absG, spinOf]

/-- `power_on(mode, v)` = `_set_power_mode(mode, v)` — the same discipline as `tool_on` -/
theorem StateTie_power_on (b : B) (m : PowerArg) (v : Val) (hm : m = .constant ∨ m = .dynamic) (hd : Val.isDouble v) :
    Agrees (step b (.powerOn m v)) b (GState._set_power_mode (absG b) (powOf m) v) := by
  have hoff : decide (powOf m ≠ PowerMode.OFF) = true := by rcases hm with rfl | rfl <;> decide
  have hm' : ¬ (m = .off ∨ m = .bogus) := by rcases hm with rfl | rfl <;> decide
  simp only [GState._set_power_mode, hoff, if_true, GState._ensure_tool_is_inactive, step, hm', if_false]
  by_cases ht : b.toolActive
  · simp [ht, absG, Agrees]
  · have ht' : (absG b)._is_tool_active = false := by simp [absG, ht]
    simp only [ht', Bool.false_eq_true, if_false, ht, GState._set_tool_power, StateTie_validate_power b v hd]
    cases v with
    | fin q =>
      simp only [Val.fin?]
      by_cases h : b.okPower q <;> simp [h, Agrees, accept, reject, absG]
    | nan | pinf | ninf => simp [Val.fin?, Agrees]

/-- `power_off()` = `_set_power_mode(OFF)` -/
theorem StateTie_power_off (b : B) :
    GState._set_power_mode (absG b) .OFF (.fin 0) = (absG (stepPowerOff b).1, none) := by
  simp [GState._set_power_mode, stepPowerOff, absG, powOf]

/-- `coolant_on(mode)` = `_set_coolant_mode(mode)`: already active ⇒ `CoolantStateError`, nothing assigned -/
theorem StateTie_coolant_on (b : B) (m : CoolArg) (hm : m = .mist ∨ m = .flood) :
    Agrees (step b (.coolOn m)) b (GState._set_coolant_mode (absG b) (coolOf m)) := by
  have hoff : decide (coolOf m ≠ CoolantMode.OFF) = true := by rcases hm with rfl | rfl <;> decide
  have hm' : ¬ (m = .off ∨ m = .bogus) := by rcases hm with rfl | rfl <;> decide
  simp only [GState._set_coolant_mode, hoff, if_true, GState._ensure_coolant_is_inactive, step, hm', if_false]
  by_cases ht : b.coolActive <;> simp [ht, absG, Agrees, accept, reject]

/-- `coolant_off()` = `_set_coolant_mode(OFF)` -/
theorem StateTie_coolant_off (b : B) :
    GState._set_coolant_mode (absG b) .OFF = (absG (stepCoolOff b).1, none) := by
  simp [GState._set_coolant_mode, stepCoolOff, absG, coolOf]

/-- `tool_change(mode, n)` = `_set_tool_number(mode, n)`: bounds, `n ≥ 1`, tool off, coolant off — in that order —
    and only then the number and the swap mode are assigned -/
theorem StateTie_tool_change (b : B) (m : SwapArg) (n : Int) (hm : m = .automatic ∨ m = .manual) :
    Agrees (step b (.toolChange m n)) b (GState._set_tool_number (absG b) (swapOf m) n) := by
  have hm' : ¬ (m = .off ∨ m = .bogus) := by rcases hm with rfl | rfl <;> decide
  simp only [GState._set_tool_number, GState._validate_tool_number, validateInt,
    validateNum_fin (absG b)._user_bounds .toolNumber "tool-number" (by decide), step, hm', if_false,
    GState._ensure_tool_is_inactive, GState._ensure_coolant_is_inactive]
  have hb : (absG b)._user_bounds = b.bounds := rfl
  rw [hb]
  by_cases h1 : b.bounds.okNum .toolNumber n
  · by_cases h2 : n < 1
    · simp [h1, h2, Agrees]
    · by_cases h3 : b.toolActive
      · simp [h1, h2, h3, Agrees, absG]
      · by_cases h4 : b.coolActive <;> simp [h1, h2, h3, h4, Agrees, absG, accept, reject]
  · simp [h1, Agrees]

/-- `set_bed/hotend/chamber_temperature(t)` reach `_set_target_*_temperature` with a finite `t` (the statement is
    formatted first): bounds, then the assignment -/
theorem StateTie_temperatures (b : B) (q : Rat) :
    Agrees (step b (.bed (.fin q))) b (GState._set_target_bed_temperature (absG b) (.fin q)) ∧
    Agrees (step b (.hotend (.fin q))) b (GState._set_target_hotend_temperature (absG b) (.fin q)) ∧
    Agrees (step b (.chamber (.fin q))) b (GState._set_target_chamber_temperature (absG b) (.fin q)) := by
  have hb : (absG b)._user_bounds = b.bounds := rfl
  refine ⟨?_, ?_, ?_⟩
  · simp only [GState._set_target_bed_temperature, validateNum_fin _ .bed "bed-temperature" (by decide), hb, step, Val.fin?]
    by_cases h : b.bounds.okNum .bed q <;> simp [h, Agrees, accept, reject, absG, tempOf]
  · simp only [GState._set_target_hotend_temperature, validateNum_fin _ .hotend "hotend-temperature" (by decide), hb, step, Val.fin?]
    by_cases h : b.bounds.okNum .hotend q <;> simp [h, Agrees, accept, reject, absG, tempOf]
  · simp only [GState._set_target_chamber_temperature, validateNum_fin _ .chamber "chamber-temperature" (by decide), hb, step, Val.fin?]
    by_cases h : b.bounds.okNum .chamber q <;> simp [h, Agrees, accept, reject, absG, tempOf]

/-- **Halt**: `halt()` first asks `_ensure_tool_is_inactive`, then `_ensure_coolant_is_inactive` — the model's two
    rejections, in that order — and `_set_halt_mode(mode)` followed by the `_set_halt_mode(OFF)` of `write()` gives
    back the state it started from. -/
theorem StateTie_halt (b : B) (m : HaltArg) (vps : VParams) (hm : ¬ (m = .off ∨ m = .bogus)) :
    (GState._ensure_tool_is_inactive (absG b) "" = (absG b, if b.toolActive then some .toolState else none)) ∧
    (GState._ensure_coolant_is_inactive (absG b) "" = (absG b, if b.coolActive then some .coolantState else none)) ∧
    (b.toolActive = true → stepHalt b m vps = reject b .toolState) ∧
    (b.toolActive = false → b.coolActive = true → stepHalt b m vps = reject b .coolantState) ∧
    (b.toolActive = false → b.coolActive = false →
      ∃ g, GState._set_halt_mode (absG b) (haltOf m) = (g, none) ∧ g._current_halt_mode = haltOf m ∧
           GState._set_halt_mode g .OFF = (absG b, none)) := by
  refine ⟨?_, ?_, ?_, ?_, ?_⟩
  · cases h : b.toolActive <;> simp [GState._ensure_tool_is_inactive, absG, h]
  · cases h : b.coolActive <;> simp [GState._ensure_coolant_is_inactive, absG, h]
  · intro h; simp [stepHalt, hm, h]
  · intro h1 h2; simp [stepHalt, hm, h1, h2]
  · intro h1 h2
    have e1 : (absG b)._is_tool_active = false := by simp [absG, h1]
    have e2 : (absG b)._is_coolant_active = false := by simp [absG, h2]
    refine ⟨{ absG b with _current_halt_mode := haltOf m }, ?_, rfl, ?_⟩
    · simp [GState._set_halt_mode, GState._ensure_tool_is_inactive, GState._ensure_coolant_is_inactive, e1, e2]
    · simp [GState._set_halt_mode, absG]

/-- `set_resolution(q)` = `_set_resolution`: non-positive ⇒ `ValueError` -/
theorem StateTie_resolution (b : B) (q : Rat) :
    Agrees (step b (.resolution q)) b (GState._set_resolution (absG b) (.fin q)) := by
  simp only [GState._set_resolution, step, Val.le]
  by_cases h : q ≤ 0 <;> simp [h, Agrees, accept, reject, absG]

/-- `GState._set_axes` (behind every `_update_axes`): the axes bounds are validated before the position is assigned -/
theorem StateTie_set_axes (b : B) (p : Pt) :
    GState._set_axes (absG b) p =
      if b.bounds.okAxes p then (absG { b with saxes := p }, none) else (absG b, some .valueError) := by
  simp only [GState._set_axes, validatePt]
  have hb : (absG b)._user_bounds = b.bounds := rfl
  rw [hb]
  by_cases h : b.bounds.okAxes p <;> simp [h, absG]

/-- the unconditional setters: each assigns its one field and nothing else -/
theorem StateTie_plain (b : B) :
    (∀ r, GState._set_distance_mode (absG b) (bif r then .RELATIVE else .ABSOLUTE) = (absG (stepSetDist b r).1, none)) ∧
    (∀ r, GState._set_extrusion_mode (absG b) (bif r then .RELATIVE else .ABSOLUTE) = (absG { b with erel := r }, none)) ∧
    (∀ i, GState._set_length_units (absG b) (bif i then .INCHES else .MILLIMETERS) = (absG { b with inches := i }, none)) ∧
    (∀ t, GState._set_time_units (absG b) (bif t then .MILLISECONDS else .SECONDS) = (absG { b with msTime := t }, none)) ∧
    (∀ k, GState._set_temperature_units (absG b) (bif k then .KELVIN else .CELSIUS) = (absG { b with kelvin := k }, none)) ∧
    (∀ c, GState._set_direction (absG b) (bif c then .COUNTER else .CLOCKWISE) = (absG { b with dirCcw := c }, none)) ∧
    (∀ p, GState._set_plane (absG b) (planeOf p) = (absG { b with plane := p }, none)) ∧
    (∀ f, GState._set_feed_mode (absG b) (fmodeOf f) = (absG { b with fmode := f }, none)) ∧
    (∀ ps, GState._set_params (absG b) ps = (absG { b with params := ps }, none)) := by
  refine ⟨?_, ?_, ?_, ?_, ?_, ?_, ?_, ?_, ?_⟩ <;> intro x <;>
    simp [GState._set_distance_mode, GState._set_extrusion_mode, GState._set_length_units, GState._set_time_units,
      GState._set_temperature_units, GState._set_direction, GState._set_plane, GState._set_feed_mode, GState._set_params,
      stepSetDist, absG]

/-! Non-vacuity: a running spindle, a flood coolant, bounds on the tool power. -/
example : Agrees (step { toolActive := true, spin := .cw } (.toolOn .ccw (.fin 100))) { toolActive := true, spin := .cw }
    (absG { toolActive := true, spin := .cw }, some .toolState) := by simp [Agrees, step, reject]
example : (GState._set_spin_mode (absG { bounds := { toolPower := some (100, 1000) } }) .CLOCKWISE (.fin 50)).2 = some .valueError := by
  decide +kernel

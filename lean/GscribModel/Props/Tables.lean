import GscribModel.Model.Builder
import GscribModel.Gen.CodeTable

/-!
# The model emits exactly the instructions of the repository's enum → instruction table

`Gen.codeTable` is *generated from the source text* of `gscrib/codes/gcode_mappings.py` on every run
(`tools/gen_code_table.py`).  For every enum member the builder looks up in that table, `rows` names a model call
made with that member on a fresh builder; `Tables_step_emits_table` says that the codes `Builder.step` writes for it
are exactly the instruction the *source* table gives.  (A changed table therefore breaks this theorem, for the
properties that read the codes: C02, C06, C07.)

Not in `rows`: `PositioningMode.RAPID/LINEAR` (moves are written with the literals `G0`/`G1` in `gcode_core.py`,
the table's `G00`/`G01` are never looked up) and `DistanceMode` (`gcode_core.py` writes the literals `G90`/`G91`).
-/

namespace GscribModel.Builder

open GscribModel

/-- instruction of the source table -/
def tableLookup (cls member : String) : Option String :=
  (Gen.codeTable.find? (fun e => e.1 == cls && e.2.1 == member)).map (·.2.2)

/-- the codes (as text) written by one call on a fresh builder -/
def emitted (op : Op) : List String :=
  ((step {} op).stmts.flatMap (·.codes)).map Code.text

structure Row where
  cls : String
  member : String
  op : Op

def one : Val := .fin 1

def rows : List Row := [
  ⟨"PositioningMode", "OFFSET", .setAxis { x := some one } []⟩,
  ⟨"PositioningMode", "HOME", .home { x := some one } []⟩,
  ⟨"ProbingMode", "TOWARDS", .probe .towards { x := some one } []⟩,
  ⟨"ProbingMode", "TOWARDS_NO_ERROR", .probe .towardsNoErr { x := some one } []⟩,
  ⟨"ProbingMode", "AWAY", .probe .away { x := some one } []⟩,
  ⟨"ProbingMode", "AWAY_NO_ERROR", .probe .awayNoErr { x := some one } []⟩,
  ⟨"LengthUnits", "INCHES", .units true⟩,
  ⟨"LengthUnits", "MILLIMETERS", .units false⟩,
  ⟨"ExtrusionMode", "ABSOLUTE", .emode false⟩,
  ⟨"ExtrusionMode", "RELATIVE", .emode true⟩,
  ⟨"FeedMode", "INVERSE_TIME", .fmode 0⟩,
  ⟨"FeedMode", "UNITS_PER_MINUTE", .fmode 1⟩,
  ⟨"FeedMode", "UNITS_PER_REVOLUTION", .fmode 2⟩,
  ⟨"SpinMode", "CLOCKWISE", .toolOn .cw one⟩,
  ⟨"SpinMode", "COUNTER", .toolOn .ccw one⟩,
  ⟨"SpinMode", "OFF", .toolOff⟩,
  ⟨"PowerMode", "CONSTANT", .powerOn .constant one⟩,
  ⟨"PowerMode", "DYNAMIC", .powerOn .dynamic one⟩,
  ⟨"PowerMode", "OFF", .powerOff⟩,
  ⟨"ToolSwapMode", "AUTOMATIC", .toolChange .automatic 1⟩,
  ⟨"ToolSwapMode", "MANUAL", .toolChange .manual 1⟩,
  ⟨"CoolantMode", "MIST", .coolOn .mist⟩,
  ⟨"CoolantMode", "FLOOD", .coolOn .flood⟩,
  ⟨"CoolantMode", "OFF", .coolOff⟩,
  ⟨"FanMode", "COOLING", .fan one 0⟩,
  ⟨"FanMode", "OFF", .fan (.fin 0) 0⟩,
  ⟨"BedTemperature", "CELSIUS", .bed one⟩,
  ⟨"BedTemperature", "KELVIN", .bed one⟩,
  ⟨"HotendTemperature", "CELSIUS", .hotend one⟩,
  ⟨"HotendTemperature", "KELVIN", .hotend one⟩,
  ⟨"ChamberTemperature", "CELSIUS", .chamber one⟩,
  ⟨"ChamberTemperature", "KELVIN", .chamber one⟩,
  ⟨"Plane", "XY", .plane 0⟩,
  ⟨"Plane", "YZ", .plane 1⟩,
  ⟨"Plane", "ZX", .plane 2⟩,
  ⟨"TimeUnits", "SECONDS", .sleep one⟩,
  ⟨"TimeUnits", "MILLISECONDS", .sleep one⟩,
  ⟨"QueryMode", "TEMPERATURE", .query true⟩,
  ⟨"QueryMode", "POSITION", .query false⟩,
  ⟨"HaltMode", "PAUSE", .halt .pause []⟩,
  ⟨"HaltMode", "OPTIONAL_PAUSE", .halt .optionalPause []⟩,
  ⟨"HaltMode", "END_WITHOUT_RESET", .halt .endNoReset []⟩,
  ⟨"HaltMode", "END_WITH_RESET", .halt .endReset []⟩,
  ⟨"HaltMode", "PALLET_EXCHANGE", .halt .pallet []⟩,
  ⟨"HaltMode", "WAIT_FOR_BED", .halt .waitBed []⟩,
  ⟨"HaltMode", "WAIT_FOR_HOTEND", .halt .waitHotend []⟩,
  ⟨"HaltMode", "WAIT_FOR_CHAMBER", .halt .waitChamber []⟩,
  ⟨"HaltMode", "WAIT_FOR_MOTION", .halt .waitMotion []⟩
]

def Row.ok (r : Row) : Bool := some (emitted r.op) == (tableLookup r.cls r.member).map (fun i => [i])

end GscribModel.Builder

open GscribModel GscribModel.Builder

/-- every call of `rows`, made on a fresh builder, writes exactly the instruction the source table holds for
    its enum member -/
theorem Tables_step_emits_table : rows.all Row.ok = true := by decide +kernel

/-- every entry of the source table is exercised by a row or is one of the four entries the core writes as
    literals -/
theorem Tables_rows_cover :
    Gen.codeTable.all (fun e =>
      rows.any (fun r => r.cls == e.1 && r.member == e.2.1)
      || (e.1 == "PositioningMode" && (e.2.1 == "RAPID" || e.2.1 == "LINEAR"))
      || e.1 == "DistanceMode") = true := by decide +kernel

/-- the emergency sequence ends with the table's END_WITH_RESET / PAUSE instruction -/
theorem Tables_emergency_codes :
    (emitted (.ehalt true)).getLast? = tableLookup "HaltMode" "END_WITH_RESET" ∧
    (emitted (.ehalt false)).getLast? = tableLookup "HaltMode" "PAUSE" ∧
    (emitted (.ehalt true)).take 2 = (tableLookup "SpinMode" "OFF").toList ++ (tableLookup "CoolantMode" "OFF").toList := by
  decide +kernel

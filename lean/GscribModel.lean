-- Root of the `GscribModel` library: models (Mathlib-free), lemmas, property theorems.
import GscribModel.Model.Proto
import GscribModel.Props.C17

-- Root of the `GscribModel` library: models (Mathlib-free), lemmas, property theorems.
import GscribModel.Model.Proto
import GscribModel.Props.C17
import GscribModel.Props.C02
import GscribModel.Props.C05
import GscribModel.Props.C06
import GscribModel.Props.C03
import GscribModel.Props.C01
import GscribModel.Props.C07
import GscribModel.Props.C19
import GscribModel.Props.C15
import GscribModel.Props.C16
import GscribModel.Props.C14
import GscribModel.Props.C18
import GscribModel.Props.C20
import GscribModel.Props.C04
import GscribModel.Props.C13

import GscribModel.Drv.Format
def main : IO Unit := GscribModel.FormatDrv.main

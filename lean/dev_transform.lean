import GscribModel.Drv.Transform
def main : IO Unit := GscribModel.TransformDrv.main

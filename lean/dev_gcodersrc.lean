import GscribModel.Drv.GcoderSrc
def main : IO Unit := GscribModel.GcoderSrcDrv.main

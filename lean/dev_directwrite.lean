import GscribModel.Drv.DirectWrite
def main : IO Unit := GscribModel.DirectWriteDrv.main

#!/venv/bin/python
"""Entry point of every registered check:  run.py check <ID> [--tier quick|thorough] [--replay FILE]

Exit 0: property held on everything explored.  Exit 1: `VIOLATION property=<ID> replay=<path>` printed.
Exit 2: infrastructure problem (build tool missing, driver crash, time-out) - never a violation.
"""
import argparse
import importlib
import json
import os
import sys
import traceback
from pathlib import Path

sys.path.insert(0, str(Path(__file__).resolve().parent))
from harness import core  # noqa: E402


def main() -> int:
    ap = argparse.ArgumentParser()
    ap.add_argument("cmd", choices=["check", "list"])
    ap.add_argument("prop", nargs="?")
    ap.add_argument("--tier", default=os.environ.get("VERIF_TIER", "quick"), choices=["quick", "thorough"])
    ap.add_argument("--replay")
    ap.add_argument("--no-proof", action="store_true", help="skip lake build/audit (development only)")
    a = ap.parse_args()
    if a.cmd == "list":
        for f in sorted((Path(__file__).parent / "harness").glob("c[0-9][0-9].py")):
            print(f.stem.upper())
        return 0
    prop = a.prop.upper()
    try:
        seed = int(os.environ.get("VERIF_SEED", "0"))
    except ValueError:
        seed = 0
    cov = None
    if os.environ.get("VERIF_COVERAGE") == "1" and not a.replay:
        # optional: which statements of the property's anchor files does this run execute?
        import coverage
        cov = coverage.Coverage(data_file=None, source=[str(core.REPO / "gscrib")], branch=False)
        cov.start()
    try:
        core.use_repo()
        mod = importlib.import_module(f"harness.{prop.lower()}")
        if a.replay:
            data = json.loads(Path(a.replay).read_text())
            return mod.replay(data)
        R = core.Run(prop, a.tier, seed)
        R.scratch = a.no_proof
        core.note_source_changes(R)
        if not a.no_proof:
            R.prove()
        R.check_ties()
        res = mod.run(R) or ({}, {})
        if cov is not None:
            cov.stop()
            R.extra["impl_coverage"] = core.coverage_report(cov, prop)
        return R.finish(*res)
    except core.Infra as e:
        print(f"INFRASTRUCTURE-ERROR property={prop}: {e}", file=sys.stderr)
        return 2
    except Exception:
        traceback.print_exc()
        print(f"INFRASTRUCTURE-ERROR property={prop}: harness crashed", file=sys.stderr)
        return 2


if __name__ == "__main__":
    sys.exit(main())

#!/usr/bin/env python3
"""Translator: gscrib/gcode_state.py (class GState) + gscrib/enums/**  ->  Lean (GscribModel/Gen/StateSrc.lean)

Reads the *source text* (by AST; nothing is imported or executed) of the state class whose setters carry the
interlocks, the validation order and the "validate, then commit" discipline that properties C02, C03, C05, C06 and C07
rest on, and writes every setter / check method as a Lean function

    GState.<method> (self : GState) (args…) : GState × Option Err      -- the state when the method returned or raised, and the exception class

over a structure with one field per `__slots__` entry.  `Props/StateTie.lean` then proves that the hand-written
builder model's state transitions are exactly these functions (for every state and argument), so a change to the
order of checks and assignments in the source changes the generated definitions and breaks a tie theorem on the next run.

The subset understood (anything else is an error - the translator refuses rather than guesses):
  statements   docstring; `self._f = e`; `self._f: T = e`; `name = <string>` (messages, dropped); `self._m(args)`;
               `self._user_bounds.validate("name", v)`; `if c: … else: …`; `raise Err(msg)`
  expressions  parameters; `self._f`; `Enum.MEMBER`; numbers / booleans; `==` `!=` `<` `<=` `>` `>=` (chains);
               `and` `or` `not`; `isinstance(x, T)` (true: typeguard enforces the annotations - recorded assumption);
               `sys.float_info.max`; `float("-inf")`; `Point.zero()`; `ParamsDict()`; `BoundManager()`
Types: `float` -> `Val` (finite rational | nan | +inf | -inf, Python comparison semantics), `int` -> `Int`, `bool` ->
`Bool`, enum classes -> generated inductive types, `Point` -> `Pt`, `ParamsDict` -> `Params`, `BoundManager` -> `Bounds`
(the last three and `validate` are the hand-written prelude `Model/GenPrelude.lean`, tied to the code by correspondence).

usage: gen_state.py [repo_root] [--out FILE | --stdout]
"""
import ast
import os
import sys
from pathlib import Path

V = Path(__file__).resolve().parent.parent
OUT = V / "lean" / "GscribModel" / "Gen" / "StateSrc.lean"

PRIM_TYPES = {"float": "Val", "int": "Int", "bool": "Bool", "Point": "Pt", "ParamsDict": "Params", "BoundManager": "Bounds", "str": "String"}
ERRORS = {"ToolStateError": "toolState", "CoolantStateError": "coolantState", "ValueError": "valueError"}
SKIP_METHODS = {"_set_bounds"}          # delegates to BoundManager.set_bounds (prelude / correspondence)


class Unsupported(Exception):
    pass


def fail(node, what):
    raise Unsupported(f"line {getattr(node, 'lineno', '?')}: {what}")


# ------------------------------------------------------------------ enums
# enums whose `_missing_` accepts alias spellings; for every other enum `Enum(value)` accepts exactly the members and their values - code
# that compares a raw argument with a member (`GCodeCore.set_distance_mode`) relies on that
ALIASED_ENUMS = {"Direction", "SpinMode", "TimeUnits", "LengthUnits"}


def read_enums(repo: Path):
    enums = {}
    for f in sorted((repo / "gscrib" / "enums").rglob("*.py")):
        tree = ast.parse(f.read_text())
        for node in tree.body:
            if isinstance(node, ast.ClassDef) and any(getattr(b, "id", None) == "BaseEnum" for b in node.bases):
                members = []
                for st in node.body:
                    if isinstance(st, ast.Assign) and len(st.targets) == 1 and isinstance(st.targets[0], ast.Name) \
                            and isinstance(st.value, ast.Constant) and isinstance(st.value.value, str) and st.targets[0].id.isupper():
                        members.append((st.targets[0].id, st.value.value))
                if members:
                    enums[node.name] = members
                    if any(isinstance(st, ast.FunctionDef) and st.name == "_missing_" for st in node.body) != (node.name in ALIASED_ENUMS):
                        raise Unsupported(f"enum {node.name}: a `_missing_` hook (alias spellings) is expected exactly for {sorted(ALIASED_ENUMS)}")
    return enums


# ------------------------------------------------------------------ the class
class Translator:
    def __init__(self, repo: Path):
        self.enums = read_enums(repo)
        src = (repo / "gscrib" / "gcode_state.py").read_text()
        tree = ast.parse(src)
        cls = [n for n in tree.body if isinstance(n, ast.ClassDef) and n.name == "GState"]
        if len(cls) != 1:
            raise Unsupported("class GState not found")
        self.cls = cls[0]
        self.methods = {n.name: n for n in self.cls.body if isinstance(n, ast.FunctionDef)}
        self.slots = self._slots()
        self.ftype = {}           # field -> Lean type
        self.used_enums = []
        self._infer_field_types()
        # `@property def name(self): return self._field`  ->  `self.name` reads that field
        self.props = {}
        for n, m in self.methods.items():
            if any(getattr(d, "id", None) == "property" for d in m.decorator_list):
                body = [st for st in m.body if not (isinstance(st, ast.Expr) and isinstance(st.value, ast.Constant))]
                if len(body) == 1 and isinstance(body[0], ast.Return) and self._is_self_attr(body[0].value) and body[0].value.attr in self.ftype:
                    self.props[n] = body[0].value.attr
        # helpers whose body is a single `return <expression>`: pure functions of the state, usable inside expressions
        self.pure = {}
        self.computed = set()      # properties that compute something: pure functions read as `self.name`
        for n, m in self.methods.items():
            if n in self.props or n.startswith("__"):
                continue
            if any(getattr(d, "id", None) == "property" for d in m.decorator_list):
                self.computed.add(n)
            body = [st for st in m.body if not (isinstance(st, ast.Expr) and isinstance(st.value, ast.Constant))]
            if len(body) == 1 and isinstance(body[0], ast.Return) and body[0].value is not None and m.returns is not None:
                self.pure[n] = m

    def _slots(self):
        for st in self.cls.body:
            if isinstance(st, ast.Assign) and getattr(st.targets[0], "id", None) == "__slots__":
                return [e.value for e in st.value.elts]
        raise Unsupported("__slots__ not found")

    def lean_type(self, ann, node=None):
        if isinstance(ann, ast.Name):
            if ann.id in PRIM_TYPES:
                return PRIM_TYPES[ann.id]
            if ann.id in self.enums:
                if ann.id not in self.used_enums:
                    self.used_enums.append(ann.id)
                return ann.id
        fail(node or ann, f"unsupported type annotation {ast.dump(ann)}")

    def _infer_field_types(self):
        init = self.methods["__init__"]
        for st in init.body:
            if isinstance(st, ast.AnnAssign) and self._is_self_attr(st.target):
                self.ftype[st.target.attr] = self.lean_type(st.annotation, st)
            elif isinstance(st, ast.Assign) and self._is_self_attr(st.targets[0]):
                v = st.value
                if isinstance(v, ast.Call):
                    fn = v.func
                    name = fn.id if isinstance(fn, ast.Name) else (fn.value.id if isinstance(fn, ast.Attribute) and isinstance(fn.value, ast.Name) else None)
                    if name in PRIM_TYPES:
                        self.ftype[st.targets[0].attr] = PRIM_TYPES[name]
                elif isinstance(v, ast.Attribute) and isinstance(v.value, ast.Name) and v.value.id in self.enums:
                    self.ftype[st.targets[0].attr] = self.lean_type(v.value)
        # fields assigned a typed parameter in a setter
        for m in self.methods.values():
            ptypes = {a.arg: a.annotation for a in m.args.args[1:] if a.annotation is not None}
            for st in ast.walk(m):
                if isinstance(st, ast.Assign) and self._is_self_attr(st.targets[0]) and isinstance(st.value, ast.Name) \
                        and st.value.id in ptypes and st.targets[0].attr not in self.ftype:
                    self.ftype[st.targets[0].attr] = self.lean_type(ptypes[st.value.id], st)
        missing = [s for s in self.slots if s not in self.ftype]
        if missing:
            raise Unsupported(f"cannot infer the type of fields {missing}")

    @staticmethod
    def _is_self_attr(n):
        return isinstance(n, ast.Attribute) and isinstance(n.value, ast.Name) and n.value.id == "self"

    # ---------------------------------------------------------------- expressions: returns (lean text, type)
    def expr(self, e, env, want=None):
        if isinstance(e, ast.Constant):
            if isinstance(e.value, bool):
                return ("true" if e.value else "false"), "Bool"
            if isinstance(e.value, (int, float)):
                q = self._rat(e.value)
                if want == "Int" and float(e.value).is_integer():
                    return f"({int(e.value)} : Int)", "Int"
                return f"(Val.fin {q})", "Val"
            if isinstance(e.value, str):
                return '""', "String"        # message texts are not modelled
            fail(e, f"constant {e.value!r}")
        if isinstance(e, ast.JoinedStr):
            return '""', "String"
        if isinstance(e, ast.Name):
            if e.id in env:
                return e.id, env[e.id]
            fail(e, f"unknown name {e.id}")
        if self._is_self_attr(e):
            if e.attr in self.ftype:
                return f"{env['$self']}.{e.attr}", self.ftype[e.attr]
            if e.attr in self.props:
                f = self.props[e.attr]
                return f"{env['$self']}.{f}", self.ftype[f]
            if e.attr in self.computed and e.attr in self.pure:
                return f"(GState.{e.attr} {env['$self']})", self.lean_type(self.pure[e.attr].returns, e)
            fail(e, f"unknown field {e.attr}")
        if isinstance(e, ast.IfExp):
            c, cty = self.expr(e.test, env, "Bool")
            self._need(e, cty, "Bool")
            a, aty = self.expr(e.body, env, want)
            b, bty = self.expr(e.orelse, env, aty)
            if isinstance(e.body, ast.Constant) and aty != bty:
                a, aty = self.expr(e.body, env, bty)
            if aty != bty:
                fail(e, f"branches of different types in {ast.unparse(e)}")
            return f"(if {c} then {a} else {b})", aty
        if isinstance(e, ast.Attribute):
            if isinstance(e.value, ast.Name) and e.value.id in self.enums:
                if e.attr not in [m for m, _ in self.enums[e.value.id]]:
                    fail(e, f"{e.value.id} has no member {e.attr}")
                self.lean_type(e.value)
                return f"{e.value.id}.{e.attr}", e.value.id
            if ast.unparse(e) == "sys.float_info.max":
                return "floatMax", "Val"
            fail(e, f"attribute {ast.unparse(e)}")
        if isinstance(e, ast.UnaryOp) and isinstance(e.op, ast.Not):
            t, ty = self.expr(e.operand, env, "Bool")
            self._need(e, ty, "Bool")
            return f"(!{t})", "Bool"
        if isinstance(e, ast.UnaryOp) and isinstance(e.op, ast.USub) and isinstance(e.operand, ast.Constant):
            return f"(Val.fin ({self._rat(-e.operand.value)}))", "Val"
        if isinstance(e, ast.BoolOp):
            parts = []
            for v in e.values:
                t, ty = self.expr(v, env, "Bool")
                self._need(v, ty, "Bool")
                parts.append(t)
            return "(" + (" && " if isinstance(e.op, ast.And) else " || ").join(parts) + ")", "Bool"
        if isinstance(e, ast.Compare):
            operands = [e.left] + list(e.comparators)
            texts = []
            for a, op, b in zip(operands, e.ops, operands[1:]):
                texts.append(self._compare(e, a, op, b, env))
            return ("(" + " && ".join(texts) + ")") if len(texts) > 1 else texts[0], "Bool"
        if isinstance(e, ast.Call) and self._is_self_attr(e.func) and e.func.attr in self.pure:
            m = self.pure[e.func.attr]
            return f"(GState.{e.func.attr} {env['$self']}{self._call_args(e, m, env)})", self.lean_type(m.returns, e)
        if isinstance(e, ast.Call):
            src = ast.unparse(e)
            if isinstance(e.func, ast.Name) and e.func.id == "isinstance":
                return "true", "Bool"          # typeguard enforces the annotation (assumption, see header)
            if src in ('float("-inf")', "float('-inf')"):
                return "Val.ninf", "Val"
            if src in ('float("inf")', "float('inf')"):
                return "Val.pinf", "Val"
            if src == "Point.zero()":
                return "Pt.zero", "Pt"
            if src == "ParamsDict()":
                return "([] : Params)", "Params"
            if src == "BoundManager()":
                return "({} : Bounds)", "Bounds"
            fail(e, f"call {src}")
        fail(e, f"expression {ast.unparse(e)}")

    @staticmethod
    def _rat(v):
        from fractions import Fraction
        f = Fraction(repr(v)) if isinstance(v, float) else Fraction(v)   # a float literal denotes the decimal it is written as
        return str(f.numerator) if f.denominator == 1 else f"(({f.numerator} : Rat) / {f.denominator})"

    def _need(self, node, got, want):
        if got != want:
            fail(node, f"expected {want}, got {got} in {ast.unparse(node)}")

    def _compare(self, node, a, op, b, env):
        ta, tya = self.expr(a, env)
        tb, tyb = self.expr(b, env, tya)
        if isinstance(a, ast.Constant) and not isinstance(a.value, bool):
            ta, tya = self.expr(a, env, tyb)
        if tya != tyb:
            fail(node, f"comparison of {tya} with {tyb} in {ast.unparse(node)}")
        if isinstance(op, (ast.Eq, ast.NotEq)):
            if tya == "Val":
                fn = "Val.eq"
                return f"({fn} {ta} {tb})" if isinstance(op, ast.Eq) else f"(!{fn} {ta} {tb})"
            return f"decide ({ta} = {tb})" if isinstance(op, ast.Eq) else f"decide ({ta} ≠ {tb})"
        sym = {ast.Lt: ("lt", "<"), ast.LtE: ("le", "≤"), ast.Gt: ("gt", ">"), ast.GtE: ("ge", "≥")}.get(type(op))
        if sym is None:
            fail(node, f"operator in {ast.unparse(node)}")
        if tya == "Val":
            return f"(Val.{sym[0]} {ta} {tb})"
        if tya == "Int":
            return f"decide ({ta} {sym[1]} {tb})"
        fail(node, f"ordering on {tya}")

    # ---------------------------------------------------------------- statements -> expression of type Except Err GState
    def block(self, stmts, env, depth, k):
        """translate `stmts` executed from the state variable env['$self']; `k(env)` is the continuation text"""
        ind = "  " * depth
        if not stmts:
            return k(env, depth)
        st, rest = stmts[0], stmts[1:]
        cur = env["$self"]
        if isinstance(st, ast.Expr) and isinstance(st.value, ast.Constant) and isinstance(st.value.value, str):
            return self.block(rest, env, depth, k)
        if isinstance(st, ast.Pass):
            return self.block(rest, env, depth, k)
        if isinstance(st, (ast.Assign, ast.AnnAssign)):
            tgt = st.targets[0] if isinstance(st, ast.Assign) else st.target
            if isinstance(tgt, ast.Name):
                t, ty = self.expr(st.value, env)
                if ty == "String":
                    return self.block(rest, env, depth, k)          # message text: dropped
                env2 = dict(env, **{tgt.id: ty})
                return f"{ind}let {tgt.id} : {ty} := {t}\n" + self.block(rest, env2, depth, k)
            if not self._is_self_attr(tgt) or tgt.attr not in self.ftype:
                fail(st, f"assignment target {ast.unparse(tgt)}")
            t, ty = self.expr(st.value, env, self.ftype[tgt.attr])
            self._need(st, ty, self.ftype[tgt.attr])
            nxt = self._fresh(env)
            env2 = dict(env, **{"$self": nxt})
            return f"{ind}let {nxt} : GState := {{ {cur} with {tgt.attr} := {t} }}\n" + self.block(rest, env2, depth, k)
        if isinstance(st, ast.Expr) and isinstance(st.value, ast.Call):
            c = st.value
            fn = c.func
            if self._is_self_attr(fn):                                   # self._method(args)
                if fn.attr not in self.methods or fn.attr in SKIP_METHODS:
                    fail(st, f"call of {fn.attr}")
                args = self._call_args(c, self.methods[fn.attr], env)
                nxt = self._fresh(env)
                env2 = dict(env, **{"$self": nxt})
                return (f"{ind}match GState.{fn.attr} {cur}{args} with\n{ind}| ({nxt}, some e) => ({nxt}, some e)\n{ind}| ({nxt}, none) =>\n"
                        + self.block(rest, env2, depth + 1, k))
            if isinstance(fn, ast.Attribute) and self._is_self_attr(fn.value) and fn.value.attr == "_user_bounds" and fn.attr == "validate":
                if len(c.args) != 2 or not (isinstance(c.args[0], ast.Constant) and isinstance(c.args[0].value, str)):
                    fail(st, "validate() arguments")
                t, ty = self.expr(c.args[1], env)
                prim = {"Val": "validateNum", "Int": "validateInt", "Pt": "validatePt"}.get(ty)
                if prim is None:
                    fail(st, f"validate() of a {ty}")
                return (f"{ind}match {prim} {cur}._user_bounds \"{c.args[0].value}\" {t} with\n{ind}| .error e => ({cur}, some e)\n{ind}| .ok _ =>\n"
                        + self.block(rest, env, depth + 1, k))
            fail(st, f"statement {ast.unparse(st)}")
        if isinstance(st, ast.Raise):
            exc = st.exc
            name = exc.func.id if isinstance(exc, ast.Call) and isinstance(exc.func, ast.Name) else None
            if name not in ERRORS:
                fail(st, f"raise {ast.unparse(st)}")
            return f"{ind}({cur}, some .{ERRORS[name]})\n"
        if isinstance(st, ast.If):
            t, ty = self.expr(st.test, env, "Bool")
            self._need(st, ty, "Bool")
            # the statements after the `if` are continued in both branches (a `return` inside a branch ends the method there)
            return (f"{ind}if {t} then\n" + self.block(list(st.body) + rest, env, depth + 1, k) + f"{ind}else\n"
                    + self.block(list(st.orelse) + rest, env, depth + 1, k))
        if isinstance(st, ast.Return) and st.value is None:
            return f"{ind}({cur}, none)\n"
        fail(st, f"statement {ast.unparse(st)[:60]}")

    def _fresh(self, env):
        env["$n"][0] += 1
        return f"s{env['$n'][0]}"

    def _call_args(self, call, target, env):
        params = target.args.args[1:]
        defaults = dict(zip([a.arg for a in params][len(params) - len(target.args.defaults):], target.args.defaults))
        given = list(call.args)
        out = ""
        for i, p in enumerate(params):
            ty = self.lean_type(p.annotation, call)
            if i < len(given):
                t, got = self.expr(given[i], env, ty)
            elif p.arg in defaults:
                t, got = self.expr(defaults[p.arg], env, ty)
            else:
                fail(call, f"missing argument {p.arg}")
            if got != ty:
                fail(call, f"argument {p.arg}: expected {ty}, got {got}")
            out += f" {t}"
        return out

    def pure_method(self, m):
        sig, env = "", {"$self": "self", "$n": [0]}
        for p in m.args.args[1:]:
            ty = self.lean_type(p.annotation, m)
            sig += f" ({p.arg} : {ty})"
            env[p.arg] = ty
        rty = self.lean_type(m.returns, m)
        body = [st for st in m.body if not (isinstance(st, ast.Expr) and isinstance(st.value, ast.Constant))][0]
        t, ty = self.expr(body.value, env, rty)
        self._need(m, ty, rty)
        return (f"/-- `GState.{m.name}` (source line {m.lineno}): a pure function of the state -/\n"
                f"def GState.{m.name} (self : GState){sig} : {rty} :=\n  {t}\n")

    def method(self, m):
        if m.name in self.pure:
            return self.pure_method(m)
        params = m.args.args[1:]
        sig, env = "", {"$self": "self", "$n": [0]}
        for p in params:
            if p.annotation is None:
                fail(m, f"parameter {p.arg} of {m.name} has no annotation")
            ty = self.lean_type(p.annotation, m)
            sig += f" ({p.arg} : {ty})"
            env[p.arg] = ty
        body = self.block(m.body, env, 1, lambda e, d: "  " * d + f"({e['$self']}, none)\n")
        # re-indent the continuation of nested matches is already handled by depth
        doc = f"/-- `GState.{m.name}` (source line {m.lineno}) -/\n"
        return doc + f"def GState.{m.name} (self : GState){sig} : GState × Option Err :=\n" + body

    # ---------------------------------------------------------------- whole file
    def render(self):
        order = self._method_order()
        meths = [self.method(self.methods[n]) for n in order]
        init = self._init()
        out = ["/- GENERATED by tools/gen_state.py from gscrib/gcode_state.py and gscrib/enums/ (source text, by AST). Do not edit.",
               "   Assumptions of the translation: `isinstance(x, T)` is true (typeguard enforces the annotations); message texts are",
               "   dropped; `_user_bounds.validate` is the prelude's `validateNum/validateInt/validatePt`. -/",
               "import GscribModel.Model.GenPrelude", "namespace GscribModel.Gen.StateSrc", "open GscribModel.Builder GscribModel.GenPrelude", "set_option linter.unusedVariables false", ""]
        for en in self.used_enums:
            ms = self.enums[en]
            out.append(f"/-- `gscrib.enums.{en}` -/")
            out.append(f"inductive {en} where " + " ".join(f"| {m}" for m, _ in ms))
            out.append("deriving DecidableEq, Repr, Inhabited")
            out.append(f"def {en}.value : {en} → String")
            out += [f"  | .{m} => \"{v}\"" for m, v in ms]
            out.append(f"def {en}.ofValue? : String → Option {en}")
            out += [f"  | \"{v}\" => some .{m}" for m, v in ms]
            out.append("  | _ => none")
            out.append(f"def {en}.memberName : {en} → String")
            out += [f"  | .{m} => \"{m}\"" for m, _ in ms]
            out.append("")
        out.append("/-- one field per `GState.__slots__` entry -/")
        out.append("structure GState where")
        for s in self.slots:
            out.append(f"  {s} : {self.ftype[s]}")
        out.append("deriving DecidableEq, Repr")
        out.append("")
        out += meths
        out.append(init)
        out.append("/-- names of the translated methods, in source order -/")
        out.append("def translated : List String := [" + ", ".join(f'"{n}"' for n in sorted(order, key=lambda n: self.methods[n].lineno)) + "]")
        out.append("")
        out.append("end GscribModel.Gen.StateSrc")
        return "\n".join(out) + "\n"

    def _method_order(self):
        names = [n for n, m in self.methods.items()
                 if not n.startswith("__") and n not in SKIP_METHODS and n not in ("get_parameter", "get_bounds")
                 and (n in self.computed and n in self.pure and self._used(n)
                      or not any(getattr(d, "id", None) == "property" for d in m.decorator_list))]
        # callees first
        deps = {n: ({c.func.attr for c in ast.walk(self.methods[n]) if isinstance(c, ast.Call) and self._is_self_attr(c.func) and c.func.attr in names}
                    | {c.attr for c in ast.walk(self.methods[n]) if self._is_self_attr(c) and c.attr in names and c.attr in self.computed}) - {n}
                for n in names}
        order, seen = [], set()

        def visit(n, stack=()):
            if n in seen:
                return
            if n in stack:
                raise Unsupported(f"recursive methods {stack}")
            for d in sorted(deps[n], key=lambda x: self.methods[x].lineno):
                visit(d, stack + (n,))
            seen.add(n)
            order.append(n)

        for n in sorted(names, key=lambda x: self.methods[x].lineno):
            visit(n)
        return order

    def _used(self, prop_name):
        """is the computed property read by some translated method?"""
        return any(self._is_self_attr(n) and n.attr == prop_name for m in self.methods.values() for n in ast.walk(m)
                   if not any(getattr(d, "id", None) == "property" for d in m.decorator_list))

    def _init(self):
        """`__init__`: plain assignments give the blank state; the setter calls that follow are folded over it"""
        init = self.methods["__init__"]
        fields, calls = {}, []
        for st in init.body:
            if isinstance(st, ast.Expr) and isinstance(st.value, ast.Constant):
                continue
            if isinstance(st, (ast.Assign, ast.AnnAssign)):
                tgt = st.targets[0] if isinstance(st, ast.Assign) else st.target
                if calls:
                    fail(st, "assignment after a setter call in __init__")
                t, ty = self.expr(st.value, {"$self": "self", "$n": [0]}, self.ftype[tgt.attr])
                self._need(st, ty, self.ftype[tgt.attr])
                fields[tgt.attr] = t
            elif isinstance(st, ast.Expr) and isinstance(st.value, ast.Call) and self._is_self_attr(st.value.func):
                calls.append(st)
            else:
                fail(st, "statement in __init__")
        lines = ["/-- the fields `__init__` assigns directly; the others are set by the setter calls below (until then: the", "    type's first member) -/",
                 "def GState.blank : GState where"]
        for s in self.slots:
            lines.append(f"  {s} := {fields.get(s, 'default')}")
        lines.append("")
        lines.append("/-- `GState.__init__`: the setter calls, in source order, from the blank state -/")
        lines.append("def GState.init : GState × Option Err :=")
        env = {"$self": "GState.blank", "$n": [0]}
        lines.append(self.block(calls, env, 1, lambda e, d: "  " * d + f"({e['$self']}, none)\n"))
        return "\n".join(lines)


def main():
    args = [a for a in sys.argv[1:] if not a.startswith("--")]
    repo = Path(args[0] if args else os.environ.get("GSCRIB_REPO", "/repo"))
    try:
        text = Translator(repo).render()
    except Unsupported as e:
        print("gen_state: the source is outside the translated subset:", e, file=sys.stderr)
        raise SystemExit(3)
    if "--stdout" in sys.argv:
        sys.stdout.write(text)
        return
    out = Path(sys.argv[sys.argv.index("--out") + 1]) if "--out" in sys.argv else OUT
    out.parent.mkdir(parents=True, exist_ok=True)
    if not out.exists() or out.read_text() != text:
        out.write_text(text)
        print("gen_state: rewrote", out)


if __name__ == "__main__":
    main()

#!/usr/bin/env python3
"""Maintainer helper: wire a finished property into Driver.lean / GscribModel.lean / known_findings.json.
usage: integrate.py <PROP> <Area> <mode>   (Area/mode may be '-' when the driver mode already exists)"""
import json, sys
from pathlib import Path
V = Path(__file__).resolve().parent.parent
prop, area, mode = sys.argv[1:4]
if area != "-":
    d = V / "lean/Driver.lean"
    s = d.read_text()
    imp = f"import GscribModel.Drv.{area}\n"
    if imp not in s:
        s = s.replace("/-! Line-protocol driver", imp + "/-! Line-protocol driver", 1)
        s = s.replace("  | _ => IO.eprintln", f'  | ["{mode}"] => {area}Drv.main; return 0\n  | _ => IO.eprintln', 1)
        d.write_text(s)
    dev = V / f"lean/dev_{mode}.lean"
    if dev.exists():
        dev.unlink()
r = V / "lean/GscribModel.lean"
s = r.read_text()
imp = f"import GscribModel.Props.{prop}\n"
if imp not in s:
    r.write_text(s + imp)
ff = V / f"harness/findings_{prop.lower()}.json"
if ff.exists():
    kf = V / "known_findings.json"
    d = json.loads(kf.read_text())
    have = {f["id"] for f in d["findings"]}
    for f in json.loads(ff.read_text()):
        if f["id"] not in have:
            d["findings"].append(f)
    kf.write_text(json.dumps(d, indent=1))
    ff.unlink()
print("integrated", prop)

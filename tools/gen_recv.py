#!/usr/bin/env python3
"""Translator: the reception path of the bundled sender  ->  GscribModel/Gen/RecvSrc.lean

  gscrib/printrun/printcore.py   `printcore._readline`                                   (C18: every report received is parsed)
  gscrib/printrun/device.py      `Device.has_flow_control`, `Device.is_connected` and the
                                 `_is_connected_<type>` methods the latter dispatches to  (C15: `_send` numbers lines)

The methods are translated literally from the source text (by AST; nothing is imported or executed), statement by
statement and in source order, into Lean functions over the records of `Model/RecvPrelude.lean`:

  _readline (self : Printcore) (read : Read) : Printcore × Except PyErr (Option Text)
        the object when the method returned or raised (its ghost field `trace` lists every client / logging call made,
        in order), and the value returned or the exception that left the method; `read` = what the one
        `self.printer.readline()` of the body does;
  has_flow_control / is_connected / _is_connected_<t> (self : Device) : Except PyErr Bool      (they assign nothing).

What a statement becomes
  * `self.f = e` a record update; `self.log.append(e)` `Py.dequeAppend log_maxlen` (the `maxlen` of `__init__`);
    `self.logError(m)` / `self._logger.error(m)` / `self._logger.info(m)` one trace event (message not translated);
  * a call that may raise (`self.printer.readline()`, `x.decode('utf-8')`, `handler.on_recv(x)`, `self.recvcb(x)`,
    `self._device.is_open`, the `getattr` dispatch) a `match` on its outcome: the error arm goes to the innermost
    enclosing `try` (`except_k`), or leaves the method;
  * `try: B except C1: H1 except C2: H2` a local function `except_k` that tests the classes in source order (no match:
    re-raise outwards) followed by `B`; what follows the `try` (or an `if`) is a local function `next_k`, entered from
    every normal exit;
  * `for h in self.event_handler: B` `Py.forEach` over the registered handlers with `B` as a function (no `return`,
    `break`, `continue` in `B`);
  * `if c: A else: B` continues with the rest of the block in both branches, so an early `return` ends the method there.

Subset (anything else: refuse, exit 3)
  statements   `x = e`, `self.<bool field> = e`, the calls listed above as statements or as `x = <call>` / `return <call>`,
               `if / elif / else`, `return [e]`, `try / except [C | (C, …)] [as e]` (no `else` / `finally`), the handler
               loop, `pass`, docstrings.  A local assigned inside an `if` / `try` / `for` may not be read outside it.
  expressions  `None`, `True`, `False`, ints, locals, `self.online|loud|stop_read_thread|recvcb` resp.
               `self._type|_device|_is_connected|force_dtr`, module constants that are `None` (`PR_EOF`,
               `device.READ_EOF`), `len(x)`, `bool(x)`, int comparisons, `x == 'lit'`, `x is [not] None`,
               `not` / `and` / `or` / `if` tests by truthiness (bool, int, text, bytes, None-or-something).
  messages     an argument of a logging call, or a local only used in such arguments, may be any expression built from
               literals, names, attributes, `+`, `%`, tuples, f-strings and calls of `.format`, `.rstrip`, `.strip`,
               `str`, `repr`, `_`, `decode_utf8`, `traceback.format_exc`; it is dropped.
  exception classes in `except`: `UnicodeDecodeError` (also `UnicodeError`, `ValueError`), `device.DeviceError`,
               `AttributeError`, `TypeError`, `Exception` / `BaseException` / bare.
  Checked in `__init__`: `self.log = deque(maxlen=<int>)`, `self.event_handler = []`; in device.py `READ_EOF = None`;
  `@property` on the two properties and on nothing else that is translated.

usage: gen_recv.py [repo_root] [--out FILE | --stdout]
"""
import ast
import os
import sys
from pathlib import Path

V = Path(__file__).resolve().parent.parent
OUT = V / "lean" / "GscribModel" / "Gen" / "RecvSrc.lean"
SRC_CORE = "gscrib/printrun/printcore.py"
SRC_DEV = "gscrib/printrun/device.py"

PC_FIELDS = {"online": "Bool", "loud": "Bool", "stop_read_thread": "Bool", "recvcb": "OptCb"}
DEV_FIELDS = {"_type": "OptStr", "_device": "OptPort", "_is_connected": "Bool", "force_dtr": "OptBool"}
LEAN_TY = {"Bool": "Bool", "Int": "Int", "Text": "Text", "OptBytes": "Option Bytes", "OptText": "Option Text", "Unit": "Unit"}
EXC = {"UnicodeDecodeError": ".unicodeDecodeError", "UnicodeError": ".unicodeDecodeError", "ValueError": ".unicodeDecodeError",
       "DeviceError": ".deviceError", "device.DeviceError": ".deviceError", "AttributeError": ".attributeError",
       "TypeError": ".typeError", "Exception": ".exception", "BaseException": ".exception"}
MSG_CALLS = {"format", "rstrip", "strip", "str", "repr", "_", "decode_utf8", "traceback.format_exc"}
LEAN_KW = set("""at by do end fun from have if in let match mut open show then else where with calc deriving export extends
for forall exists import instance local macro namespace notation obtain private protected section structure suffices syntax
theorem def example class inductive universe variable using return unless try catch finally nomatch nofun this Type Sort Prop
self read Py PyErr Printcore Device Read Text Bytes Int Bool Option List Except some none true false log_maxlen""".split())


class Unsupported(Exception):
    pass


def fail(node, what):
    raise Unsupported(f"line {getattr(node, 'lineno', '?')}: {what}")


def is_doc(st):
    return isinstance(st, ast.Expr) and isinstance(st.value, ast.Constant) and isinstance(st.value.value, str)


def self_attr(e):
    if isinstance(e, ast.Attribute) and isinstance(e.value, ast.Name) and e.value.id == "self":
        return e.attr
    return None


def walk(node):
    out = []

    def visit(n):
        out.append(n)
        for c in ast.iter_child_nodes(n):
            visit(c)
    visit(node)
    return out


def is_msg(e):
    """a message expression: string building without effects (dropped by the translation)"""
    for n in walk(e):
        if isinstance(n, (ast.Constant, ast.Name, ast.Attribute, ast.BinOp, ast.Tuple, ast.JoinedStr, ast.FormattedValue,
                          ast.Load, ast.Add, ast.Mod)):
            if isinstance(n, (ast.Name, ast.Attribute)) and not isinstance(n.ctx, ast.Load):
                return False
            continue
        if isinstance(n, ast.Call) and not n.keywords:
            f = n.func
            name = f.attr if isinstance(f, ast.Attribute) else (f.id if isinstance(f, ast.Name) else None)
            if ast.unparse(f) in MSG_CALLS or (isinstance(f, ast.Attribute) and name in ("format", "rstrip", "strip")) or \
               (isinstance(f, ast.Name) and name in MSG_CALLS):
                continue
        return False
    return True


class Ctx:
    def __init__(self, name, kind, rtype):
        self.name, self.kind, self.rtype = name, kind, rtype        # kind: "pc" (state threaded) | "dev" (pure)
        self.exc = None             # name of the innermost `except_k`
        self.in_loop = False
        self.k = 0
        self.reads = 0

    @property
    def S(self):
        return "Printcore" if self.kind == "pc" else "Device"

    def RT(self, rtype=None):
        t = f"Except PyErr ({LEAN_TY[rtype or self.rtype]})"
        return f"Printcore × {t}" if self.kind == "pc" else t

    def ok(self, v):
        return f"(self, .ok {v})" if self.kind == "pc" else f".ok {v}"

    def raise_(self):
        if self.exc:
            return f"{self.exc} self e'" if self.kind == "pc" else f"{self.exc} e'"
        return "(self, .error e')" if self.kind == "pc" else ".error e'"

    def arg(self):
        return "self" if self.kind == "pc" else "()"

    def lam(self):
        return "fun self =>" if self.kind == "pc" else "fun _ =>"

    def fty(self):
        return "Printcore" if self.kind == "pc" else "Unit"


class T:
    def __init__(self, repo):
        self.trees = {}
        for src in (SRC_CORE, SRC_DEV):
            p = repo / src
            if not p.exists():
                raise Unsupported(f"{src} not found")
            self.trees[src] = ast.parse(p.read_text())
        self.pc = self.find_class(SRC_CORE, "printcore")
        self.dev = self.find_class(SRC_DEV, "Device")
        self.consts = {}                                  # "PR_EOF" / "device.READ_EOF" -> line, when the value is None
        for src, prefix in ((SRC_CORE, ""), (SRC_DEV, "device.")):
            for n in self.trees[src].body:
                if isinstance(n, ast.Assign) and len(n.targets) == 1 and isinstance(n.targets[0], ast.Name):
                    if isinstance(n.value, ast.Constant) and n.value.value is None:
                        self.consts[prefix + n.targets[0].id] = n.lineno
                    else:
                        self.consts.pop(prefix + n.targets[0].id, None)
        imp = [a.asname or a.name for n in self.trees[SRC_CORE].body if isinstance(n, ast.ImportFrom) and n.level == 1 and n.module is None
               for a in n.names]
        if "device" not in imp:
            raise Unsupported("printcore.py: `from . import device` not found")
        self.log_maxlen = self.check_init()
        self.dev_sigs = {}

    def find_class(self, src, name):
        cls = [n for n in self.trees[src].body if isinstance(n, ast.ClassDef) and n.name == name]
        if len(cls) != 1:
            raise Unsupported(f"{src}: class {name} not found")
        ms = {}
        for n in cls[0].body:
            if isinstance(n, ast.FunctionDef):
                if n.name in ms:
                    fail(n, f"{name}.{n.name} defined twice")
                ms[n.name] = n
        return ms

    def check_init(self):
        init = self.pc.get("__init__")
        if init is None:
            raise Unsupported("printcore.__init__ not found")
        maxlen = handlers = None
        for n in walk(init):
            if isinstance(n, ast.Assign) and len(n.targets) == 1:
                f = self_attr(n.targets[0])
                if f == "log":
                    v = n.value
                    if (maxlen is None and n in init.body and isinstance(v, ast.Call) and ast.unparse(v.func) in ("deque", "collections.deque")
                            and not v.args and len(v.keywords) == 1 and v.keywords[0].arg == "maxlen"
                            and isinstance(v.keywords[0].value, ast.Constant) and type(v.keywords[0].value.value) is int
                            and v.keywords[0].value.value > 0):
                        maxlen = (v.keywords[0].value.value, n.lineno)
                    else:
                        fail(n, "self.log is not initialised once by `deque(maxlen=<positive int>)`")
                if f == "event_handler":
                    if handlers is None and n in init.body and isinstance(n.value, ast.List) and not n.value.elts:
                        handlers = n.lineno
                    else:
                        fail(n, "self.event_handler is not initialised once by `[]`")
        if maxlen is None or handlers is None:
            raise Unsupported("printcore.__init__: `self.log = deque(maxlen=…)` / `self.event_handler = []` not found")
        return maxlen

    # ------------------------------------------------------------------ expressions
    def truth(self, e, env, cx):
        if isinstance(e, ast.BoolOp):
            return "(" + (" && " if isinstance(e.op, ast.And) else " || ").join(self.truth(v, env, cx) for v in e.values) + ")"
        t, ty = self.expr(e, env, cx)
        if ty == "Bool":
            return t
        if ty == "Int":
            return f"(decide ({t} ≠ 0))"
        if ty in ("Text", "Bytes"):
            return f"(!{t}.isEmpty)"
        if ty in ("OptCb", "OptPort", "OptStr"):      # a callable / an object: truthy unless None ('' for a string is not modelled)
            if ty == "OptStr":
                fail(e, "truthiness of a string that may be None")
            return f"(Py.truthyOpt {t})"
        if ty == "OptBool":
            return f"(Py.truthyOptBool {t})"
        if ty == "None":
            return "false"
        fail(e, f"truthiness of {ty}")

    def none_const(self, e):
        s = ast.unparse(e)
        if isinstance(e, ast.Constant) and e.value is None:
            return "None"
        if s in self.consts and isinstance(e, (ast.Name, ast.Attribute)):
            return s
        return None

    def expr(self, e, env, cx):
        """-> (text, type); never raises in Python terms"""
        nc = self.none_const(e)
        if nc is not None and not (isinstance(e, ast.Name) and e.id in env):
            return ("none" if nc == "None" else f"none /- {nc} -/"), "None"
        if isinstance(e, ast.Constant):
            v = e.value
            if isinstance(v, bool):
                return ("true" if v else "false"), "Bool"
            if type(v) is int:
                return f"({v} : Int)", "Int"
            if isinstance(v, str):
                if not (v.isascii() and v.isprintable()) or '"' in v or "\\" in v:
                    fail(e, "string literal")
                return '"' + v + '"', "Str"
            fail(e, f"constant {v!r}")
        if isinstance(e, ast.Name):
            if e.id in env:
                if env[e.id] in ("Msg", "Exc"):
                    fail(e, f"{e.id} (a message text / exception object) used as a value")
                return e.id, env[e.id]
            fail(e, f"unknown name {e.id} (a local assigned inside an if / try / for is not visible after it)")
        f = self_attr(e)
        if f is not None:
            fields = PC_FIELDS if cx.kind == "pc" else DEV_FIELDS
            if f in fields:
                return f"self.{f}", fields[f]
            fail(e, f"attribute self.{f}")
        if isinstance(e, ast.UnaryOp) and isinstance(e.op, ast.Not):
            return f"(!{self.truth(e.operand, env, cx)})", "Bool"
        if isinstance(e, ast.BoolOp):
            parts = [self.expr(v, env, cx) for v in e.values]
            if any(ty != "Bool" for _, ty in parts):
                fail(e, "the value of and / or over non-booleans (only its truth is modelled)")
            return "(" + (" && " if isinstance(e.op, ast.And) else " || ").join(t for t, _ in parts) + ")", "Bool"
        if isinstance(e, ast.Compare) and len(e.ops) == 1:
            a, op, b = e.left, e.ops[0], e.comparators[0]
            ta, tya = self.expr(a, env, cx)
            tb, tyb = self.expr(b, env, cx)
            if isinstance(op, (ast.Is, ast.IsNot)):
                if tyb == "None" and tya.startswith("Opt"):
                    x, note = ta, tb
                elif tya == "None" and tyb.startswith("Opt"):
                    x, note = tb, ta
                else:
                    fail(e, f"`is` between {tya} and {tyb}")
                note = note[4:] if note.startswith("none /-") else ""
                return f"{x}.{'isNone' if isinstance(op, ast.Is) else 'isSome'}{note}", "Bool"
            sym = {ast.Eq: "=", ast.NotEq: "≠", ast.Lt: "<", ast.LtE: "≤", ast.Gt: ">", ast.GtE: "≥"}.get(type(op))
            if sym is None:
                fail(e, f"operator in {ast.unparse(e)}")
            if tya == tyb == "Int":
                return f"(decide ({ta} {sym} {tb}))", "Bool"
            if sym in ("=", "≠") and (tya, tyb) == ("OptStr", "Str"):
                return f"(decide ({ta} {sym} some {tb}))", "Bool"
            if sym in ("=", "≠") and (tya, tyb) == ("Str", "OptStr"):
                return f"(decide ({tb} {sym} some {ta}))", "Bool"
            fail(e, f"comparison of {tya} with {tyb}")
        if isinstance(e, ast.Call) and isinstance(e.func, ast.Name) and e.func.id not in env and len(e.args) == 1 and not e.keywords:
            if e.func.id == "len":
                t, ty = self.expr(e.args[0], env, cx)
                if ty == "Text":
                    return f"(Py.len {t})", "Int"
                fail(e, f"len of {ty}")
            if e.func.id == "bool":
                return self.truth(e.args[0], env, cx), "Bool"
        fail(e, f"expression {ast.unparse(e)[:60]}")

    def raising(self, e, env, cx):
        """a call that may raise -> (text, type, stateful) or None"""
        if cx.kind == "pc" and isinstance(e, ast.Call) and not e.keywords:
            fn = e.func
            if ast.unparse(fn) == "self.printer.readline" and not e.args:
                cx.reads += 1
                if cx.reads > 1 or cx.in_loop:
                    fail(e, "a second self.printer.readline() (the parameter `read` answers one)")
                return "Py.printer_readline self read", "OptBytes", True
            if isinstance(fn, ast.Attribute) and fn.attr == "decode" and isinstance(fn.value, ast.Name):
                ok = (not e.args) or (len(e.args) == 1 and isinstance(e.args[0], ast.Constant)
                                      and str(e.args[0].value).lower().replace("_", "-") in ("utf-8", "utf8", "u8"))
                x, tx = self.expr(fn.value, env, cx)
                if ok and tx == "OptBytes":
                    return f"Py.decode_utf8 {x}", "Text", False
                fail(e, f"decode of {tx} / with these arguments")
            if isinstance(fn, ast.Attribute) and fn.attr == "on_recv" and isinstance(fn.value, ast.Name) and len(e.args) == 1:
                h, th = self.expr(fn.value, env, cx)
                x, tx = self.expr(e.args[0], env, cx)
                if th == "Handler" and tx == "Text":
                    return f"Py.on_recv self {h} {x}", "Unit", True
                fail(e, f"on_recv of {th} with {tx}")
            if self_attr(fn) == "recvcb" and len(e.args) == 1:
                x, tx = self.expr(e.args[0], env, cx)
                if tx == "Text":
                    return f"Py.call_recvcb self {x}", "Unit", True
                fail(e, f"recvcb with {tx}")
        if cx.kind == "dev":
            if isinstance(e, ast.Attribute) and e.attr == "is_open" and self_attr(e.value) == "_device":
                return "Py.is_open self._device", "Bool", False
            # getattr(self, "<prefix>" + self._type)()
            if (isinstance(e, ast.Call) and not e.args and not e.keywords and isinstance(e.func, ast.Call)
                    and isinstance(e.func.func, ast.Name) and e.func.func.id == "getattr" and len(e.func.args) == 2
                    and not e.func.keywords and isinstance(e.func.args[0], ast.Name) and e.func.args[0].id == "self"):
                nm = e.func.args[1]
                if (isinstance(nm, ast.BinOp) and isinstance(nm.op, ast.Add) and isinstance(nm.left, ast.Constant)
                        and isinstance(nm.left.value, str) and self_attr(nm.right) == "_type"):
                    prefix = nm.left.value
                    targets = [m for m in self.dev if m.startswith(prefix)]
                    for m in targets:
                        if m not in self.dev_sigs:
                            fail(e, f"dispatch to Device.{m}, which is not translated (prefix {prefix!r})")
                    arms = "".join(f"if t' = \"{m[len(prefix):]}\" then {m} self else " for m in targets)
                    return (f"(match self._type with | none => .error .typeError | some t' => {arms}.error .attributeError : Except PyErr Bool)"), "Bool", False
                fail(e, "getattr with a name that is not `'<prefix>' + self._type`")
        return None

    # ------------------------------------------------------------------ statements
    def check_scopes(self, m):
        """a local assigned inside an if / try / for may not be read outside it"""
        loads = [n for n in walk(m) if isinstance(n, ast.Name) and isinstance(n.ctx, ast.Load)]
        for c in walk(m):
            if isinstance(c, (ast.If, ast.Try, ast.For)):
                inner = walk(c)
                ids = {id(n) for n in inner}
                stored = {n.id for n in inner if isinstance(n, ast.Name) and isinstance(n.ctx, ast.Store)}
                stored |= {h.name for h in inner if isinstance(h, ast.ExceptHandler) and h.name}
                for n in loads:
                    if n.id in stored and id(n) not in ids:
                        fail(n, f"local {n.id} is assigned inside the {type(c).__name__.lower()} at line {c.lineno} and read outside it")
            if isinstance(c, (ast.NamedExpr, ast.Lambda, ast.FunctionDef, ast.While, ast.With, ast.Global, ast.Nonlocal, ast.Delete,
                              ast.AugAssign, ast.ListComp, ast.GeneratorExp, ast.Yield, ast.Await)) and c is not m:
                fail(c, f"{type(c).__name__} is outside the subset")

    def bind(self, text, ty, stateful, var, cx, pad):
        """lines that evaluate a raising call and continue after `=>`"""
        if stateful:
            return [f"{pad}match {text} with", f"{pad}| (self, .error e') => {cx.raise_()}", f"{pad}| (self, .ok {var}) =>"]
        return [f"{pad}match {text} with", f"{pad}| .error e' => {cx.raise_()}", f"{pad}| .ok {var} =>"]

    def paren(self, lines, ind):
        """wrap a block as one parenthesised term"""
        lines = list(lines)
        lines[-1] += ")"
        return lines

    def with_next(self, rest, env, cx, fall, ind, make):
        """`make(fall2)` renders a compound statement whose normal exits continue with `rest`"""
        pad = " " * ind
        if not rest:
            return make(fall)
        cx.k += 1
        nk = f"next_{cx.k}"
        body = self.block(rest, dict(env), cx, fall, ind + 2)
        head = [f"{pad}let {nk} : {cx.fty()} → {cx.RT()} := {cx.lam()} ("] + self.paren(body, ind)
        return head + make(lambda ind2: [" " * ind2 + f"{nk} {cx.arg()}"])

    def block(self, stmts, env, cx, fall, ind):
        stmts = [s for s in stmts if not is_doc(s) and not isinstance(s, ast.Pass)]
        pad = " " * ind
        if not stmts:
            return fall(ind)
        st, rest = stmts[0], stmts[1:]

        def nxt(env2):
            return self.block(rest, env2, cx, fall, ind)

        if isinstance(st, ast.Return):
            if cx.in_loop:
                fail(st, "return inside the handler loop")
            if rest:
                fail(rest[0], "statement after return")
            return self.ret(st, st.value, env, cx, pad)
        if isinstance(st, ast.If):
            c = self.truth(st.test, env, cx)

            def make(fall2):
                a = self.block(st.body, dict(env), cx, fall2, ind + 2)
                b = self.block(st.orelse, dict(env), cx, fall2, ind + 2)
                return [f"{pad}if {c} then (    -- line {st.lineno}"] + self.paren(a, ind) + [f"{pad}else ("] + self.paren(b, ind)
            return self.with_next(rest, env, cx, fall, ind, make)
        if isinstance(st, ast.Try):
            return self.try_(st, rest, env, cx, fall, ind)
        if isinstance(st, ast.For):
            return self.for_(st, rest, env, cx, fall, ind)
        if isinstance(st, ast.Assign) and len(st.targets) == 1:
            tg = st.targets[0]
            if isinstance(tg, ast.Name):
                if tg.id in LEAN_KW or not tg.id.isascii() or tg.id.startswith(("next_", "except_")):
                    fail(st, f"a local called {tg.id} (reserved in the generated Lean text)")
                r = self.raising(st.value, env, cx)
                env2 = dict(env)
                if r is not None:
                    env2[tg.id] = r[1]
                    return self.bind(r[0], r[1], r[2], tg.id, cx, pad) + nxt(env2)
                try:
                    t, ty = self.expr(st.value, env, cx)
                except Unsupported:
                    if not is_msg(st.value):
                        raise
                    env2[tg.id] = "Msg"
                    return [f"{pad}-- {tg.id} = … (message text, line {st.lineno}; not translated)"] + nxt(env2)
                if ty not in LEAN_TY:
                    fail(st, f"a local of type {ty}")
                env2[tg.id] = ty
                return [f"{pad}let {tg.id} : {LEAN_TY[ty]} := {t}"] + nxt(env2)
            f = self_attr(tg)
            if f is not None and cx.kind == "pc" and PC_FIELDS.get(f) == "Bool":
                t, ty = self.expr(st.value, env, cx)
                if ty != "Bool":
                    fail(st, f"self.{f} assigned a value of type {ty}")
                return [f"{pad}let self : Printcore := {{ self with {f} := {t} }}"] + nxt(env)
            fail(st, f"assignment target {ast.unparse(tg)}")
        if isinstance(st, ast.Expr):
            c = st.value
            r = self.raising(c, env, cx)
            if r is not None:
                return self.bind(r[0], r[1], r[2], "_", cx, pad) + nxt(env)
            if cx.kind == "pc" and isinstance(c, ast.Call) and not c.keywords and len(c.args) == 1:
                fn = ast.unparse(c.func)
                ev = {"self.logError": "logError", "self._logger.error": "logger_error", "self._logger.info": "logger_info"}.get(fn)
                if ev:
                    a = c.args[0]
                    if not is_msg(a):
                        fail(st, "argument of a logging call is not a plain message expression")
                    return [f"{pad}let self : Printcore := Py.{ev} self    -- line {st.lineno}"] + nxt(env)
                if fn == "self.log.append":
                    t, ty = self.expr(c.args[0], env, cx)
                    if ty != "Text":
                        fail(st, f"appending a value of type {ty} to self.log")
                    return [f"{pad}let self : Printcore := {{ self with log := Py.dequeAppend log_maxlen self.log {t} }}"] + nxt(env)
            fail(st, f"call statement {ast.unparse(st)[:60]}")
        fail(st, f"statement {ast.unparse(st)[:60]}")

    def ret(self, st, v, env, cx, pad):
        if v is not None:
            r = self.raising(v, env, cx)
            if r is not None:
                if r[1] != cx.rtype:
                    fail(st, f"return of {r[1]} in a method returning {cx.rtype}")
                return self.bind(r[0], r[1], r[2], "v'", cx, pad) + [pad + cx.ok("v'")]
        t, ty = ("none", "None") if v is None else self.expr(v, env, cx)
        if cx.rtype == "OptText" and ty == "Text":
            t = f"(some {t})"
        elif cx.rtype == "OptText" and ty == "None":
            t = f"({t})"
        elif ty != cx.rtype:
            fail(st, f"return of {ty} in a method returning {cx.rtype}")
        return [pad + cx.ok(t)]

    def try_(self, st, rest, env, cx, fall, ind):
        pad = " " * ind
        if st.orelse or st.finalbody or not st.handlers:
            fail(st, "try with else / finally / without handlers")

        def make(fall2):
            cx.k += 1
            name = f"except_{cx.k}"
            outer = cx.exc
            lines = [f"{pad}-- try (line {st.lineno})",
                     f"{pad}let {name} : {'Printcore → ' if cx.kind == 'pc' else ''}PyErr → {cx.RT()} := fun {'self ' if cx.kind == 'pc' else ''}e' => ("]
            for i, h in enumerate(st.handlers):
                if h.type is None:
                    classes, label = [".exception"], "except:"
                else:
                    ts = h.type.elts if isinstance(h.type, ast.Tuple) else [h.type]
                    classes = []
                    for t in ts:
                        c = EXC.get(ast.unparse(t))
                        if c is None:
                            fail(h, f"exception class {ast.unparse(t)}")
                        classes.append(c)
                    label = f"except {ast.unparse(h.type)}"
                if i < len(st.handlers) - 1 and ".exception" in classes:
                    fail(h, "a catch-all handler before another handler")
                env2 = dict(env)
                if h.name:
                    env2[h.name] = "Exc"
                body = self.block(h.body, env2, cx, fall2, ind + 4)      # cx.exc is still the outer handler here
                lines += [f"{pad}  {'else ' if i else ''}if PyErr.isinstance e' [{', '.join(classes)}] then (    -- {label} (line {h.lineno})"] + self.paren(body, ind)
            lines += [f"{pad}  else {cx.raise_()})"]
            cx.exc = name
            body = self.block(st.body, dict(env), cx, fall2, ind)
            cx.exc = outer
            return lines + body
        return self.with_next(rest, env, cx, fall, ind, make)

    def for_(self, st, rest, env, cx, fall, ind):
        pad = " " * ind
        if (cx.kind != "pc" or cx.in_loop or st.orelse or self_attr(st.iter) != "event_handler" or not isinstance(st.target, ast.Name)):
            fail(st, "only `for <name> in self.event_handler:` is translated")
        h = st.target.id
        if h in LEAN_KW or h in env:
            fail(st, f"loop variable {h}")
        for n in walk(st):
            if isinstance(n, (ast.Break, ast.Continue, ast.Return)) or (isinstance(n, ast.For) and n is not st):
                fail(n, f"{type(n).__name__} inside the handler loop")
        outer, rty = cx.exc, cx.rtype
        cx.exc, cx.rtype, cx.in_loop = None, "Unit", True
        body = self.block(st.body, dict(env, **{h: "Handler"}), cx, lambda ind2: [" " * ind2 + "(self, .ok ())"], ind + 2)
        cx.exc, cx.rtype, cx.in_loop = outer, rty, False
        lines = [f"{pad}match Py.forEach self.event_handler self (fun self {h} => (    -- for (line {st.lineno})"] + self.paren(self.paren(body, ind), ind)
        lines[-1] += " with"
        lines += [f"{pad}| (self, .error e') => {cx.raise_()}", f"{pad}| (self, .ok _) =>"]
        return lines + self.block(rest, env, cx, fall, ind)

    # ------------------------------------------------------------------ methods
    def method(self, table, cls, name, kind, rtype, prop, src):
        m = table.get(name)
        if m is None:
            raise Unsupported(f"{cls}.{name} not found")
        a = m.args
        if [x.arg for x in a.args] != ["self"] or a.vararg or a.kwarg or a.kwonlyargs or a.posonlyargs:
            fail(m, f"signature of {name}")
        decos = [ast.unparse(d) for d in m.decorator_list]
        if decos != (["property"] if prop else []):
            fail(m, f"decorators of {name}: {decos}")
        self.check_scopes(m)
        cx = Ctx(name, kind, rtype)
        none = "(none)" if rtype == "OptText" else None

        def fall(ind):
            if none is None:
                fail(m, f"{name} can fall off its end (returns None, not a {rtype})")
            return [" " * ind + cx.ok(none)]
        lines = self.block(m.body, {}, cx, fall, 2)
        params = "(self : Printcore) (read : Read)" if kind == "pc" else "(self : Device)"
        head = [f"/-- `{cls}.{name}` ({src} line {m.lineno}) -/", f"def {name} {params} : {cx.RT()} :="]
        return "\n".join(head + lines) + "\n"

    def render(self):
        out = [f"/- GENERATED by tools/gen_recv.py from {SRC_CORE}, {SRC_DEV} (source text, by AST). Do not edit. -/",
               "import GscribModel.Model.RecvPrelude", "namespace GscribModel.Gen.RecvSrc", "open GscribModel.RecvPy",
               "set_option linter.unusedVariables false", "",
               f"/-- `self.log = deque(maxlen={self.log_maxlen[0]})` ({SRC_CORE} line {self.log_maxlen[1]}) -/",
               f"def log_maxlen : Nat := {self.log_maxlen[0]}", ""]
        out.append(self.method(self.pc, "printcore", "_readline", "pc", "OptText", False, SRC_CORE))
        helpers = sorted((m for m in self.dev if m.startswith("_is_connected_")), key=lambda m: self.dev[m].lineno)
        for m in helpers:
            out.append(self.method(self.dev, "Device", m, "dev", "Bool", False, SRC_DEV))
            self.dev_sigs[m] = "Bool"
        out.append(self.method(self.dev, "Device", "is_connected", "dev", "Bool", True, SRC_DEV))
        out.append(self.method(self.dev, "Device", "has_flow_control", "dev", "Bool", True, SRC_DEV))
        out.append("end GscribModel.Gen.RecvSrc")
        return "\n".join(out) + "\n"


def main():
    args = [a for a in sys.argv[1:] if not a.startswith("--")]
    if "--out" in sys.argv:
        o = sys.argv[sys.argv.index("--out") + 1]
        args = [a for a in args if a != o]
    repo = Path(args[0] if args else os.environ.get("GSCRIB_REPO", "/repo"))
    try:
        text = T(repo).render()
    except Unsupported as e:
        print("gen_recv: the source is outside the translated subset:", e, file=sys.stderr)
        raise SystemExit(3)
    except SyntaxError as e:
        print("gen_recv: the source does not parse:", e, file=sys.stderr)
        raise SystemExit(3)
    if "--stdout" in sys.argv:
        sys.stdout.write(text)
        return
    out = Path(sys.argv[sys.argv.index("--out") + 1]) if "--out" in sys.argv else OUT
    out.parent.mkdir(parents=True, exist_ok=True)
    if not out.exists() or out.read_text() != text:
        out.write_text(text)
        print("gen_recv: rewrote", out)


if __name__ == "__main__":
    main()

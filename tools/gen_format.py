#!/usr/bin/env python3
"""Translator: gscrib/formatters/default_formatter.py (class DefaultFormatter)  ->  GscribModel/Gen/FormatSrc.lean

Reads the *source text* (by AST; nothing is imported or executed) of the formatter every emitted byte goes through
(properties C08, C09) and writes each method as a Lean function over a structure with one field per `__slots__` entry,
statement by statement and in source order.  `Props/FormatTie.lean` proves the hand-written model
(`Model/Format.lean`) equal to these functions for all arguments, so a reordered sanitising step, an edited regex, a
changed comment-symbol pair, a dropped guard ... changes the generated text and breaks a tie theorem on the next run.

A method becomes `DefaultFormatter.m (self) (args) : T` when nothing in it can raise, otherwise `... : Except PyErr T`
(`T` = `DefaultFormatter` for a method without `return <value>`: the object as the method left it).  Every partial
operation is an explicit error (`d[k]` -> KeyError, `t.index(x)` -> ValueError, `t[i]` -> IndexError, using an
`Optional` / untyped parameter value where a `str` / `dict` / `Number` is needed -> typeError, a regex / numpy flag set
the prelude does not know -> unmodelled); the tie theorems prove that only the source's own `raise` is ever reached.

The subset understood (anything else makes the translator refuse, exit 3 - it never guesses):
  module      `NAME = <str | int | tuple of str>`; imports are ignored
  class       docstring, `__slots__`, methods (each method with parameters must be `@typechecked`: the parameter types
              are what typeguard enforces); parameter annotations `str`, `int`, `Number`, `dict`, `dict | None`,
              `str | None`, `Axis | str`
  statements  docstring; `name = e`; `self._f = e`; `self._f[k] = e`; `a, b, c = s.partition("lit")`; `self.m(args)`;
              `name.append(e)`; `if c: ...` (no `else`; the body either ends in `return`/`raise` or falls through and
              only assigns variables that already exist); `if c: ... else: ...` with both branches ending in
              `return`/`raise`; `for x in <list | dict | generator with filters>: ...` (no break / continue / return);
              `return e`; `raise ValueError(...)` (message dropped)
  expressions str / int / bool / None literals; names; `self._f`; `os.linesep`; f-strings without format specs;
              `A if C else B`; `and` `or` `not` (short circuit kept); `==` `!=` on strings, `number == <int>`, `<` `<=`
              `>` `>=` on ints; `is None` / `is not None`; `in` / `not in` on a tuple/list/dict; `d[k]`; `t[i]`;
              `l[n:]`; `[e for a in xs]`; `{k: v for a in xs}`; `{k: v for k, v in d.items()}`; `[]`;
              `s.strip() / rstrip() / upper() / lower()`; `s.replace(a, b)`; `sep.join(l)`; `t.index(x)`;
              `len(x)`; `str(x)`; `float(x)`; `isinstance(x, Number | dict)`; `np.isfinite(x)`;
              `np.format_float_positional(x, precision=, unique=, fractional=, sign=, trim=)` (exactly these keywords);
              `re.sub("lit", "lit", s[, count=n])` (pattern / replacement / count are emitted as a constant);
              `bytes(s, "utf-8")`; `b.decode("unicode-escape")`; `Enum(s)`, `m.value`, iteration over an enum class;
              `self.m(args)`
Types: `str` -> `Str` (`List Char`), `int` -> `Int`, `Number` -> `Val`, `dict` -> `Dict PVal` (string keys), enum
classes of `gscrib/enums/**` -> generated inductive types.  The primitives are `Model/FormatPrelude.lean`.

usage: gen_format.py [repo_root] [--out FILE | --stdout]
"""
import ast
import os
import sys
from pathlib import Path

V = Path(__file__).resolve().parent.parent
OUT = V / "lean" / "GscribModel" / "Gen" / "FormatSrc.lean"
SOURCE = "gscrib/formatters/default_formatter.py"
CLASS = "DefaultFormatter"

LEAN_T = {"Str": "Str", "Bool": "Bool", "Int": "Int", "Nat": "Nat", "Val": "Val", "PVal": "PVal", "Params": "Dict PVal",
          "DictStr": "Dict Str", "ListStr": "List Str", "OptStr": "Option Str", "OptParams": "Option (Dict PVal)",
          "Self": CLASS, "Bytes": "List UInt8"}
UNSET = {"Str": "[]", "Int": "0", "ListStr": "[]", "DictStr": "[]", "Params": "[]"}
ANNOT = {"str": "Str", "int": "Int", "Number": "Val", "dict": "Params", "dict | None": "OptParams",
         "str | None": "OptStr", "Axis | str": "Str"}
ERRORS = {"ValueError": "valueError"}
FFP_KW = {"precision": "Int", "unique": "Bool", "fractional": "Bool", "sign": "Bool", "trim": "Str"}


class Unsupported(Exception):
    pass


class NeedField(Exception):
    pass


def fail(node, what):
    raise Unsupported(f"line {getattr(node, 'lineno', '?')}: " + " ".join(str(what).split()))


def lt(ty):
    if ty.startswith("Enum:"):
        return ty[5:]
    if ty.startswith("ListEnum:"):
        return f"List {ty[9:]}"
    return LEAN_T[ty]


def paren(t):
    return f"({t})" if " " in t else t


def ch(c):
    if c == "'":
        return "'\\''"
    if c == "\\":
        return "'\\\\'"
    if c == "\n":
        return "'\\n'"
    if c == "\r":
        return "'\\r'"
    if c == "\t":
        return "'\\t'"
    if 32 <= ord(c) <= 126:
        return f"'{c}'"
    return f"Char.ofNat {ord(c)}"


def strlit(s):
    return "([" + ", ".join(ch(c) for c in s) + "] : Str)"


def is_doc(st):
    return isinstance(st, ast.Expr) and isinstance(st.value, ast.Constant) and isinstance(st.value.value, str)


def read_enums(repo):
    enums = {}
    for f in sorted((repo / "gscrib" / "enums").rglob("*.py")):
        for node in ast.parse(f.read_text()).body:
            if isinstance(node, ast.ClassDef) and any(getattr(b, "id", None) == "BaseEnum" for b in node.bases):
                members = []
                for st in node.body:
                    if is_doc(st):
                        continue
                    if isinstance(st, ast.Assign) and len(st.targets) == 1 and isinstance(st.targets[0], ast.Name) \
                            and isinstance(st.value, ast.Constant) and isinstance(st.value.value, str):
                        members.append((st.targets[0].id, st.value.value))
                    else:
                        members = None
                        break
                if members:
                    enums[node.name] = members
    return enums


class MInfo:
    def __init__(self, node):
        self.node = node
        self.name = node.name
        self.params = []          # (name, type)
        self.ret = None
        self.fallible = None
        self.reads = set()
        self.text = None


class T:
    def __init__(self, repo):
        self.enums = read_enums(repo)
        self.used_enums = []
        tree = ast.parse((repo / SOURCE).read_text())
        self.consts = {}          # module constants: name -> (type, text)
        self.const_order = []
        cls = None
        for node in tree.body:
            if isinstance(node, (ast.Import, ast.ImportFrom)) or is_doc(node):
                continue
            if isinstance(node, ast.ClassDef):
                if node.name != CLASS or cls is not None:
                    fail(node, f"unexpected class {node.name}")
                cls = node
                continue
            if isinstance(node, ast.Assign) and len(node.targets) == 1 and isinstance(node.targets[0], ast.Name):
                self.module_const(node)
                continue
            fail(node, f"module statement {ast.unparse(node)[:50]}")
        if cls is None:
            raise Unsupported(f"class {CLASS} not found")
        self.slots = None
        self.methods = {}
        for st in cls.body:
            if is_doc(st):
                continue
            if isinstance(st, ast.Assign) and len(st.targets) == 1 and isinstance(st.targets[0], ast.Name) \
                    and st.targets[0].id == "__slots__" and isinstance(st.value, ast.Tuple) \
                    and all(isinstance(e, ast.Constant) and isinstance(e.value, str) for e in st.value.elts):
                self.slots = [e.value for e in st.value.elts]
                continue
            if isinstance(st, ast.FunctionDef):
                if st.name in self.methods:
                    fail(st, f"method {st.name} defined twice")
                self.methods[st.name] = MInfo(st)
                continue
            fail(st, f"class statement {ast.unparse(st)[:50]}")
        if not self.slots:
            raise Unsupported("__slots__ not found")
        self.ftype = {}
        self.extra_defs = []
        for m in self.methods.values():
            self.signature(m)

    # ------------------------------------------------------------------ module level
    def module_const(self, node):
        name, v = node.targets[0].id, node.value
        if isinstance(v, ast.Constant) and isinstance(v.value, str):
            self.consts[name] = ("Str", strlit(v.value))
        elif isinstance(v, ast.Constant) and isinstance(v.value, int) and not isinstance(v.value, bool):
            self.consts[name] = ("Int", str(v.value) if v.value >= 0 else f"({v.value})")
        elif isinstance(v, ast.Tuple) and v.elts and all(isinstance(e, ast.Constant) and isinstance(e.value, str) for e in v.elts):
            self.consts[name] = ("ListStr", "[" + ", ".join(strlit(e.value) for e in v.elts) + "]")
        else:
            fail(node, f"module constant {name} = {ast.unparse(v)[:40]}")
        self.const_order.append((name, node.lineno))

    def signature(self, m):
        node = m.node
        a = node.args
        if a.vararg or a.kwarg or a.kwonlyargs or a.posonlyargs or not a.args or a.args[0].arg != "self":
            fail(node, f"signature of {m.name}")
        defaults = [None] * (len(a.args) - len(a.defaults)) + list(a.defaults)
        for arg, d in list(zip(a.args, defaults))[1:]:
            ann = ast.unparse(arg.annotation) if arg.annotation else ""
            if ann not in ANNOT:
                fail(node, f"parameter {arg.arg}: annotation {ann!r}")
            if d is not None and not (isinstance(d, ast.Constant) and d.value is None and ANNOT[ann].startswith("Opt")):
                fail(node, f"default of {arg.arg}")
            m.params.append((arg.arg, ANNOT[ann]))
        decos = [ast.unparse(d) for d in node.decorator_list]
        if m.params and decos != ["typechecked"]:
            fail(node, f"{m.name} must be decorated with @typechecked only (the parameter types are what typeguard enforces), found {decos}")
        if not m.params and decos not in ([], ["typechecked"]):
            fail(node, f"decorators of {m.name}: {decos}")
        has_value_return = any(isinstance(n, ast.Return) and n.value is not None for n in ast.walk(node))
        ret = ast.unparse(node.returns) if node.returns else None
        if has_value_return:
            if ret != "str":
                fail(node, f"{m.name} returns a value but is annotated {ret!r}")
            m.ret = "Str"
        else:
            if ret not in (None, "None"):
                fail(node, f"{m.name} has no return value but is annotated {ret!r}")
            m.ret = "Self"

    # ------------------------------------------------------------------ per-method state
    def begin(self, m, fallible):
        self.m = m
        self.fallible = fallible
        self.falls = 0            # number of fallible constructs met
        self.pre = []
        self.tmp = 0
        self.alias = {}
        self.reads = set()
        self.resub = 0
        self.pending_defs = []
        self.init_assigned = set() if m.name == "__init__" else None

    def fresh(self):
        self.tmp += 1
        return f"t{self.tmp}"

    def fall(self, exc, ty):
        self.falls += 1
        t = self.fresh()
        self.pre.append((t, f"({exc} : Except PyErr {paren(lt(ty))})"))
        return t, ty

    def sub(self, e, env):
        saved, self.pre = self.pre, []
        t, ty = self.ex(e, env)
        pre, self.pre = self.pre, saved
        return pre, t, ty

    @staticmethod
    def wrap(pre, inner):
        for t, exc in reversed(pre):
            inner = f"(match {exc} with | .error e => .error e | .ok {t} => {inner})"
        return inner

    def coerce(self, node, t, ty, want):
        if ty == want:
            return t
        if ty == "Opt" + want:
            return self.fall(f"optGet {t}", want)[0]
        if ty == "PVal" and want == "Val":
            return self.fall(f"PVal.toNumber {t}", want)[0]
        if ty == "Nat" and want == "Int":
            return f"(Int.ofNat {t})"
        fail(node, f"a value of type {ty} is used where {want} is needed")

    def truthy(self, node, t, ty):
        if ty == "Bool":
            return t
        if ty == "Str":
            return f"(!(List.isEmpty {t}))"
        fail(node, f"truth value of a {ty}")

    def field(self, node, name, write_ty=None):
        if name not in self.slots:
            fail(node, f"self.{name} is not in __slots__")
        if write_ty is not None:
            if self.ftype.setdefault(name, write_ty) != write_ty:
                fail(node, f"self.{name} is assigned a {write_ty}, it was a {self.ftype[name]}")
            if self.init_assigned is not None:
                self.init_assigned.add(name)
            return write_ty
        if name not in self.ftype:
            raise NeedField(name)
        if self.init_assigned is not None and name not in self.init_assigned:
            fail(node, f"__init__ reads self.{name} before assigning it")
        self.reads.add(name)
        return self.ftype[name]

    # ------------------------------------------------------------------ expressions
    def ex(self, e, env):
        if isinstance(e, ast.Constant):
            v = e.value
            if v is None:
                return "none", "None"
            if isinstance(v, bool):
                return ("true" if v else "false"), "Bool"
            if isinstance(v, int):
                return (str(v) if v >= 0 else f"({v})"), "Int"
            if isinstance(v, str):
                return strlit(v), "Str"
            fail(e, f"constant {v!r}")
        if isinstance(e, ast.Name):
            if e.id in env:
                return self.alias.get(e.id, e.id), env[e.id]
            if e.id in self.consts:
                return e.id, self.consts[e.id][0]
            fail(e, f"unknown name {e.id}")
        if isinstance(e, ast.Attribute):
            if isinstance(e.value, ast.Name) and e.value.id == "self" and "self" in env:
                ty = self.field(e, e.attr)
                return f"self.{e.attr}", ty
            if ast.unparse(e) == "os.linesep":
                return "osLinesep", "Str"
            if e.attr == "value":
                t, ty = self.ex(e.value, env)
                if ty.startswith("Enum:"):
                    return f"({ty[5:]}.value {t})", "Str"
            fail(e, f"attribute {ast.unparse(e)}")
        if isinstance(e, ast.JoinedStr):
            parts = []
            for p in e.values:
                if isinstance(p, ast.Constant) and isinstance(p.value, str):
                    parts.append(strlit(p.value))
                elif isinstance(p, ast.FormattedValue) and p.conversion == -1 and p.format_spec is None:
                    t, ty = self.ex(p.value, env)
                    parts.append(self.coerce(p, t, ty, "Str"))
                else:
                    fail(e, "f-string part with a conversion or a format spec")
            return ("(" + " ++ ".join(parts) + ")") if parts else strlit(""), "Str"
        if isinstance(e, ast.IfExp):
            c, cty = self.ex(e.test, env)
            c = self.truthy(e, c, cty)
            pa, a, aty = self.sub(e.body, env)
            pb, b, bty = self.sub(e.orelse, env)
            if aty != bty:
                fail(e, f"conditional expression of types {aty} / {bty}")
            if not pa and not pb:
                return f"(if {c} then {a} else {b})", aty
            return self.fall(f"(if {c} then {self.wrap(pa, f'.ok {a}')} else {self.wrap(pb, f'.ok {b}')})", aty)
        if isinstance(e, ast.UnaryOp) and isinstance(e.op, ast.Not):
            t, ty = self.ex(e.operand, env)
            return f"(!{self.truthy(e, t, ty)})", "Bool"
        if isinstance(e, ast.BoolOp):
            return self.boolop(e, e.values, env)
        if isinstance(e, ast.Compare):
            return self.compare(e, env)
        if isinstance(e, ast.Subscript):
            return self.subscript(e, env)
        if isinstance(e, ast.List) and not e.elts:
            return "([] : List Str)", "ListStr"
        if isinstance(e, ast.ListComp):
            var, it, ity = self.comp_iter(e, env)
            inner = dict(env, **{var: ity})
            pre, t, ty = self.sub(e.elt, inner)
            if pre or ty != "Str":
                fail(e, "list comprehension element must be a total string expression")
            return f"(List.map (fun ({var} : {lt(ity)}) => {t}) {it})", "ListStr"
        if isinstance(e, ast.DictComp):
            return self.dictcomp(e, env)
        if isinstance(e, ast.Call):
            return self.call(e, env)
        fail(e, f"expression {ast.unparse(e)[:60]}")

    def boolop(self, node, values, env):
        op = " && " if isinstance(node.op, ast.And) else " || "
        t, ty = self.ex(values[0], env)
        t = self.truthy(node, t, ty)
        if len(values) == 1:
            return t, "Bool"
        saved, self.pre = self.pre, []
        r, _ = self.boolop(node, values[1:], env)
        pre, self.pre = self.pre, saved
        if not pre:
            return f"({t}{op}{r})", "Bool"
        if isinstance(node.op, ast.And):
            return self.fall(f"(if {t} then {self.wrap(pre, f'.ok {r}')} else .ok false)", "Bool")
        return self.fall(f"(if {t} then .ok true else {self.wrap(pre, f'.ok {r}')})", "Bool")

    def compare(self, e, env):
        if len(e.ops) != 1:
            fail(e, "chained comparison")
        op, a, b = e.ops[0], e.left, e.comparators[0]
        if isinstance(op, (ast.Is, ast.IsNot)):
            if not (isinstance(b, ast.Constant) and b.value is None):
                fail(e, "`is` against something other than None")
            t, ty = self.ex(a, env)
            if not ty.startswith("Opt"):
                fail(e, f"`is None` on a {ty}")
            return f"(Option.{'isNone' if isinstance(op, ast.Is) else 'isSome'} {t})", "Bool"
        ta, tya = self.ex(a, env)
        tb, tyb = self.ex(b, env)
        if isinstance(op, (ast.In, ast.NotIn)):
            neg = isinstance(op, ast.NotIn)
            if tya == "Str" and tyb == "ListStr":
                return (f"(decide ({ta} ∉ {tb}))" if neg else f"(decide ({ta} ∈ {tb}))"), "Bool"
            if tya == "Str" and tyb in ("Params", "DictStr"):
                return (f"(!(dHas {tb} {ta}))" if neg else f"(dHas {tb} {ta})"), "Bool"
            fail(e, f"`in` between {tya} and {tyb}")
        if isinstance(op, (ast.Eq, ast.NotEq)):
            neg = isinstance(op, ast.NotEq)
            if tya == "Str" and tyb == "Str":
                return (f"(decide ({ta} ≠ {tb}))" if neg else f"(decide ({ta} = {tb}))"), "Bool"
            if tya == "Val" and tyb == "Int" and isinstance(b, ast.Constant):
                return (f"(!(Val.eqInt {ta} {tb}))" if neg else f"(Val.eqInt {ta} {tb})"), "Bool"
            fail(e, f"== between {tya} and {tyb}")
        sym = {ast.Lt: "<", ast.LtE: "≤", ast.Gt: ">", ast.GtE: "≥"}.get(type(op))
        if sym and tya == "Int" and tyb == "Int":
            return f"(decide ({ta} {sym} {tb}))", "Bool"
        fail(e, f"comparison {ast.unparse(e)}")

    def subscript(self, e, env):
        t, ty = self.ex(e.value, env)
        s = e.slice
        if isinstance(s, ast.Slice):
            if s.upper is not None or s.step is not None or not (isinstance(s.lower, ast.Constant) and isinstance(s.lower.value, int)
                                                               and not isinstance(s.lower.value, bool) and s.lower.value >= 0):
                fail(e, "only slices l[n:] with a literal n >= 0")
            if ty != "ListStr":
                fail(e, f"slice of a {ty}")
            return f"(List.drop {s.lower.value} {t})", "ListStr"
        k, kty = self.ex(s, env)
        if ty in ("Params", "DictStr") and kty == "Str":
            return self.fall(f"dGet {t} {k}", "PVal" if ty == "Params" else "Str")
        if ty == "ListStr" and kty == "Nat":
            return self.fall(f"listGet {t} {k}", "Str")
        fail(e, f"subscript {ty}[{kty}]")

    def comp_iter(self, e, env):
        """one `for NAME in ITER` clause (with filters) of a comprehension / generator -> (var, iterable text, element type)"""
        if len(e.generators) != 1:
            fail(e, "nested comprehension")
        g = e.generators[0]
        if g.is_async or not isinstance(g.target, ast.Name):
            fail(e, "comprehension target")
        it, ity = self.iterable(g.iter, env)
        var = g.target.id
        inner = dict(env, **{var: ity})
        for c in g.ifs:
            pre, t, ty = self.sub(c, inner)
            if pre:
                fail(c, "a filter that can raise")
            it = f"(List.filter (fun ({var} : {lt(ity)}) => {self.truthy(c, t, ty)}) {it})"
        return var, it, ity

    def iterable(self, e, env):
        if isinstance(e, ast.Name) and e.id in self.enums and e.id not in env:
            self.use_enum(e.id)
            return f"{e.id}.all", f"Enum:{e.id}"
        if isinstance(e, ast.GeneratorExp):
            var, it, ity = self.comp_iter(e, env)
            if not (isinstance(e.elt, ast.Name) and e.elt.id == var):
                fail(e, "generator element must be the loop variable")
            return it, ity
        t, ty = self.ex(e, env)
        if ty == "ListStr":
            return t, "Str"
        if ty in ("Params", "DictStr"):
            return f"(dKeys {t})", "Str"
        fail(e, f"iteration over a {ty}")

    def dictcomp(self, e, env):
        if len(e.generators) != 1:
            fail(e, "nested comprehension")
        g = e.generators[0]
        if g.ifs or g.is_async:
            fail(e, "dict comprehension with a filter")
        if isinstance(g.target, ast.Tuple):
            # `for k, v in d.items()`
            if not (len(g.target.elts) == 2 and all(isinstance(x, ast.Name) for x in g.target.elts)
                    and isinstance(g.iter, ast.Call) and isinstance(g.iter.func, ast.Attribute) and g.iter.func.attr == "items"
                    and not g.iter.args and not g.iter.keywords):
                fail(e, "dict comprehension source")
            d, dty = self.ex(g.iter.func.value, env)
            if dty not in ("Params", "DictStr"):
                fail(e, f".items() of a {dty}")
            vty = "PVal" if dty == "Params" else "Str"
            kn, vn = g.target.elts[0].id, g.target.elts[1].id
            inner = dict(env, **{kn: "Str", vn: vty})
            saved = dict(self.alias)
            self.alias[kn], self.alias[vn] = "kv.1", "kv.2"
            pk, k, kty = self.sub(e.key, inner)
            pv, v, vty2 = self.sub(e.value, inner)
            self.alias = saved
            elem = f"(kv : Str × {lt(vty)})"
            it = d
        else:
            if not isinstance(g.target, ast.Name):
                fail(e, "dict comprehension target")
            it, ity = self.iterable(g.iter, env)
            var = g.target.id
            inner = dict(env, **{var: ity})
            pk, k, kty = self.sub(e.key, inner)
            pv, v, vty2 = self.sub(e.value, inner)
            elem = f"({var} : {lt(ity)})"
        if pk or pv or kty != "Str" or vty2 not in ("Str", "PVal"):
            fail(e, "dict comprehension key/value must be total, key a string")
        res = "Params" if vty2 == "PVal" else "DictStr"
        return f"(List.foldl (fun (d : {lt(res)}) {elem} => dSet d {k} {v}) [] {it})", res

    def use_enum(self, name):
        if name not in self.used_enums:
            self.used_enums.append(name)

    def call(self, e, env):
        fn = e.func
        src = ast.unparse(fn)
        nargs, kws = len(e.args), {k.arg: k.value for k in e.keywords}
        if any(k.arg is None for k in e.keywords) or any(isinstance(a, ast.Starred) for a in e.args):
            fail(e, "* / ** arguments")

        def arg(i, want):
            t, ty = self.ex(e.args[i], env)
            return self.coerce(e.args[i], t, ty, want)

        def plain(n):
            if nargs != n or kws:
                fail(e, f"{src} expects {n} positional argument(s)")

        # ---- self.m(...)
        if isinstance(fn, ast.Attribute) and isinstance(fn.value, ast.Name) and fn.value.id == "self" and "self" in env:
            return self.self_call(e, env)
        # ---- builtins / library
        if src == "len":
            plain(1)
            t, ty = self.ex(e.args[0], env)
            if ty.startswith("Opt"):
                t, ty = self.coerce(e.args[0], t, ty, ty[3:]), ty[3:]
            if ty not in ("Str", "ListStr", "Params", "DictStr"):
                fail(e, f"len of a {ty}")
            return f"(Int.ofNat (List.length {t}))", "Int"
        if src == "str":
            plain(1)
            t, ty = self.ex(e.args[0], env)
            if ty == "Str":
                return t, "Str"
            if ty == "PVal":
                return self.fall(f"PVal.str {t}", "Str")
            fail(e, f"str of a {ty}")
        if src == "float":
            plain(1)
            return f"(pyFloat {arg(0, 'Val')})", "Val"
        if src == "np.isfinite":
            plain(1)
            return f"(npIsFinite {arg(0, 'Val')})", "Bool"
        if src == "isinstance":
            plain(2)
            t, ty = self.ex(e.args[0], env)
            cls = ast.unparse(e.args[1])
            if cls == "Number" and ty == "PVal":
                return f"(PVal.isNumber {t})", "Bool"
            if cls == "dict" and ty == "OptParams":
                return f"(Option.isSome {t})", "Bool"
            if (cls, ty) in (("Number", "Val"), ("dict", "Params")):
                return "true", "Bool"
            fail(e, f"isinstance({ty}, {cls})")
        if src == "bytes":
            plain(2)
            if not (isinstance(e.args[1], ast.Constant) and e.args[1].value in ("utf-8", "utf8")):
                fail(e, "bytes(...) with an encoding other than utf-8")
            return f"(bytesUtf8 {arg(0, 'Str')})", "Bytes"
        if src == "np.format_float_positional":
            if nargs != 1 or set(kws) != set(FFP_KW):
                fail(e, f"np.format_float_positional must be called with one value and exactly the keywords {sorted(FFP_KW)}")
            x = arg(0, "Val")
            fields = []
            for k, want in FFP_KW.items():
                t, ty = self.ex(kws[k], env)
                fields.append(f"{k} := {self.coerce(kws[k], t, ty, want)}")
            return self.fall(f"formatFloatPositional {x} {{ " + ", ".join(fields) + " }", "Str")
        if src == "re.sub":
            if nargs not in (3, 4) or set(kws) - {"count"} or (nargs == 4 and kws):
                fail(e, "re.sub(pattern, repl, text[, count]) only")
            p, r = e.args[0], e.args[1]
            if not all(isinstance(x, ast.Constant) and isinstance(x.value, str) for x in (p, r)):
                fail(e, "re.sub pattern and replacement must be string literals")
            c = e.args[3] if nargs == 4 else kws.get("count")
            if c is not None and not (isinstance(c, ast.Constant) and isinstance(c.value, int) and not isinstance(c.value, bool) and c.value >= 0):
                fail(e, "re.sub count must be a literal integer >= 0")
            self.resub += 1
            name = f"{self.m.name}_re_sub_{self.resub}"
            self.pending_defs.append(
                f"/-- `{ast.unparse(e)[:80]}` (source line {e.lineno}): pattern, replacement, count -/\n"
                f"def {name} : ReSub := ⟨{strlit(p.value)}, {strlit(r.value)}, {c.value if c is not None else 0}⟩\n")
            return self.fall(f"reSub {name} {arg(2, 'Str')}", "Str")
        if isinstance(fn, ast.Name) and fn.id in self.enums and fn.id not in env:
            plain(1)
            self.use_enum(fn.id)
            return self.fall(f"{fn.id}.ofValue {arg(0, 'Str')}", f"Enum:{fn.id}")
        # ---- methods of values
        if isinstance(fn, ast.Attribute):
            recv, rty = self.ex(fn.value, env)
            a = fn.attr
            if rty == "OptStr":
                recv, rty = self.coerce(fn.value, recv, rty, "Str"), "Str"
            if rty == "Str" and a in ("strip", "rstrip", "upper", "lower"):
                plain(0)
                return f"({a} {recv})", "Str"
            if rty == "Str" and a == "replace":
                plain(2)
                return self.fall(f"strReplace {recv} {arg(0, 'Str')} {arg(1, 'Str')}", "Str")
            if rty == "Str" and a == "join":
                plain(1)
                return f"(strJoin {recv} {arg(0, 'ListStr')})", "Str"
            if rty == "ListStr" and a == "index":
                plain(1)
                return self.fall(f"listIndex {recv} {arg(0, 'Str')}", "Nat")
            if rty == "Bytes" and a == "decode":
                plain(1)
                if not (isinstance(e.args[0], ast.Constant) and e.args[0].value in ("unicode-escape", "unicode_escape")):
                    fail(e, "decode(...) with a codec other than unicode-escape")
                return f"(decodeUnicodeEscape {recv})", "Str"
            fail(e, f"method {a} of a {rty}")
        fail(e, f"call {ast.unparse(e)[:60]}")

    def self_call(self, e, env):
        name = e.func.attr
        callee = self.methods.get(name)
        if callee is None:
            fail(e, f"unknown method self.{name}")
        if callee.text is None:
            raise NeedField("method " + name)
        if e.keywords or len(e.args) != len(callee.params):
            fail(e, f"self.{name}: all arguments must be positional")
        if self.init_assigned is not None and not callee.reads <= self.init_assigned:
            fail(e, f"__init__ calls self.{name} before assigning {sorted(callee.reads - self.init_assigned)}")
        self.reads |= callee.reads
        args = []
        for a, (_, want) in zip(e.args, callee.params):
            t, ty = self.ex(a, env)
            args.append(self.coerce(a, t, ty, want))
        text = f"{CLASS}.{name} self" + "".join(" " + a for a in args)
        if callee.fallible:
            return self.fall(text, callee.ret)
        return f"({text})", callee.ret

    # ------------------------------------------------------------------ statements
    def flush(self, ind):
        lines = []
        for t, exc in self.pre:
            lines += [f"{ind}match {exc} with", f"{ind}| .error e => .error e", f"{ind}| .ok {t} =>"]
            ind += "  "
        self.pre = []
        return lines, ind

    @staticmethod
    def terminates(body):
        return bool(body) and isinstance(body[-1], (ast.Return, ast.Raise))

    def assigned(self, body, env):
        """variables (already defined) that the statements assign, in order of first assignment"""
        out = []

        def add(n):
            if n in env and n not in out:
                out.append(n)
        for st in body:
            for n in ast.walk(st):
                if isinstance(n, ast.Assign):
                    for tg in n.targets:
                        for x in ([tg] if not isinstance(tg, ast.Tuple) else tg.elts):
                            if isinstance(x, ast.Name):
                                add(x.id)
                            elif isinstance(x, (ast.Attribute, ast.Subscript)):
                                base = x
                                while isinstance(base, (ast.Attribute, ast.Subscript)):
                                    base = base.value
                                if isinstance(base, ast.Name):
                                    add(base.id)
                elif isinstance(n, ast.Expr) and isinstance(n.value, ast.Call) and isinstance(n.value.func, ast.Attribute) \
                        and isinstance(n.value.func.value, ast.Name):
                    add(n.value.func.value.id)      # name.append(...), self.setter(...)
                elif isinstance(n, (ast.AugAssign, ast.AnnAssign, ast.Delete, ast.Global, ast.Nonlocal, ast.NamedExpr)):
                    fail(n, f"statement {ast.unparse(n)[:40]}")
        return out

    @staticmethod
    def tup(names):
        return names[0] if len(names) == 1 else "(" + ", ".join(names) + ")"

    def tup_ty(self, names, env):
        return " × ".join(lt(env[n]) for n in names)

    def ok(self, t):
        return f".ok {t}" if self.fallible else t

    def block(self, stmts, i, env, tail, ind):
        if i == len(stmts):
            return tail(env, ind)
        st = stmts[i]
        nxt = lambda env2, ind2: self.block(stmts, i + 1, env2, tail, ind2)
        if is_doc(st):
            return nxt(env, ind)
        if isinstance(st, ast.Return):
            if st.value is None or self.m.ret != "Str":
                fail(st, "return without a value / in a method that returns nothing")
            t, ty = self.ex(st.value, env)
            t = self.coerce(st, t, ty, "Str")
            lines, ind2 = self.flush(ind)
            return lines + [f"{ind2}{self.ok(t)}"]
        if isinstance(st, ast.Raise):
            if not (isinstance(st.exc, ast.Call) and isinstance(st.exc.func, ast.Name) and st.exc.func.id in ERRORS and st.cause is None):
                fail(st, f"raise {ast.unparse(st)[:40]}")
            self.falls += 1
            return [f"{ind}.error .{ERRORS[st.exc.func.id]}"]
        if isinstance(st, ast.Assign):
            return self.assign(st, env, nxt, ind)
        if isinstance(st, ast.Expr) and isinstance(st.value, ast.Call) and isinstance(st.value.func, ast.Attribute) \
                and isinstance(st.value.func.value, ast.Name):
            c = st.value
            recv, a = c.func.value.id, c.func.attr
            if recv == "self":
                callee = self.methods.get(a)
                if callee is None or callee.ret != "Self":
                    fail(st, f"statement call self.{a}(...) of a method that returns a value")
                t, _ = self.self_call(c, env)
                lines, ind2 = self.flush(ind)
                return lines + [f"{ind2}let self : {CLASS} := {t}"] + nxt(env, ind2)
            if a == "append" and env.get(recv) == "ListStr" and len(c.args) == 1 and not c.keywords:
                t, ty = self.ex(c.args[0], env)
                t = self.coerce(c.args[0], t, ty, "Str")
                lines, ind2 = self.flush(ind)
                return lines + [f"{ind2}let {recv} : List Str := {recv} ++ [{t}]"] + nxt(env, ind2)
            fail(st, f"statement {ast.unparse(st)[:50]}")
        if isinstance(st, ast.If):
            return self.if_(st, env, nxt, ind)
        if isinstance(st, ast.For):
            return self.for_(st, env, nxt, ind)
        fail(st, f"statement {ast.unparse(st)[:50]}")

    def assign(self, st, env, nxt, ind):
        if len(st.targets) != 1:
            fail(st, "chained assignment")
        tg = st.targets[0]
        if isinstance(tg, ast.Tuple):
            v = st.value
            if not (isinstance(v, ast.Call) and isinstance(v.func, ast.Attribute) and v.func.attr == "partition" and len(v.args) == 1
                    and not v.keywords and isinstance(v.args[0], ast.Constant) and isinstance(v.args[0].value, str) and v.args[0].value
                    and len(tg.elts) == 3 and all(isinstance(x, ast.Name) for x in tg.elts)):
                fail(st, "tuple assignment other than `a, b, c = s.partition(\"literal\")`")
            recv, rty = self.ex(v.func.value, env)
            recv = self.coerce(st, recv, rty, "Str")
            lines, ind2 = self.flush(ind)
            p = self.fresh()
            lines.append(f"{ind2}let {p} : Str × Str × Str := partition {recv} {strlit(v.args[0].value)}")
            env = dict(env)
            for x, proj in zip(tg.elts, (".1", ".2.1", ".2.2")):
                if x.id != "_":
                    lines.append(f"{ind2}let {x.id} : Str := {p}{proj}")
                    env[x.id] = "Str"
            return lines + nxt(env, ind2)
        t, ty = self.ex(st.value, env)
        if isinstance(tg, ast.Name):
            if ty == "None" or tg.id == "self" or tg.id in self.consts:
                fail(st, f"assignment to {tg.id}")
            if tg.id in env and env[tg.id] != ty:
                fail(st, f"{tg.id} changes type from {env[tg.id]} to {ty}")
            lines, ind2 = self.flush(ind)
            return lines + [f"{ind2}let {tg.id} : {lt(ty)} := {t}"] + nxt(dict(env, **{tg.id: ty}), ind2)
        if isinstance(tg, ast.Attribute) and isinstance(tg.value, ast.Name) and tg.value.id == "self":
            self.field(st, tg.attr, write_ty=ty)
            lines, ind2 = self.flush(ind)
            return lines + [f"{ind2}let self : {CLASS} := {{ self with {tg.attr} := {t} }}"] + nxt(env, ind2)
        if isinstance(tg, ast.Subscript) and isinstance(tg.value, ast.Attribute) and isinstance(tg.value.value, ast.Name) \
                and tg.value.value.id == "self" and not isinstance(tg.slice, ast.Slice):
            f = tg.value.attr
            fty = self.field(st, f)
            k, kty = self.ex(tg.slice, env)
            if kty != "Str" or (fty, ty) not in (("DictStr", "Str"), ("Params", "PVal")):
                fail(st, f"self.{f}[{kty}] = {ty}")
            lines, ind2 = self.flush(ind)
            return lines + [f"{ind2}let self : {CLASS} := {{ self with {f} := dSet self.{f} {k} {t} }}"] + nxt(env, ind2)
        fail(st, f"assignment target {ast.unparse(tg)}")

    def if_(self, st, env, nxt, ind):
        c, cty = self.ex(st.test, env)
        c = self.truthy(st, c, cty)
        lines, ind = self.flush(ind)
        dead = lambda env2, ind2: fail(st, "internal: fell through a terminating branch")
        if st.orelse:
            if not (self.terminates(st.body) and self.terminates(st.orelse)):
                fail(st, "if/else whose branches do not both end in return/raise")
            return lines + [f"{ind}if {c} then"] + self.block(st.body, 0, env, dead, ind + "  ") + [f"{ind}else"] \
                + self.block(st.orelse, 0, env, dead, ind + "  ")
        if self.terminates(st.body):
            return lines + [f"{ind}if {c} then"] + self.block(st.body, 0, env, dead, ind + "  ") + [f"{ind}else"] + nxt(env, ind)
        # falls through: join the variables the body assigns
        names = self.assigned(st.body, env)
        if not names:
            fail(st, "an `if` without effect")
        v, vt = self.tup(names), self.tup_ty(names, env)
        snap = (self.tmp, self.falls, self.resub, list(self.pending_defs), set(self.reads), dict(self.ftype),
                None if self.init_assigned is None else set(self.init_assigned))
        body = self.block(st.body, 0, env, lambda e2, i2: [f"{i2}.ok {v}"], ind + "    ")
        pure = self.falls == snap[1]
        if pure:
            self.tmp, self.falls, self.resub, self.pending_defs, self.reads, self.ftype, self.init_assigned = snap
            body = self.block(st.body, 0, env, lambda e2, i2: [f"{i2}{v}"], ind + "    ")
            return lines + [f"{ind}let {v} : {vt} :=", f"{ind}  if {c} then"] + body + [f"{ind}  else {v}"] + nxt(env, ind)
        if not self.fallible:
            return lines + body          # irrelevant: the method is re-translated as fallible
        return lines + [f"{ind}match ((", f"{ind}  if {c} then"] + body + [f"{ind}  else .ok {v}) : Except PyErr {paren(vt)}) with",
                        f"{ind}| .error e => .error e", f"{ind}| .ok {v} =>"] + nxt(env, ind + "  ")

    def for_(self, st, env, nxt, ind):
        if st.orelse or not isinstance(st.target, ast.Name):
            fail(st, "for ... else / tuple target")
        for n in ast.walk(st):
            if isinstance(n, (ast.Break, ast.Continue, ast.Return)):
                fail(n, "break / continue / return inside a loop")
        it, ity = self.iterable(st.iter, env)
        if self.pre:
            fail(st, "a loop source that can raise")
        var = st.target.id
        names = self.assigned(st.body, env)
        if not names or var in names:
            fail(st, "a loop that assigns nothing / assigns its own variable")
        self.falls += 1
        v, vt = self.tup(names), self.tup_ty(names, env)
        inner = dict(env, **{var: ity})
        body = self.block(st.body, 0, inner, lambda e2, i2: [f"{i2}.ok {v}"], ind + "    ")
        return [f"{ind}match forE {it} {v} (fun ({v} : {vt}) ({var} : {lt(ity)}) =>"] + body \
            + [f"{ind}  ) with", f"{ind}| .error e => .error e", f"{ind}| .ok {v} =>"] + nxt(env, ind + "  ")

    # ------------------------------------------------------------------ methods
    def translate(self, m):
        saved_ftype = dict(self.ftype)
        for fallible in (False, True):
            self.ftype = dict(saved_ftype)
            self.begin(m, fallible)
            env = {"self": "Self"} if m.name != "__init__" else {"self": "Self"}
            env.update(dict(m.params))
            body = list(m.node.body)
            if m.ret == "Self":
                tail = lambda e2, i2: [f"{i2}{self.ok('self')}"]
            else:
                tail = lambda e2, i2: fail(m.node, f"{m.name} can end without returning a value")
            lines = self.block(body, 0, env, tail, "  ")
            if fallible or self.falls == 0:
                break
        m.fallible = self.falls > 0
        m.reads = set(self.reads)
        rt = lt(m.ret)
        if m.fallible:
            rt = f"Except PyErr {rt if ' ' not in rt else '(' + rt + ')'}"
        lean_name = "init" if m.name == "__init__" else m.name
        if m.name == "__init__":
            sig = f"def {CLASS}.init : {rt} :=\n  let self : {CLASS} := {CLASS}.unset\n"
        else:
            sig = f"def {CLASS}.{lean_name} (self : {CLASS})" + "".join(f" ({n} : {lt(t)})" for n, t in m.params) + f" : {rt} :=\n"
        end = m.node.end_lineno
        m.text = "".join(self.pending_defs and [d + "\n" for d in self.pending_defs] or []) \
            + f"/-- `{CLASS}.{m.name}` (source lines {m.node.lineno}-{end}) -/\n" + sig + "\n".join(lines) + "\n"

    def render(self):
        todo = list(self.methods.values())
        done = []
        while todo:
            progress = False
            for m in list(todo):
                try:
                    self.translate(m)
                except NeedField:
                    m.text = None
                    continue
                todo.remove(m)
                done.append(m)
                progress = True
            if not progress:
                raise Unsupported("cannot order the methods: " + ", ".join(m.name for m in todo)
                                  + " read a field or call a method whose type is not known yet")
        missing = [s for s in self.slots if s not in self.ftype]
        if missing:
            raise Unsupported(f"__slots__ entries never assigned: {missing}")
        init = self.methods.get("__init__")
        if init is None:
            raise Unsupported("__init__ not found")
        out = [f"/- GENERATED by tools/gen_format.py from {SOURCE} (source text, by AST). Do not edit.",
               "   Assumptions of the translation: the parameter types are those typeguard enforces; message texts are dropped;",
               "   the primitives (string functions, dict, `re.sub`, `np.format_float_positional`, exception classes) are",
               "   `Model/FormatPrelude.lean`; every partial operation is an explicit error. -/",
               "import GscribModel.Model.FormatPrelude", "namespace GscribModel.Gen.FormatSrc",
               "open GscribModel.Format GscribModel.FormatPrelude", "set_option linter.unusedVariables false", ""]
        for name in self.used_enums:
            mem = self.enums[name]
            out.append(f"/-- `gscrib.enums.{name}` -/")
            out.append(f"inductive {name} where " + " ".join(f"| {n}" for n, _ in mem))
            out.append("deriving DecidableEq, Repr")
            out.append(f"def {name}.value : {name} → Str")
            out += [f"  | .{n} => {strlit(v)}" for n, v in mem]
            out.append(f"def {name}.all : List {name} := [" + ", ".join(f".{n}" for n, _ in mem) + "]")
            out.append(f"/-- `{name}(s)` -/")
            out.append(f"def {name}.ofValue (s : Str) : Except PyErr {name} :=")
            out.append("  " + " else ".join(f"if s = {strlit(v)} then .ok .{n}" for n, v in mem) + " else .error .valueError")
            out.append("")
        for name, lineno in self.const_order:
            ty, text = self.consts[name]
            out.append(f"/-- module constant (source line {lineno}) -/")
            out.append(f"def {name} : {lt(ty)} := {text}")
        out.append("")
        out.append(f"/-- the object: one field per `__slots__` entry -/")
        out.append(f"structure {CLASS} where")
        out += [f"  {s} : {lt(self.ftype[s])}" for s in self.slots]
        out.append("")
        out.append("/-- the object before `__init__` has assigned anything (the translator checks that no field is read before it is assigned) -/")
        out.append(f"def {CLASS}.unset : {CLASS} := ⟨" + ", ".join(UNSET[self.ftype[s]] for s in self.slots) + "⟩")
        out.append("")
        for m in done:
            out.append(m.text)
        out.append("end GscribModel.Gen.FormatSrc")
        return "\n".join(out) + "\n"


def main():
    args = [a for a in sys.argv[1:] if not a.startswith("--")]
    if "--out" in sys.argv:
        args = [a for a in args if a != sys.argv[sys.argv.index("--out") + 1]]
    repo = Path(args[0] if args else os.environ.get("GSCRIB_REPO", "/repo"))
    try:
        text = T(repo).render()
    except Unsupported as e:
        print("gen_format: the source is outside the translated subset:", e, file=sys.stderr)
        raise SystemExit(3)
    except (OSError, SyntaxError) as e:
        print("gen_format: cannot read the source:", e, file=sys.stderr)
        raise SystemExit(3)
    if "--stdout" in sys.argv:
        sys.stdout.write(text)
        return
    out = Path(sys.argv[sys.argv.index("--out") + 1]) if "--out" in sys.argv else OUT
    out.parent.mkdir(parents=True, exist_ok=True)
    if not out.exists() or out.read_text() != text:
        out.write_text(text)
        print("gen_format: rewrote", out)


if __name__ == "__main__":
    main()

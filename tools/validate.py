#!/usr/bin/env python3
"""Validate MANIFEST.json and every evidence file against the published schemas (run with python3-vt)."""
import json, sys
from pathlib import Path
import jsonschema
V = Path(__file__).resolve().parent.parent
ok = True
man = json.loads((V / "MANIFEST.json").read_text())
jsonschema.validate(man, json.loads(Path("/root/.vp/MANIFEST.schema.json").read_text()))
es = json.loads(Path("/root/.vp/EVIDENCE.schema.json").read_text())
for c in man["checks"]:
    f = V / c["evidence_file"]
    try:
        ev = json.loads(f.read_text())
        jsonschema.validate(ev, es)
        cov = ev["coverage"]
        assert cov["obligations"] == cov["discharged"] >= 1, "obligations != discharged"
        print("ok ", c["property_id"], ev["tier"], f"{ev['wall_s']}s", "evals", cov.get("evaluations"), "nontrivial", cov.get("distinct_nontrivial"), "viol", ev.get("violations"))
    except Exception as e:
        ok = False
        print("BAD", c["property_id"], repr(e)[:300])
sys.exit(0 if ok else 1)

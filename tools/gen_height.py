#!/usr/bin/env python3
"""Translator: gscrib/heightmaps/{raster,sparse,flat,base}_heightmap.py  ->  GscribModel/Gen/HeightSrc.lean

The height maps (property C19) are thin control flow around numpy / scipy / skimage: a range check and a scale around the
spline (`RasterHeightMap.get_depth_at`), rounding + `skimage.draw.line` (`RasterHeightMap._interpolate_line`), a segment
count + `numpy.linspace` (`SparseHeightMap._interpolate_line`), the tolerance filter `_filter_points`, the argument check of
`sample_path`, the setters' validation.  This translator reads the *source text* (by AST; nothing is imported or executed) and
emits one Lean definition per method, statement by statement, in source order, over the primitives of
`Model/HeightPrelude.lean`; `Props/HeightTie.lean` proves the hand-written `Model/Heightmap.lean` equal to them.

Translated (refused if missing): RasterHeightMap.get_width, get_height, get_depth_at, _interpolate_line, _filter_points,
sample_path, set_scale, set_tolerance, _to_height_map, __init__ (the two defaults); SparseHeightMap.get_depth_at,
_interpolate_line, _filter_points, sample_path, set_scale, set_tolerance, __init__ (the two defaults);
FlatHeightMap.get_depth_at, sample_path; of base_heightmap.py only the shape is checked (BaseHeightMap declares the two
abstract methods with docstring-only bodies; the three classes derive from it).

Representation (assumptions of the translation; they are part of the trusted base):
  * a `float` / `Real` argument or attribute is a finite number: core `Rat` (no NaN / inf arguments); message texts are dropped;
    `@typechecked` only checks the annotations; any other decorator is refused;
  * a 1-D float array / sequence is `List Rat`, an `(N, 3)` array is `List Sample` (the model's row `x y z`), the two arrays
    returned by `draw.line` are `List Int × List Int`, `self._height_map` is the model's `Grid`;
    `numpy.array(rows)` of 3-tuples/3-lists builds the `(N, 3)` float array (ints become floats);
  * `self` is a record of the class's `__slots__` that the translated methods use; a setter returns the new record;
  * a method that can raise returns `Except PyErr _`: `raise C(...)` is `.error .C`; the raising primitives are sequence
    indexing (`IndexError`), 4-way unpacking (`ValueError`), `draw.line(*args)` with a wrong argument count (`TypeError`),
    `int()` of a numpy inf / nan (`OverflowError` / `ValueError`); their results are bound in evaluation order;
  * `self._interpolator(a, b)` is the record field applied to `a` and `b` IN THE SOURCE'S ARGUMENT ORDER;
  * `numpy.hypot` is the parameter `hypot` of the functions that (transitively) use it;
  * a value that came out of numpy (array element, `numpy.hypot`, interpolator result, arithmetic on those) is a numpy
    float64: `a / b` on it is `npTrueDiv` (inf / nan on a zero divisor, no exception); `/` between plain Python floats
    (ZeroDivisionError) is outside the subset.

Subset of Python handled (anything else: refusal, exit 3):
  statements   docstring; `name = e`; `a, b = e` (pair); `a, b, c, d = e` (list, raising); `self._f = e`;
               `name.append(e)`; `return e`; `raise C(...)`; `if c: ... [else: ...]` (a branch that ends in return/raise
               continues with the rest in the other branch; otherwise the names assigned in the branches are joined);
               `for v in xs:` over a list with a body of assignments / appends / ifs (no return, raise, break, continue and
               no raising primitive inside) — becomes `List.foldl` over the loop-carried names;
  expressions  int / float literals (a float literal denotes the decimal it is written as), names, module-level numeric
               constants, `self._f`, `self.m(args)`, `self._interpolator(a, b)`, `self._interpolator(a, b)[0, 0]`,
               `+ - *` and unary `-`, numpy `/`, `< <= > >= == !=` (single), `and or not`, `A if C else B`,
               `X.shape != (n,)`, `X.shape[0|1]` (grid), `X.shape`, `X.dtype == uint16`, `xs[k]` (constant k), `p[0|1|2]`
               (row), `[e for v in xs]`, `[e for a, b in zip(xs, ys)]`, `[e, ...]`, `(e, e, e)`;
  calls        round, int, max, abs, zip, numpy.asarray(x, dtype=float), numpy.hypot, numpy.linspace, numpy.array,
               numpy.array_equal, numpy.empty(shape, dtype=float32), numpy.divide(a, b, out=o), draw.line(*xs).

usage: gen_height.py [repo_root] [--out FILE | --stdout]
"""
import ast
import os
import sys
from fractions import Fraction
from pathlib import Path

V = Path(__file__).resolve().parent.parent
OUT = V / "lean" / "GscribModel" / "Gen" / "HeightSrc.lean"

# (file, class, self record, [methods in dependency order])
CLASSES = [
    ("raster_heightmap.py", "RasterHeightMap", "RasterSt",
     ["get_width", "get_height", "get_depth_at", "_interpolate_line", "_filter_points", "sample_path",
      "set_scale", "set_tolerance", "_to_height_map", "__init__"]),
    ("sparse_heightmap.py", "SparseHeightMap", "SparseSt",
     ["get_depth_at", "_interpolate_line", "_filter_points", "sample_path", "set_scale", "set_tolerance", "__init__"]),
    ("flat_heightmap.py", "FlatHeightMap", "FlatSt", ["get_depth_at", "sample_path"]),
]
# the attributes the translated methods may touch, with their representation (None: known slot, never read or written here)
FIELDS = {
    "RasterHeightMap": {"_scale_z": "Rat", "_tolerance": "Rat", "_height_map": "Grid", "_interpolator": "Interp"},
    "SparseHeightMap": {"_scale_z": "Rat", "_tolerance": "Rat", "_resolution": None, "_interpolator": "Interp"},
    "FlatHeightMap": {},
}
# representation of the parameters whose annotation does not determine it
PARAMS = {
    ("sample_path", "line"): ("List", "Rat"),
    ("_interpolate_line", "line"): ("List", "NRat"),
    ("_filter_points", "points"): ("List", "Sample"),
    ("_to_height_map", "image_data"): "Image",
    ("__init__", "image_data"): "Image",
    ("__init__", "sparse_data"): "SparseData",
}
# `__init__` statements that only hand data to scipy (no decision of this code in them): the interpolant stays the field's
# initial value, which is the PARAMETER of the translated constructor
INIT_OPAQUE = {"_interpolator"}
RESERVED = {"at", "from", "end", "open", "fun", "let", "in", "do", "then", "else", "if", "match", "with", "show", "have",
            "by", "where", "def", "theorem", "instance", "class", "structure", "namespace", "section", "variable", "import",
            "e", "t", "s'", "x'", "hypot", "f32"}
ERRORS = {"ValueError", "IndexError", "TypeError", "OverflowError"}
NUMERIC = ("Rat", "NRat", "Int", "Nat", "Lit")


class Unsupported(Exception):
    pass


def fail(node, what):
    raise Unsupported(f"line {getattr(node, 'lineno', '?')}: {what}")


def lt(ty):
    """Lean text of a type"""
    if isinstance(ty, tuple):
        if ty[0] == "List":
            return f"List {atom(ty[1])}"
        if ty[0] == "Prod":
            return f"{atom(ty[1])} × {atom(ty[2])}"
    return {"NRat": "Rat", "Lit": "Int", "Interp": "Rat → Rat → Rat", "Shape": "Nat × Nat"}.get(ty, ty)


def atom(ty):
    s = lt(ty)
    return f"({s})" if " " in s else s


def rat_lit(f: Fraction) -> str:
    return f"({f.numerator} : Rat)" if f.denominator == 1 else f"(({f.numerator} : Rat) / {f.denominator})"


def ind(lines, n=2):
    return [(" " * n + l) if l else l for l in lines]


def is_doc(st):
    return isinstance(st, ast.Expr) and isinstance(st.value, ast.Constant) and isinstance(st.value.value, str)


def dotted(e):
    if isinstance(e, ast.Name):
        return e.id
    if isinstance(e, ast.Attribute):
        d = dotted(e.value)
        return None if d is None else d + "." + e.attr
    return None


class T:
    def __init__(self, repo):
        self.dir = repo / "gscrib" / "heightmaps"
        self.sigs = {}       # (cls, method) -> dict(ret, raises, hypot, f32, params)
        self.consts = {}
        self.out = []

    # ------------------------------------------------------------------ numbers
    def coerce(self, text, ty, want, node):
        """numeric text of type `ty` as Lean type `want` (Rat / Int)"""
        w = "Rat" if want in ("Rat", "NRat") else want
        if ty == "Lit":
            return f"({text} : {w})"
        have = lt(ty)
        if have == w:
            return text
        if (have, w) in (("Int", "Rat"), ("Nat", "Rat"), ("Nat", "Int")):
            return f"(({text} : {have}) : {w})"
        fail(node, f"cannot use a {have} as {w}")

    def join(self, a, b, node):
        for t in (a, b):
            if t not in NUMERIC:
                fail(node, f"arithmetic on {lt(t)}")
        if "NRat" in (a, b):
            return "NRat"
        if "Rat" in (a, b):
            return "Rat"
        if "Int" in (a, b):
            return "Int"
        if a == "Nat" or b == "Nat":
            return "Nat" if "Lit" not in (a, b) else "Int"
        return "Lit"

    # ------------------------------------------------------------------ expressions
    def bind(self, text, ty, node):
        """a raising primitive: its value is bound before the statement that contains it"""
        if self.pure_depth:
            fail(node, "an operation that can raise inside a loop body / comprehension / conditional expression")
        self.tmp += 1
        name = f"t{self.tmp}"
        self.pend.append((name, text, ty))
        self.saw_raise = True
        return name, ty

    def ex(self, e, env):
        if isinstance(e, ast.Constant):
            v = e.value
            if isinstance(v, bool):
                return ("true" if v else "false"), "Bool"
            if isinstance(v, int):
                return str(v) if v >= 0 else f"({v})", "Lit"
            if isinstance(v, float):
                return rat_lit(Fraction(repr(v))), "Rat"
            fail(e, f"constant {v!r}")
        if isinstance(e, ast.Name):
            if e.id in env:
                return e.id, env[e.id]
            if e.id in self.consts:
                return self.consts[e.id]
            fail(e, f"unknown name {e.id}")
        if isinstance(e, ast.Attribute):
            if isinstance(e.value, ast.Name) and e.value.id == "self":
                ty = FIELDS[self.cls].get(e.attr)
                if ty is None or ty == "Interp":
                    fail(e, f"self.{e.attr} is not a translated data attribute")
                self.used_fields.add(e.attr)
                return f"self.{e.attr}", ty
            if e.attr == "shape":
                t, ty = self.ex(e.value, env)
                if ty == "Image":
                    return f"(npShape2 {t})", "Shape"
            fail(e, f"attribute {ast.unparse(e)}")
        if isinstance(e, ast.UnaryOp):
            t, ty = self.ex(e.operand, env)
            if isinstance(e.op, ast.Not):
                if ty != "Bool":
                    fail(e, "not on a non-boolean")
                return f"(!{t})", "Bool"
            if isinstance(e.op, ast.USub) and ty in NUMERIC:
                if ty == "Nat":
                    fail(e, "negation of a natural number")
                return f"(-{t})", ty
            fail(e, f"unary operator in {ast.unparse(e)}")
        if isinstance(e, ast.BoolOp):
            parts = []
            for v in e.values:
                t, ty = self.ex(v, env)
                if ty != "Bool":
                    fail(e, f"and/or on {lt(ty)}")
                parts.append(t)
            return "(" + (" && " if isinstance(e.op, ast.And) else " || ").join(parts) + ")", "Bool"
        if isinstance(e, ast.IfExp):
            self.pure_depth += 1
            c, cty = self.ex(e.test, env)
            a, aty = self.ex(e.body, env)
            b, bty = self.ex(e.orelse, env)
            self.pure_depth -= 1
            if cty != "Bool":
                fail(e, "condition is not a boolean")
            if aty in NUMERIC and bty in NUMERIC:
                ty = self.join(aty, bty, e)
                ty = "Int" if ty == "Lit" else ty
                a, b = self.coerce(a, aty, ty, e), self.coerce(b, bty, ty, e)
            elif aty == bty:
                ty = aty
            else:
                fail(e, f"conditional of types {lt(aty)}, {lt(bty)}")
            return f"(if {c} then {a} else {b})", ty
        if isinstance(e, ast.BinOp):
            return self.binop(e, env)
        if isinstance(e, ast.Compare):
            return self.compare(e, env)
        if isinstance(e, ast.Subscript):
            return self.subscript(e, env)
        if isinstance(e, ast.Call):
            return self.call(e, env)
        if isinstance(e, ast.ListComp):
            return self.listcomp(e, env)
        if isinstance(e, ast.List):
            items = [self.ex(x, env) for x in e.elts]
            if not items:
                fail(e, "empty list literal")
            tys = {i[1] for i in items}
            if tys <= set(NUMERIC):
                ty = "Lit"
                for t in tys:
                    ty = self.join(ty, t, e)
                ty = "Int" if ty == "Lit" else ty
                return "[" + ", ".join(self.coerce(t, a, ty, e) for t, a in items) + "]", ("List", ty)
            if len(tys) == 1:
                return "[" + ", ".join(t for t, _ in items) + "]", ("List", items[0][1])
            fail(e, "list literal of mixed types")
        fail(e, f"expression {ast.unparse(e)}")

    def binop(self, e, env):
        a, aty = self.ex(e.left, env)
        b, bty = self.ex(e.right, env)
        if isinstance(e.op, ast.Div):
            if aty not in NUMERIC or bty not in NUMERIC:
                fail(e, "division of non-numbers")
            if "NRat" not in (aty, bty):
                fail(e, "`/` between plain Python numbers (ZeroDivisionError) is outside the subset")
            return f"(npTrueDiv {self.coerce(a, aty, 'Rat', e)} {self.coerce(b, bty, 'Rat', e)})", "NpF"
        sym = {ast.Add: "+", ast.Sub: "-", ast.Mult: "*"}.get(type(e.op))
        if sym is None:
            fail(e, f"operator in {ast.unparse(e)}")
        ty = self.join(aty, bty, e)
        if ty == "Lit":
            ty = "Int"
        if ty == "Nat" and sym == "-":
            fail(e, "subtraction of natural numbers")
        return f"({self.coerce(a, aty, ty, e)} {sym} {self.coerce(b, bty, ty, e)})", ty

    def compare(self, e, env):
        if len(e.ops) != 1:
            fail(e, "chained comparison")
        op, l, r = e.ops[0], e.left, e.comparators[0]
        # X.shape != (n,)
        if isinstance(l, ast.Attribute) and l.attr == "shape" and isinstance(op, (ast.NotEq, ast.Eq)) \
                and isinstance(r, ast.Tuple) and len(r.elts) == 1 and isinstance(r.elts[0], ast.Constant) \
                and isinstance(r.elts[0].value, int):
            t, ty = self.ex(l.value, env)
            if not (isinstance(ty, tuple) and ty[0] == "List" and ty[1] in ("Rat", "NRat")):
                fail(e, ".shape of something that is not a 1-D array")
            rel = "≠" if isinstance(op, ast.NotEq) else "="
            return f"(decide (npShape1 {t} {rel} {r.elts[0].value}))", "Bool"
        # X.dtype == uint16
        if isinstance(l, ast.Attribute) and l.attr == "dtype" and isinstance(op, (ast.NotEq, ast.Eq)) \
                and dotted(r) in ("uint16", "numpy.uint16", "uint8", "numpy.uint8"):
            t, ty = self.ex(l.value, env)
            if ty != "Image":
                fail(e, ".dtype of something that is not the image")
            rel = "≠" if isinstance(op, ast.NotEq) else "="
            return f"(decide ({t}.dtype {rel} Dtype.{dotted(r).split('.')[-1]}))", "Bool"
        a, aty = self.ex(l, env)
        b, bty = self.ex(r, env)
        rel = {ast.Lt: "<", ast.LtE: "≤", ast.Gt: ">", ast.GtE: "≥", ast.Eq: "=", ast.NotEq: "≠"}.get(type(op))
        if rel is None:
            fail(e, f"comparison operator in {ast.unparse(e)}")
        ty = self.join(aty, bty, e)
        if ty == "Lit":
            ty = "Int"
        return f"(decide ({self.coerce(a, aty, ty, e)} {rel} {self.coerce(b, bty, ty, e)}))", "Bool"

    def const_index(self, s):
        if isinstance(s, ast.Constant) and isinstance(s.value, int) and not isinstance(s.value, bool):
            return s.value
        if isinstance(s, ast.UnaryOp) and isinstance(s.op, ast.USub) and isinstance(s.operand, ast.Constant) \
                and isinstance(s.operand.value, int):
            return -s.operand.value
        return None

    def subscript(self, e, env):
        # self._interpolator(a, b)[0, 0]
        if isinstance(e.slice, ast.Tuple):
            idx = [self.const_index(x) for x in e.slice.elts]
            if idx == [0, 0] and isinstance(e.value, ast.Call) and dotted(e.value.func) == "self._interpolator":
                t, ty = self.interp_call(e.value, env)
                return f"(npItem00 {t})", "NRat"
            fail(e, f"index {ast.unparse(e)}")
        k = self.const_index(e.slice)
        if k is None:
            fail(e, f"index {ast.unparse(e)} is not a constant")
        # X.shape[k] of the grid
        if isinstance(e.value, ast.Attribute) and e.value.attr == "shape":
            t, ty = self.ex(e.value.value, env)
            if ty == "Grid" and k in (0, 1):
                return f"({'Grid.height' if k == 0 else 'Grid.width'} {t})", "Nat"
            fail(e, f".shape[{k}] of a {lt(ty)}")
        t, ty = self.ex(e.value, env)
        if ty == "Sample":
            if k in (0, 1, 2):
                return f"{t}.{'xyz'[k]}", "NRat"
            fail(e, f"row index {k}")
        if isinstance(ty, tuple) and ty[0] == "List":
            return self.bind(f"pyIndex {t} ({k})", ty[1], e)
        fail(e, f"index into a {lt(ty)}")

    def interp_call(self, c, env):
        if c.keywords or len(c.args) != 2 or any(isinstance(a, ast.Starred) for a in c.args):
            fail(c, "the interpolator is called with two positional scalars")
        if FIELDS[self.cls].get("_interpolator") != "Interp":
            fail(c, "this class has no interpolator")
        args = []
        for a in c.args:
            t, ty = self.ex(a, env)
            if ty not in NUMERIC:
                fail(c, "interpolator argument is not a number")
            args.append(self.coerce(t, ty, "Rat", c))
        self.used_fields.add("_interpolator")
        return f"(self._interpolator {args[0]} {args[1]})", "NRat"

    def listcomp(self, e, env):
        if len(e.generators) != 1 or e.generators[0].ifs or e.generators[0].is_async:
            fail(e, "comprehension with several loops or a filter")
        g = e.generators[0]
        xs, xty = self.ex(g.iter, env)
        if not (isinstance(xty, tuple) and xty[0] == "List"):
            fail(e, "comprehension over something that is not a list")
        el = xty[1]
        inner = dict(env)
        lets = ""
        if isinstance(g.target, ast.Name):
            var = self.local(g.target)
            inner[var] = el
        elif isinstance(g.target, ast.Tuple) and len(g.target.elts) == 2 and all(isinstance(x, ast.Name) for x in g.target.elts) \
                and isinstance(el, tuple) and el[0] == "Prod":
            var = "x'"
            for i, x in enumerate(g.target.elts):
                n = self.local(x)
                inner[n] = el[i + 1]
                lets += f"let {n} : {lt(el[i + 1])} := x'.{i + 1}; "
        else:
            fail(e, f"comprehension target {ast.unparse(g.target)}")
        self.pure_depth += 1
        if isinstance(e.elt, ast.Tuple):
            body, bty = self.row(e.elt, inner)
        else:
            body, bty = self.ex(e.elt, inner)
        self.pure_depth -= 1
        if bty == "Lit":
            bty, body = "Int", f"({body} : Int)"
        return f"(List.map (fun ({var} : {lt(el)}) => {lets}{body}) {xs})", ("List", bty)

    def row(self, e, env):
        """a 3-tuple / 3-list that becomes a row of an (N, 3) float array"""
        if len(e.elts) != 3:
            fail(e, "a row must have three entries")
        parts = []
        for x in e.elts:
            t, ty = self.ex(x, env)
            if ty not in NUMERIC:
                fail(e, "row entry is not a number")
            parts.append(self.coerce(t, ty, "Rat", e))
        return "(⟨" + ", ".join(parts) + "⟩ : Sample)", "Sample"

    def local(self, n):
        if n.id in RESERVED or n.id.startswith("t") and n.id[1:].isdigit():
            fail(n, f"the name {n.id} clashes with the generated code")
        return n.id

    def call(self, c, env):
        fn = dotted(c.func)
        if fn is None:
            fail(c, f"call {ast.unparse(c)}")
        if fn == "draw.line":
            if len(c.args) == 1 and isinstance(c.args[0], ast.Starred) and not c.keywords:
                t, ty = self.ex(c.args[0].value, env)
                if ty != ("List", "Int"):
                    fail(c, "draw.line(*xs) needs a list of ints")
                return self.bind(f"skimageLine {t}", ("Prod", ("List", "Int"), ("List", "Int")), c)
            fail(c, "draw.line is called as draw.line(*xs)")
        if any(isinstance(a, ast.Starred) for a in c.args):
            fail(c, "star arguments")
        kw = {k.arg: k.value for k in c.keywords}
        if fn == "self._interpolator":
            return self.interp_call(c, env)
        if fn.startswith("self.") and fn.count(".") == 1:
            return self.method_call(c, fn[5:], env)
        if fn == "numpy.asarray":
            if len(c.args) == 1 and set(kw) == {"dtype"} and dotted(kw["dtype"]) == "float":
                t, ty = self.ex(c.args[0], env)
                if ty != ("List", "Rat"):
                    fail(c, "numpy.asarray of something that is not the line argument")
                return f"(npAsarrayFloat {t})", ("List", "NRat")
            fail(c, "numpy.asarray(x, dtype=float) expected")
        if fn == "numpy.empty":
            if len(c.args) == 1 and set(kw) == {"dtype"} and dotted(kw["dtype"]) in ("float32", "numpy.float32"):
                t, ty = self.ex(c.args[0], env)
                if ty != "Shape":
                    fail(c, "numpy.empty of something that is not a shape")
                return f"(npEmptyF32 {t})", "F32Buf"
            fail(c, "numpy.empty(shape, dtype=float32) expected")
        if fn == "numpy.divide":
            if len(c.args) == 2 and set(kw) == {"out"}:
                a, aty = self.ex(c.args[0], env)
                b, bty = self.ex(c.args[1], env)
                o, oty = self.ex(kw["out"], env)
                if aty != "Image" or bty not in NUMERIC or oty != "F32Buf":
                    fail(c, "numpy.divide(image, number, out=float32 buffer) expected")
                self.uses_f32 = True
                return f"(npDivideOut f32 {a} {self.coerce(b, bty, 'Rat', c)} {o})", "Grid"
            fail(c, "numpy.divide(a, b, out=o) expected")
        if kw:
            fail(c, f"keyword arguments in {ast.unparse(c)}")
        if fn == "numpy.array" and len(c.args) == 1 and isinstance(c.args[0], ast.List):
            a = c.args[0]
            if a.elts and all(isinstance(r, ast.List) for r in a.elts):
                return "[" + ", ".join(self.row(r, env)[0] for r in a.elts) + "]", ("List", "Sample")
            fail(c, "numpy.array of something that is not a list of rows")
        args = [self.ex(a, env) for a in c.args]
        tys = [a[1] for a in args]
        if fn == "round" and len(args) == 1 and tys[0] in ("Rat", "NRat"):
            return f"(pyRound {args[0][0]})", "Int"
        if fn == "int" and len(args) == 1:
            if tys[0] == "NpF":
                return self.bind(f"pyIntF {args[0][0]}", "Int", c)
            if tys[0] in ("Rat", "NRat"):
                return f"(pyTrunc {args[0][0]})", "Int"
        if fn == "abs" and len(args) == 1 and tys[0] in ("Rat", "NRat"):
            return f"(pyAbs {args[0][0]})", tys[0]
        if fn == "max" and len(args) == 2 and all(t in NUMERIC for t in tys):
            ty = self.join(tys[0], tys[1], c)
            ty = "Int" if ty == "Lit" else ty
            return f"(max {self.coerce(args[0][0], tys[0], ty, c)} {self.coerce(args[1][0], tys[1], ty, c)})", ty
        if fn == "zip" and len(args) == 2 and all(isinstance(t, tuple) and t[0] == "List" for t in tys):
            return f"(List.zip {args[0][0]} {args[1][0]})", ("List", ("Prod", tys[0][1], tys[1][1]))
        if fn == "numpy.hypot" and len(args) == 2 and all(t in NUMERIC for t in tys):
            self.uses_hypot = True
            return f"(hypot {self.coerce(args[0][0], tys[0], 'Rat', c)} {self.coerce(args[1][0], tys[1], 'Rat', c)})", "NRat"
        if fn == "numpy.linspace" and len(args) == 3 and all(t in NUMERIC for t in tys) and tys[2] in ("Int", "Nat", "Lit"):
            return (f"(npLinspace {self.coerce(args[0][0], tys[0], 'Rat', c)} {self.coerce(args[1][0], tys[1], 'Rat', c)} "
                    f"{self.coerce(args[2][0], tys[2], 'Int', c)})"), ("List", "NRat")
        if fn == "numpy.array_equal" and len(args) == 2 and tys == ["Sample", "Sample"]:
            return f"(npArrayEqual {args[0][0]} {args[1][0]})", "Bool"
        if fn == "numpy.array" and len(c.args) == 1:
            if tys[0] == ("List", "Sample"):
                return args[0][0], tys[0]
            fail(c, "numpy.array of something that is not a list of rows")
        fail(c, f"call {ast.unparse(c)} (argument types {[lt(t) for t in tys]})")

    def method_call(self, c, name, env):
        sig = self.sigs.get((self.cls, name))
        if sig is None:
            fail(c, f"self.{name} is not a translated method (or is defined after its caller)")
        if c.keywords or len(c.args) != len(sig["params"]):
            fail(c, f"self.{name}: arguments")
        if sig["mutates"]:
            fail(c, f"self.{name} modifies self: a call of it is outside the subset")
        parts = []
        for a, (pn, pty) in zip(c.args, sig["params"]):
            t, ty = self.ex(a, env)
            if pty in ("Rat", "NRat") and ty in NUMERIC:
                t = self.coerce(t, ty, "Rat", c)
            elif lt(ty) != lt(pty):
                fail(c, f"self.{name}: argument {pn} is a {lt(ty)}, expected {lt(pty)}")
            parts.append(t)
        pre = ""
        if sig["hypot"]:
            self.uses_hypot = True
            pre += " hypot"
        if sig["f32"]:
            self.uses_f32 = True
            pre += " f32"
        text = f"{self.cls}.{name}{pre} self " + " ".join(parts)
        if sig["raises"]:
            return self.bind(text.rstrip(), sig["ret"], c)
        return f"({text.rstrip()})", sig["ret"]

    # ------------------------------------------------------------------ statements
    def flush(self, lines):
        """emit the pending raising bindings; returns the indentation that the continuation needs (always 0: flat style)"""
        for name, text, ty in self.pend:
            lines.append(f"match ({text} : Except PyErr {atom(ty)}) with")
            lines.append("| .error e => .error e")
            lines.append(f"| .ok {name} =>")
        self.pend = []

    def assigned(self, stmts):
        """names (re)bound by a statement list, in first-occurrence order"""
        out = []

        def add(n):
            if n not in out:
                out.append(n)
        for st in stmts:
            if isinstance(st, ast.Assign):
                for t in st.targets:
                    if isinstance(t, ast.Name):
                        add(t.id)
                    elif isinstance(t, ast.Tuple):
                        for x in t.elts:
                            if isinstance(x, ast.Name):
                                add(x.id)
                    elif isinstance(t, ast.Attribute) and isinstance(t.value, ast.Name) and t.value.id == "self":
                        add("self")
            elif isinstance(st, ast.Expr) and isinstance(st.value, ast.Call) and isinstance(st.value.func, ast.Attribute) \
                    and st.value.func.attr == "append" and isinstance(st.value.func.value, ast.Name):
                add(st.value.func.value.id)
            elif isinstance(st, ast.If):
                for n in self.assigned(st.body) + self.assigned(st.orelse):
                    add(n)
            elif isinstance(st, ast.For):
                for n in self.assigned(st.body):
                    add(n)
        return out

    def terminates(self, stmts):
        if not stmts:
            return False
        last = stmts[-1]
        if isinstance(last, (ast.Return, ast.Raise)):
            return True
        if isinstance(last, ast.If) and last.orelse:
            return self.terminates(last.body) and self.terminates(last.orelse)
        return False

    def tuple_of(self, names, env):
        if len(names) == 1:
            return names[0], env[names[0]]
        ty = env[names[-1]]
        for n in reversed(names[:-1]):
            ty = ("Prod", env[n], ty)
        return "(" + ", ".join(names) + ")", ty

    def untuple(self, var, names, env):
        """`let` lines reading the carried names back out of a right-nested tuple"""
        if len(names) == 1:
            return [f"let {names[0]} : {lt(env[names[0]])} := {var}"]
        # right-nested: (a, (b, c)) -> a = v.1, b = v.2.1, c = v.2.2
        out, path = [], var
        for i, n in enumerate(names):
            if i < len(names) - 1:
                out.append(f"let {n} : {lt(env[n])} := {path}.1")
                path = f"{path}.2"
            else:
                out.append(f"let {n} : {lt(env[n])} := {path}")
        return out

    def seq(self, stmts, env, tail, mode):
        """lines for a statement list; `tail(env)` gives the lines for falling off its end.
        mode 'method': return / raise allowed; mode 'pure': inside a loop body or a joined branch"""
        env = dict(env)
        lines = []
        stmts = [s for s in stmts if not is_doc(s)]
        for i, st in enumerate(stmts):
            rest = stmts[i + 1:]
            src = ast.unparse(st).split("\n")[0]
            if isinstance(st, ast.Pass):
                continue
            if isinstance(st, ast.Return):
                if mode != "method":
                    fail(st, "return inside a loop / joined branch")
                if rest:
                    fail(rest[0], "code after return")
                if st.value is None or (isinstance(st.value, ast.Constant) and st.value.value is None):
                    return lines + tail(env)
                if self.mutates:
                    fail(st, "a method that modifies self and returns a value")
                t, ty = self.ex(st.value, env)
                lines.append(f"-- line {st.lineno}: {src}")
                self.flush(lines)
                lines.append(self.ret(t, ty, st))
                return lines
            if isinstance(st, ast.Raise):
                if mode != "method":
                    fail(st, "raise inside a loop / joined branch")
                if rest:
                    fail(rest[0], "code after raise")
                cls = st.exc.func.id if isinstance(st.exc, ast.Call) and isinstance(st.exc.func, ast.Name) else \
                    st.exc.id if isinstance(st.exc, ast.Name) else None
                if cls not in ERRORS or st.cause is not None:
                    fail(st, f"raise {ast.unparse(st.exc) if st.exc else ''}")
                self.saw_raise = True
                lines.append(f"-- line {st.lineno}: raise {cls}")
                lines.append(f".error .{cls}")
                return lines
            if isinstance(st, ast.If):
                c, cty = self.ex(st.test, env)
                if cty != "Bool":
                    fail(st, "condition is not a boolean")
                lines.append(f"-- line {st.lineno}: if {ast.unparse(st.test)}")
                self.flush(lines)
                bt, ot = self.terminates(st.body), self.terminates(st.orelse)
                if bt or ot:
                    if mode != "method":
                        fail(st, "return / raise inside a loop / joined branch")
                    # the branch that ends the method; the other one continues with the rest of the body
                    then_part = self.seq(st.body + ([] if bt else rest), env, tail, mode)
                    else_part = self.seq(st.orelse + ([] if ot else rest), env, tail, mode)
                    if bt and ot and rest:
                        fail(rest[0], "code after an if whose branches both end the method")
                    lines.append(f"if {c} then")
                    lines += ind(then_part)
                    lines.append("else")
                    lines += else_part if bt else ind(else_part)
                    return lines
                names = [n for n in self.assigned(st.body + st.orelse) if n in env]
                fresh = [n for n in self.assigned(st.body + st.orelse) if n not in env]
                if fresh:
                    fail(st, f"names first bound inside a branch: {fresh}")
                if not names:
                    fail(st, "an if without effect")
                tup, tty = self.tuple_of(names, env)
                join_tail = lambda en, names=names: [self.tuple_of(names, en)[0]]
                self.pure_depth += 1
                a = self.seq(st.body, env, join_tail, "pure")
                b = self.seq(st.orelse, env, join_tail, "pure")
                self.pure_depth -= 1
                var = names[0] if len(names) == 1 else "j'"
                lines.append(f"let {var} : {lt(tty)} :=")
                lines += ind([f"if {c} then"] + ind(a) + ["else"] + ind(b))
                if len(names) > 1:
                    lines += self.untuple(var, names, env)
                continue
            if isinstance(st, ast.For):
                lines += self.loop(st, env)
                continue
            if isinstance(st, ast.Expr) and isinstance(st.value, ast.Call) and isinstance(st.value.func, ast.Attribute) \
                    and st.value.func.attr == "append" and isinstance(st.value.func.value, ast.Name):
                n = st.value.func.value.id
                if n not in env or not (isinstance(env[n], tuple) and env[n][0] == "List") or len(st.value.args) != 1 \
                        or st.value.keywords:
                    fail(st, f"{n}.append")
                t, ty = self.ex(st.value.args[0], env)
                if lt(ty) != lt(env[n][1]):
                    fail(st, f"append of a {lt(ty)} to a {lt(env[n])}")
                lines.append(f"-- line {st.lineno}: {src}")
                self.flush(lines)
                lines.append(f"let {n} : {lt(env[n])} := {n} ++ [{t}]")
                continue
            if isinstance(st, ast.Assign) and len(st.targets) == 1:
                tg = st.targets[0]
                if isinstance(tg, ast.Attribute) and isinstance(tg.value, ast.Name) and tg.value.id == "self":
                    fty = FIELDS[self.cls].get(tg.attr)
                    if fty is None:
                        fail(st, f"self.{tg.attr} is not a translated attribute")
                    if mode != "method":
                        fail(st, "attribute assignment inside a loop / branch")
                    self.used_fields.add(tg.attr)
                    if self.method_name == "__init__" and tg.attr in INIT_OPAQUE:
                        lines.append(f"-- line {st.lineno}: {src}   (scipy's interpolant: the field keeps the PARAMETER it was given)")
                        continue
                    t, ty = self.ex(st.value, env)
                    if fty == "Rat" and ty in NUMERIC:
                        t = self.coerce(t, ty, "Rat", st)
                    elif lt(ty) != lt(fty):
                        fail(st, f"self.{tg.attr} := a {lt(ty)}")
                    lines.append(f"-- line {st.lineno}: {src}")
                    self.flush(lines)
                    lines.append(f"let self : {self.self_ty} := {{ self with {tg.attr} := {t} }}")
                    continue
                if isinstance(tg, ast.Name):
                    n = self.local(tg)
                    t, ty = self.ex(st.value, env)
                    if ty == "Lit":
                        t, ty = f"({t} : Int)", "Int"
                    lines.append(f"-- line {st.lineno}: {src}")
                    self.flush(lines)
                    lines.append(f"let {n} : {lt(ty)} := {t}")
                    env[n] = ty
                    continue
                if isinstance(tg, ast.Tuple) and all(isinstance(x, ast.Name) for x in tg.elts):
                    names = [self.local(x) for x in tg.elts]
                    t, ty = self.ex(st.value, env)
                    if isinstance(ty, tuple) and ty[0] == "Prod" and len(names) == 2:
                        lines.append(f"-- line {st.lineno}: {src}")
                        self.flush(lines)
                        for k, n in enumerate(names):
                            lines.append(f"let {n} : {lt(ty[k + 1])} := {t}.{k + 1}")
                            env[n] = ty[k + 1]
                        continue
                    if isinstance(ty, tuple) and ty[0] == "List" and len(names) == 4:
                        if mode != "method":
                            fail(st, "unpacking inside a loop / branch")
                        self.flush(lines)
                        self.saw_raise = True
                        lines.append(f"-- line {st.lineno}: {src}")
                        lines.append(f"match (pyUnpack4 {t} : Except PyErr ({' × '.join([atom(ty[1])] * 4)})) with")
                        lines.append("| .error e => .error e")
                        lines.append(f"| .ok ({', '.join(names)}) =>")
                        for n in names:
                            env[n] = ty[1]
                        continue
                    fail(st, f"unpacking a {lt(ty)} into {len(names)} names")
            fail(st, f"statement {src[:60]}")
        return lines + tail(env)

    def loop(self, st, env):
        if st.orelse or not isinstance(st.target, ast.Name):
            fail(st, "for loop with else / tuple target")
        xs, xty = self.ex(st.iter, env)
        if not (isinstance(xty, tuple) and xty[0] == "List"):
            fail(st, "for loop over something that is not a list")
        lines = [f"-- line {st.lineno}: for {ast.unparse(st.target)} in {ast.unparse(st.iter)}"]
        self.flush(lines)
        for sub in ast.walk(st):
            if isinstance(sub, (ast.Break, ast.Continue, ast.Return, ast.Raise, ast.While)) or (isinstance(sub, ast.For) and sub is not st):
                fail(sub, "break / continue / return / raise / nested loop inside a for loop")
        var = self.local(st.target)
        carried = self.assigned(st.body)
        if var in carried:
            fail(st, "the loop variable is reassigned")
        for n in carried:
            if n not in env:
                fail(st, f"{n} is first bound inside the loop")
        if not carried:
            fail(st, "a loop without effect")
        tup, tty = self.tuple_of(carried, env)
        inner = dict(env)
        inner[var] = xty[1]
        self.pure_depth += 1
        body = self.seq(st.body, inner, lambda en: [self.tuple_of(carried, en)[0]], "pure")
        self.pure_depth -= 1
        lines.append(f"let s' : {lt(tty)} := List.foldl (fun (s' : {lt(tty)}) ({var} : {lt(xty[1])}) =>")
        lines += ind(self.untuple("s'", carried, env) + body, 4)
        lines.append(f"  ) {tup} {xs}")
        lines += self.untuple("s'", carried, env)
        return lines

    def ret(self, t, ty, node):
        if self.ret_ty is None:
            self.ret_ty = ty
        elif self.ret_ty in NUMERIC and ty in NUMERIC:
            self.ret_ty = self.join(self.ret_ty, ty, node)
        elif lt(self.ret_ty) != lt(ty):
            fail(node, f"returns of different types: {lt(self.ret_ty)} and {lt(ty)}")
        if ty == "Lit":
            fail(node, "an int literal is returned")
        return f".ok {t}" if self.wrap else t

    # ------------------------------------------------------------------ methods
    def method(self, cls, self_ty, node, name):
        for d in node.decorator_list:
            if dotted(d) != "typechecked":
                fail(node, f"decorator @{ast.unparse(d)}")
        a = node.args
        if a.vararg or a.kwarg or a.kwonlyargs or a.posonlyargs or a.defaults or not a.args or a.args[0].arg != "self":
            fail(node, "parameter list")
        params = []
        for p in a.args[1:]:
            ann = ast.unparse(p.annotation) if p.annotation else ""
            if (name, p.arg) in PARAMS:
                ty = PARAMS[(name, p.arg)]
            elif ann in ("float", "Real"):
                ty = "Rat"
            else:
                fail(node, f"parameter {p.arg}: {ann or 'no annotation'}")
            if p.arg in RESERVED:
                fail(node, f"parameter name {p.arg}")
            params.append((p.arg, ty))
        self.cls, self.self_ty, self.method_name = cls, self_ty, name
        self.mutates = "self" in self.assigned(node.body)
        is_init = name == "__init__"
        result = None
        for wrap in (True, False):
            self.wrap, self.ret_ty, self.saw_raise = wrap, None, False
            self.uses_hypot = self.uses_f32 = False
            self.tmp, self.pend, self.pure_depth = 0, [], 0
            env = dict(params)

            def tail(en):
                if not self.mutates:
                    fail(node, "the method can end without a return")
                return [".ok self" if self.wrap else "self"]
            body = self.seq(node.body, env, tail, "method")
            if self.pend:
                fail(node, "internal: unflushed bindings")
            if wrap and self.saw_raise:
                break
            if not wrap:
                break
        ret = self_ty if self.mutates else self.ret_ty
        if ret is None:
            fail(node, "no return value")
        sig = "".join(f" ({n} : {lt(t)})" for n, t in params)
        pre = (" (hypot : Rat → Rat → Rat)" if self.uses_hypot else "") + (" (f32 : Rat → Rat)" if self.uses_f32 else "")
        rty = f"Except PyErr {atom(ret)}" if self.wrap else lt(ret)
        end = getattr(node, "end_lineno", node.lineno)
        lean_name = "init" if is_init else name
        what = "the record after the assignments of the constructor; `self` on entry holds scipy's interpolant" if is_init else \
            ("returns the modified record" if self.mutates else "")
        head = f"/-- `{cls}.{name}` (source lines {node.lineno}-{end})" + (f": {what}" if what else "") + " -/"
        self.out.append("\n".join([head, f"def {cls}.{lean_name}{pre} (self : {self_ty}){sig} : {rty} :="] + ind(body)) + "\n")
        self.sigs[(cls, name)] = {"ret": ret, "raises": self.wrap, "hypot": self.uses_hypot, "f32": self.uses_f32,
                                  "params": params, "mutates": self.mutates}

    def check_base(self):
        tree = ast.parse((self.dir / "base_heightmap.py").read_text())
        cls = [n for n in tree.body if isinstance(n, ast.ClassDef) and n.name == "BaseHeightMap"]
        if len(cls) != 1:
            raise Unsupported("class BaseHeightMap not found")
        got = {}
        for n in cls[0].body:
            if is_doc(n):
                continue
            if not isinstance(n, ast.FunctionDef):
                fail(n, "BaseHeightMap: something that is not a method")
            body = [b for b in n.body if not is_doc(b) and not isinstance(b, ast.Pass)]
            if body or [dotted(d) for d in n.decorator_list] != ["abstractmethod"]:
                fail(n, f"BaseHeightMap.{n.name} is not an abstract method without a body")
            got[n.name] = n.lineno
        if sorted(got) != ["get_depth_at", "sample_path"]:
            raise Unsupported(f"BaseHeightMap declares {sorted(got)}")
        return got

    def render(self):
        base = self.check_base()
        header = [
            "/- GENERATED by tools/gen_height.py from gscrib/heightmaps/raster_heightmap.py, sparse_heightmap.py, flat_heightmap.py, "
            "base_heightmap.py (source text, by AST). Do not edit.",
            "   Assumptions of the translation: float arguments are finite (`Rat`); arrays are lists (`(N, 3)` arrays: lists of the model's",
            "   `Sample`); scipy's interpolants are the record field `_interpolator`, applied in the source's argument order; `numpy.hypot` and",
            "   float32 rounding are parameters; the numpy / skimage / builtin calls are the primitives of Model/HeightPrelude.lean; a method",
            "   that can raise returns `Except PyErr _`; message texts are dropped. -/",
            "import GscribModel.Model.HeightPrelude",
            "namespace GscribModel.Gen.HeightSrc",
            "open GscribModel.Heightmap GscribModel.HeightPrelude",
            "set_option linter.unusedVariables false",
            "",
            f"/- `BaseHeightMap` (base_heightmap.py): abstract `get_depth_at` (line {base['get_depth_at']}) and `sample_path` "
            f"(line {base['sample_path']}), no code. -/",
            "",
        ]
        for fname, cls, self_ty, methods in CLASSES:
            tree = ast.parse((self.dir / fname).read_text())
            self.consts = {}
            for n in tree.body:
                if isinstance(n, ast.Assign) and len(n.targets) == 1 and isinstance(n.targets[0], ast.Name) \
                        and isinstance(n.value, ast.Constant) and isinstance(n.value.value, (int, float)) \
                        and not isinstance(n.value.value, bool):
                    v = n.value.value
                    self.consts[n.targets[0].id] = (rat_lit(Fraction(repr(v))), "Rat") if isinstance(v, float) else (str(v), "Lit")
            cs = [n for n in tree.body if isinstance(n, ast.ClassDef) and n.name == cls]
            if len(cs) != 1:
                raise Unsupported(f"class {cls} not found in {fname}")
            c = cs[0]
            if [dotted(b) for b in c.bases] != ["BaseHeightMap"]:
                fail(c, f"{cls} does not derive from BaseHeightMap alone")
            slots = None
            for n in c.body:
                if isinstance(n, ast.Assign) and len(n.targets) == 1 and dotted(n.targets[0]) == "__slots__":
                    if not isinstance(n.value, ast.Tuple) or not all(isinstance(x, ast.Constant) and isinstance(x.value, str) for x in n.value.elts):
                        fail(n, "__slots__ is not a tuple of strings")
                    slots = [x.value for x in n.value.elts]
            known = FIELDS[cls]
            if known:
                if slots is None:
                    fail(c, f"{cls} has no __slots__")
                for s in slots:
                    if s not in known:
                        fail(c, f"unknown slot {s}")
                for s, ty in known.items():
                    if ty is not None and s not in slots:
                        fail(c, f"slot {s} is missing")
            elif slots:
                fail(c, f"{cls} has state: {slots}")
            fields = [(s, known[s]) for s in (slots or []) if known[s] is not None]
            self.out.append(f"/-- class `{cls}` ({fname} line {c.lineno}): one field per `__slots__` entry the translated methods use -/\n"
                            f"structure {self_ty} where\n" + "".join(f"  {s} : {lt(t)}\n" for s, t in fields))
            defs = {n.name: n for n in c.body if isinstance(n, ast.FunctionDef)}
            self.check_from_path(cls, defs)
            self.used_fields = set()
            for m in methods:
                if m not in defs:
                    raise Unsupported(f"{cls}.{m} not found")
                self.method(cls, self_ty, defs[m], m)
        return "\n".join(header + self.out + ["end GscribModel.Gen.HeightSrc"]) + "\n"


# `from_path`: a map is built from what the file holds at the time of the call - one read per call, its result handed to the
# constructor (the translated `__init__`), nothing kept between calls.  File decoding itself (cv2 / numpy.loadtxt) is a parameter.
FROM_PATH = {
    "RasterHeightMap": ["flags = cv.IMREAD_GRAYSCALE | cv.IMREAD_ANYDEPTH", "image_data = cv.imread(path, flags)",
                        "if image_data is None:\n    raise ImageLoadError(<text>)", "return cls(image_data)"],
    "SparseHeightMap": ["try:\n    delimiter = '\\t' if path.lower().endswith('.tsv') else ','\n    sparse_data = numpy.loadtxt(path, delimiter=delimiter)\n"
                        "    if len(sparse_data) < 4:\n        raise ValueError(<text>)\n    if sparse_data.shape[1] != 3:\n        raise ValueError(<text>)\n"
                        "    return cls(sparse_data)\nexcept Exception as e:\n    raise FileLoadError(<text>) from e"],
}


def _check_from_path(self, cls, defs):
    want = FROM_PATH.get(cls)
    if want is None:
        if "from_path" in defs:
            fail(defs["from_path"], f"{cls}.from_path is not expected")
        return
    fn = defs.get("from_path")
    if fn is None:
        raise Unsupported(f"{cls}.from_path not found")
    if [dotted(d) for d in fn.decorator_list] != ["classmethod"]:
        fail(fn, f"{cls}.from_path is expected to be a plain classmethod (no caching decorator)")

    class Texts(ast.NodeTransformer):       # message texts are not part of the pin
        def visit_Raise(self, node):
            self.generic_visit(node)
            if isinstance(node.exc, ast.Call) and len(node.exc.args) == 1 and isinstance(node.exc.args[0], (ast.JoinedStr, ast.Constant)):
                node.exc.args[0] = ast.Name(id="<text>", ctx=ast.Load())
            return node
    body = [ast.unparse(Texts().visit(b)) for b in fn.body if not is_doc(b)]
    if body != want:
        raise Unsupported(f"{cls}.from_path is no longer `read the file once, hand the data to the constructor`: " + repr(body))
    # module level: nothing may wrap the readers in a cache
    return


T.check_from_path = _check_from_path


def main():
    args = []
    skip = False
    for a in sys.argv[1:]:
        if skip:
            skip = False
        elif a == "--out":
            skip = True
        elif not a.startswith("--"):
            args.append(a)
    repo = Path(args[0] if args else os.environ.get("GSCRIB_REPO", "/repo"))
    try:
        text = T(repo).render()
    except Unsupported as e:
        print("gen_height: the source is outside the translated subset:", e, file=sys.stderr)
        raise SystemExit(3)
    except (OSError, SyntaxError) as e:
        print("gen_height: cannot read the source:", e, file=sys.stderr)
        raise SystemExit(3)
    if "--stdout" in sys.argv:
        sys.stdout.write(text)
        return
    out = Path(sys.argv[sys.argv.index("--out") + 1]) if "--out" in sys.argv else OUT
    out.parent.mkdir(parents=True, exist_ok=True)
    if not out.exists() or out.read_text() != text:
        out.write_text(text)
        print("gen_height: rewrote", out)


if __name__ == "__main__":
    main()

#!/usr/bin/env python3
"""Translator: gscrib/printrun/device.py (class Device: `_readline_buf`, `_readline_socket`)  ->  GscribModel/Gen/SocketSrc.lean

`Device._readline_socket` / `_readline_buf` cut the bytes received on a socket into lines (C17).  They are translated
literally from the source text (by AST; nothing is imported or executed), statement by statement and in source order, into
Lean functions in `Except PyErr` over a record `Device` holding the attributes the two methods read or assign
(`_read_buffer : List Bytes`, `_is_connected : Bool`).  `Props/SocketTie.lean` proves the hand-written model
(`Model/Socket.lean`: `readlineBuf`, `go`, `readlineSocket`) equal to them, for every buffer and every script.

What a method becomes
  * a method without a loop:  `m (self : Device) : Except PyErr (T × Device)`  (value returned, object afterwards);
  * a method with a `while True:` loop that reads the socket:
      `m_body (self) (locals…) (p : Pass) (rest : List Pass) (continue_ : Device → Except …)`   one trip through the loop body
      `m_loop (self) (locals…) : List Pass → Except …`     structural recursion on the script, `[]` = one trip on `Pass.idle`
      `m (self) (script : List Pass) : Except PyErr (T × Device × List Pass)`    (… and the passes not consumed).
    The k-th `self._socketfile.read(n)` written in the loop body is `p.read k n`, the k-th
    `self._selector.select(t)` is `p.select k` (see `Model/SocketPrelude.lean` for the environment convention); at most two
    reads and one select may be written in the body.
  * an `if` continues the rest of the block in both branches (so an early `return` ends the method there);
    `return e` is `pure (e, self[, rest])`; falling off the loop body is `continue_ self`; locals assigned before the loop
    and read in it become parameters; a local assigned in the loop must be assigned before it is read on every trip.

Subset (anything else: refuse, exit 3)
  statements   `x = e`, `x = self._read_buffer[i]`-style indexing (may raise IndexError), `x = self.m()` for a translated
               method without loop, `self.f = e`, `self.f.append(e)`, `if / elif / else`, `return e`, one `while True:`
               (no `break` / `continue` / `else`, last statement of its block), one outermost
               `try: … except OSError as e: …` (the handler is NOT translated: OSError from read/select is out of scope),
               docstrings.
  expressions  `None`, bytes / int / bool literals, locals, the module constants `NAME = b'…' | None`, `self.f` for
               f in {_read_buffer, _is_connected}, `a + b` (bytes or int), `a - b`, `-n`, comparisons of ints
               (`< <= > >= == !=`), `==`/`!=` of bytes, `x is None` / `x is not None` (one side statically None),
               `and` / `or` / `not` and `if` tests by truthiness (bytes, list, None-or-bytes, int, bool),
               slices `x[:j]` `x[i:]` `x[i:j]` `x[:]` of bytes / the buffer, `s.find(sub)`, `sep.join(l)`, `len(x)`,
               `self._socketfile.read(e)`, `self._selector.select(<name|attribute|constant>)` (inside the loop only).
  A local may not alias the list `self._read_buffer` (it is mutated in place by `append`), and may not be called like a
  Lean keyword or a name the generated text uses (`p`, `rest`, `script`, …: see LEAN_KW).
Types are inferred: Bytes, List Bytes, Int, Bool, Option Bytes (a value that may be `None`), None.

usage: gen_socket.py [repo_root] [--out FILE | --stdout]
"""
import ast
import os
import sys
from pathlib import Path

V = Path(__file__).resolve().parent.parent
OUT = V / "lean" / "GscribModel" / "Gen" / "SocketSrc.lean"
SOURCE = "gscrib/printrun/device.py"
METHODS = ["_readline_buf", "_readline_socket"]            # in dependency order
FIELDS = {"_read_buffer": "LBytes", "_is_connected": "Bool"}
LEAN_TY = {"Bytes": "Bytes", "LBytes": "List Bytes", "Int": "Int", "Bool": "Bool", "OptBytes": "Option Bytes", "None": "Option Bytes"}


class Unsupported(Exception):
    pass


def fail(node, what):
    raise Unsupported(f"line {getattr(node, 'lineno', '?')}: {what}")


LEAN_KW = set("""at by do end fun from have if in let match mut open show then else where with calc deriving export extends
for forall exists import instance local macro namespace notation obtain private protected section structure suffices syntax
theorem def example class inductive universe variable using return unless try catch finally nomatch nofun this at Type Sort Prop
p ps rest script continue_ self Device Pass PyErr Bytes Int Bool Option List Except SockPy""".split())


def is_doc(st):
    return isinstance(st, ast.Expr) and isinstance(st.value, ast.Constant) and isinstance(st.value.value, str)


def self_attr(e):
    """`self.X` -> X"""
    if isinstance(e, ast.Attribute) and isinstance(e.value, ast.Name) and e.value.id == "self":
        return e.attr
    return None


def source_order(node):
    """all nodes below `node`, in source (field) order"""
    out = []

    def visit(n):
        out.append(n)
        for c in ast.iter_child_nodes(n):
            visit(c)
    visit(node)
    return out


class Ctx:
    """translation context of one method"""

    def __init__(self, name):
        self.name = name
        self.ret_types = []          # types of the returned expressions, in translation order
        self.ret_type = None         # decided type (second pass)
        self.in_loop = False
        self.world = False           # the method has a socket loop
        self.env_calls = {}          # id(ast node) -> index of the read / select call in the loop body
        self.tmp = 0
        self.aux = []                # definitions to emit before the method (loop body, loop)
        self.carried = set()         # locals assigned in the loop (not visible at the start of a trip)


class T:
    def __init__(self, repo):
        path = repo / SOURCE
        if not path.exists():
            raise Unsupported(f"{SOURCE} not found")
        tree = ast.parse(path.read_text())
        self.consts = {}             # module constants NAME = b'..' | None  -> (lean text, type, line)
        for n in tree.body:
            if isinstance(n, ast.Assign) and len(n.targets) == 1 and isinstance(n.targets[0], ast.Name) and isinstance(n.value, ast.Constant):
                v = n.value.value
                if v is None:
                    self.consts[n.targets[0].id] = ("(none : Option Bytes)", "None", n.lineno)
                elif isinstance(v, bytes):
                    self.consts[n.targets[0].id] = (self.bytes_lit(v), "Bytes", n.lineno)
        cls = [n for n in tree.body if isinstance(n, ast.ClassDef) and n.name == "Device"]
        if len(cls) != 1:
            raise Unsupported("class Device not found")
        self.methods = {}
        for n in cls[0].body:
            if isinstance(n, ast.FunctionDef):
                if n.name in self.methods:
                    fail(n, f"Device.{n.name} defined twice")
                self.methods[n.name] = n
        self.used_consts = set()
        self.used_fields = set()
        self.sigs = {}               # translated method -> (return type, world)

    @staticmethod
    def bytes_lit(b):
        return "([" + ", ".join(str(x) for x in b) + "] : Bytes)"

    # ------------------------------------------------------------------ expressions
    def truth(self, e, env, cx):
        t, ty = self.expr(e, env, cx)
        if ty == "Bool":
            return t
        if ty in ("Bytes", "LBytes"):
            return f"(SockPy.truthy {t})"
        if ty == "OptBytes":
            return f"(SockPy.truthyOpt {t})"
        if ty == "None":
            return "false"
        if ty == "Int":
            return f"(decide ({t} ≠ 0))"
        fail(e, f"truthiness of {ty}")

    def expr(self, e, env, cx):
        """-> (text, type)"""
        if isinstance(e, ast.Constant):
            v = e.value
            if v is None:
                return "(none : Option Bytes)", "None"
            if isinstance(v, bool):
                return ("true" if v else "false"), "Bool"
            if isinstance(v, int):
                return f"({v} : Int)", "Int"
            if isinstance(v, bytes):
                return self.bytes_lit(v), "Bytes"
            fail(e, f"constant {v!r}")
        if isinstance(e, ast.Name):
            if e.id in env:
                return e.id, env[e.id]
            if e.id in cx.carried:
                fail(e, f"local {e.id} is assigned in the loop and read before it is assigned (carried from one trip to the next)")
            if e.id in self.consts:
                self.used_consts.add(e.id)
                return e.id, self.consts[e.id][1]
            fail(e, f"unknown name {e.id}")
        f = self_attr(e)
        if f is not None:
            if f in FIELDS:
                self.used_fields.add(f)
                return f"self.{f}", FIELDS[f]
            fail(e, f"attribute self.{f}")
        if isinstance(e, ast.UnaryOp):
            if isinstance(e.op, ast.Not):
                return f"(!{self.truth(e.operand, env, cx)})", "Bool"
            if isinstance(e.op, ast.USub):
                t, ty = self.expr(e.operand, env, cx)
                if ty == "Int":
                    return f"(-{t})", "Int"
            fail(e, f"unary operator in {ast.unparse(e)}")
        if isinstance(e, ast.BinOp):
            a, ta = self.expr(e.left, env, cx)
            b, tb = self.expr(e.right, env, cx)
            if isinstance(e.op, ast.Add) and ta == tb == "Bytes":
                return f"({a} ++ {b})", "Bytes"
            if isinstance(e.op, ast.Add) and ta == tb == "Int":
                return f"({a} + {b})", "Int"
            if isinstance(e.op, ast.Sub) and ta == tb == "Int":
                return f"({a} - {b})", "Int"
            fail(e, f"operator in {ast.unparse(e)} on {ta}, {tb}")
        if isinstance(e, ast.BoolOp):
            parts = [self.truth(v, env, cx) for v in e.values]
            return "(" + (" && " if isinstance(e.op, ast.And) else " || ").join(parts) + ")", "Bool"
        if isinstance(e, ast.Compare):
            ops = [e.left] + list(e.comparators)
            out = []
            for a, op, b in zip(ops, e.ops, ops[1:]):
                ta, tya = self.expr(a, env, cx)
                tb, tyb = self.expr(b, env, cx)
                if isinstance(op, (ast.Is, ast.IsNot)):
                    if tyb == "None" and tya in ("OptBytes", "None"):
                        x = ta
                    elif tya == "None" and tyb == "OptBytes":
                        x = tb
                    elif "None" in (tya, tyb):
                        # the other side can never be None
                        out.append("false" if isinstance(op, ast.Is) else "true")
                        continue
                    else:
                        fail(e, f"`is` between {tya} and {tyb} (identity of objects is not modelled)")
                    out.append(f"{x}.isNone" if isinstance(op, ast.Is) else f"{x}.isSome")
                    continue
                sym = {ast.Eq: "=", ast.NotEq: "≠", ast.Lt: "<", ast.LtE: "≤", ast.Gt: ">", ast.GtE: "≥"}.get(type(op))
                if sym is None:
                    fail(e, f"operator in {ast.unparse(e)}")
                if tya == tyb == "Int" or (tya == tyb == "Bytes" and sym in ("=", "≠")):
                    out.append(f"(decide ({ta} {sym} {tb}))")
                else:
                    fail(e, f"comparison of {tya} with {tyb}")
            return ("(" + " && ".join(out) + ")") if len(out) > 1 else out[0], "Bool"
        if isinstance(e, ast.List):
            parts = []
            for el in e.elts:
                t, ty = self.expr(el, env, cx)
                if ty != "Bytes":
                    fail(e, f"list element of type {ty}")
                parts.append(t)
            return ("[]" if not parts else "[" + ", ".join(parts) + "]"), "LBytes"
        if isinstance(e, ast.Subscript):
            x, tx = self.expr(e.value, env, cx)
            if tx not in ("Bytes", "LBytes"):
                fail(e, f"subscript of {tx}")
            if isinstance(e.slice, ast.Slice):
                if e.slice.step is not None:
                    fail(e, "slice with a step")
                lo = hi = None
                if e.slice.lower is not None:
                    lo, tl = self.expr(e.slice.lower, env, cx)
                    if tl != "Int":
                        fail(e, "slice bound is not an int")
                if e.slice.upper is not None:
                    hi, th = self.expr(e.slice.upper, env, cx)
                    if th != "Int":
                        fail(e, "slice bound is not an int")
                if lo is None and hi is None:
                    return x, tx
                if lo is None:
                    return f"(SockPy.sliceTo {x} {hi})", tx
                if hi is None:
                    return f"(SockPy.sliceFrom {x} {lo})", tx
                return f"(SockPy.slice {x} {lo} {hi})", tx
            fail(e, "indexing is only translated as a whole assignment `x = l[i]` of a list element")
        if isinstance(e, ast.Call):
            fn = e.func
            if e.keywords:
                fail(e, "keyword arguments")
            if isinstance(fn, ast.Name) and fn.id == "len" and len(e.args) == 1 and "len" not in env:
                x, tx = self.expr(e.args[0], env, cx)
                if tx in ("Bytes", "LBytes"):
                    return f"(SockPy.len {x})", "Int"
                fail(e, f"len of {tx}")
            if isinstance(fn, ast.Attribute):
                owner = self_attr(fn.value)
                if owner == "_socketfile" and fn.attr == "read" and len(e.args) == 1:
                    if id(e) not in cx.env_calls:
                        fail(e, "self._socketfile.read outside the `while True:` loop")
                    n, tn = self.expr(e.args[0], env, cx)
                    if tn != "Int":
                        fail(e, "read size is not an int")
                    return f"(p.read {cx.env_calls[id(e)]} {n})", "OptBytes"
                if owner == "_selector" and fn.attr == "select" and len(e.args) <= 1:
                    if id(e) not in cx.env_calls:
                        fail(e, "self._selector.select outside the `while True:` loop")
                    for a in e.args:
                        if not isinstance(a, (ast.Name, ast.Attribute, ast.Constant)):
                            fail(e, "argument of select")
                    return f"(p.select {cx.env_calls[id(e)]})", "Bool"
                if fn.attr == "find" and len(e.args) == 1:
                    x, tx = self.expr(fn.value, env, cx)
                    s, ts = self.expr(e.args[0], env, cx)
                    if tx == ts == "Bytes":
                        return f"(SockPy.find {x} {s})", "Int"
                    fail(e, f"find on {tx} with {ts}")
                if fn.attr == "join" and len(e.args) == 1:
                    s, ts = self.expr(fn.value, env, cx)
                    x, tx = self.expr(e.args[0], env, cx)
                    if ts == "Bytes" and tx == "LBytes":
                        return f"(SockPy.join {s} {x})", "Bytes"
                    fail(e, f"join of {tx} with separator {ts}")
            fail(e, f"call {ast.unparse(e)}")
        fail(e, f"expression {ast.unparse(e)}")

    # ------------------------------------------------------------------ statements
    def ret(self, text, ty, cx, node):
        """render `return <text>`"""
        cx.ret_types.append(ty)
        if cx.ret_type is not None and ty != cx.ret_type:
            if cx.ret_type == "OptBytes" and ty == "Bytes":
                text = f"(some {text})"
            elif cx.ret_type == "OptBytes" and ty == "None":
                pass
            else:
                fail(node, f"return of {ty} in a method returning {cx.ret_type}")
        tail = ""
        if cx.world:
            tail = ", rest" if cx.in_loop else ", script"
        return f"pure ({text}, self{tail})"

    def block(self, stmts, env, fall, ind, cx):
        """translate `stmts`; `fall(env, ind)` renders what happens when control leaves the block at its end"""
        stmts = [s for s in stmts if not is_doc(s)]
        if not stmts:
            return fall(env, ind)
        st, rest = stmts[0], stmts[1:]
        pad = " " * ind

        def nxt(env2, ind2):
            return self.block(rest, env2, fall, ind2, cx)

        if isinstance(st, ast.Return):
            if rest:
                fail(rest[0], "statement after return")
            if st.value is None:
                t, ty = "(none : Option Bytes)", "None"
            else:
                t, ty = self.expr(st.value, env, cx)
            return [pad + self.ret(t, ty, cx, st)]
        if isinstance(st, ast.If):
            c = self.truth(st.test, env, cx)
            return ([f"{pad}if {c} then"] + self.block(st.body, dict(env), nxt, ind + 2, cx)
                    + [f"{pad}else"] + self.block(st.orelse, dict(env), nxt, ind + 2, cx))
        if isinstance(st, ast.Assign) and len(st.targets) == 1:
            tg = st.targets[0]
            if isinstance(tg, ast.Name):
                if tg.id in LEAN_KW or tg.id in self.consts or not tg.id.isascii():
                    fail(st, f"a local called {tg.id} (reserved in the generated Lean text, or a module constant)")
                v = st.value
                # x = self.m()
                if isinstance(v, ast.Call) and self_attr(v.func) in self.sigs and not v.args and not v.keywords:
                    m = self_attr(v.func)
                    rty, world = self.sigs[m]
                    if world:
                        fail(st, f"call of {m}, which reads the socket")
                    cx.tmp += 1
                    r = f"r{cx.tmp}'"
                    env = dict(env)
                    env[tg.id] = rty
                    return [f"{pad}let {r} ← {m} self", f"{pad}let {tg.id} : {LEAN_TY[rty]} := {r}.1",
                            f"{pad}let self : Device := {r}.2"] + nxt(env, ind)
                # x = l[i]
                if isinstance(v, ast.Subscript) and not isinstance(v.slice, ast.Slice):
                    l, tl = self.expr(v.value, env, cx)
                    i, ti = self.expr(v.slice, env, cx)
                    if tl != "LBytes" or ti != "Int":
                        fail(st, f"indexing {tl} with {ti}")
                    env = dict(env)
                    env[tg.id] = "Bytes"
                    return [f"{pad}let {tg.id} : Bytes ← SockPy.getItem {l} {i}"] + nxt(env, ind)
                t, ty = self.expr(v, env, cx)
                if ty == "LBytes" and self_attr(v) is not None:
                    fail(st, "a local aliasing the list self._read_buffer")
                env = dict(env)
                env[tg.id] = ty
                return [f"{pad}let {tg.id} : {LEAN_TY[ty]} := {t}"] + nxt(env, ind)
            f = self_attr(tg)
            if f is not None:
                if f not in FIELDS:
                    fail(st, f"assignment to self.{f}")
                self.used_fields.add(f)
                t, ty = self.expr(st.value, env, cx)
                if ty != FIELDS[f]:
                    fail(st, f"self.{f} assigned a value of type {ty}")
                if ty == "LBytes" and not (isinstance(st.value, ast.List) or t == "[]"):
                    fail(st, "self._read_buffer assigned something else than a fresh list")
                return [f"{pad}let self : Device := {{ self with {f} := {t} }}"] + nxt(env, ind)
            fail(st, f"assignment target {ast.unparse(tg)}")
        if isinstance(st, ast.Expr) and isinstance(st.value, ast.Call):
            c = st.value
            if (isinstance(c.func, ast.Attribute) and c.func.attr == "append" and self_attr(c.func.value) == "_read_buffer"
                    and len(c.args) == 1 and not c.keywords):
                self.used_fields.add("_read_buffer")
                t, ty = self.expr(c.args[0], env, cx)
                pre = []
                if ty == "OptBytes":
                    cx.tmp += 1
                    pre = [f"{pad}let b{cx.tmp}' : Bytes ← SockPy.asBytes {t}"]
                    t = f"b{cx.tmp}'"
                elif ty != "Bytes":
                    fail(st, f"appending a value of type {ty} to the buffer")
                return pre + [f"{pad}let self : Device := {{ self with _read_buffer := self._read_buffer ++ [{t}] }}"] + nxt(env, ind)
            fail(st, f"call statement {ast.unparse(st)[:60]}")
        if isinstance(st, ast.While):
            return self.loop(st, rest, env, ind, cx)
        fail(st, f"statement {ast.unparse(st)[:60]}")

    def loop(self, st, rest, env, ind, cx):
        if not (isinstance(st.test, ast.Constant) and st.test.value is True) or st.orelse:
            fail(st, "only `while True:` without else is translated")
        if rest:
            fail(rest[0], "statement after `while True:`")
        if cx.in_loop or cx.aux:
            fail(st, "a second loop")
        nodes = source_order(st)
        for n in nodes:
            if isinstance(n, (ast.Break, ast.Continue, ast.While, ast.For, ast.FunctionDef, ast.Lambda, ast.Try, ast.With)) and n is not st:
                fail(n, f"{type(n).__name__} inside the loop")
        reads = selects = 0
        for n in nodes:
            if isinstance(n, ast.Call) and isinstance(n.func, ast.Attribute):
                owner = self_attr(n.func.value)
                if owner == "_socketfile" and n.func.attr == "read":
                    cx.env_calls[id(n)] = reads
                    reads += 1
                elif owner == "_selector" and n.func.attr == "select":
                    cx.env_calls[id(n)] = selects
                    selects += 1
        if reads > 2 or selects > 1:
            fail(st, f"{reads} reads / {selects} selects in the loop body (a pass answers at most 2 / 1)")
        if reads == 0:
            fail(st, "a `while True:` loop that does not read the socket")
        assigned = {t.id for n in nodes if isinstance(n, ast.Assign) for t in n.targets if isinstance(t, ast.Name)}
        read_names = {n.id for n in nodes if isinstance(n, ast.Name) and isinstance(n.ctx, ast.Load)}
        params = [(k, ty) for k, ty in env.items() if k in read_names and k not in assigned and ty != "None"]
        nones = [k for k, ty in env.items() if k in read_names and k not in assigned and ty == "None"]   # statically None: re-bound in the body
        cx.carried = {k for k in env if k in assigned}
        body_env = dict(params, **{k: "None" for k in nones})
        cx.in_loop = True
        RT = "{RT}"      # the return type is decided after the first pass
        body = self.block(st.body, body_env, lambda env2, ind2: [" " * ind2 + "continue_ self"], 2, cx)
        cx.in_loop = False
        cx.carried = set()
        psig = "".join(f" ({k} : {LEAN_TY[ty]})" for k, ty in params)
        pargs = "".join(f" {k}" for k, _ in params)
        m = cx.name
        cx.aux = [
            f"/-- `Device.{m}`: one trip through the body of the `while True:` loop (source line {st.lineno}) -/",
            f"def {m}_body (self : Device){psig} (p : Pass) (rest : List Pass)",
            f"    (continue_ : Device → Except PyErr ({RT} × Device × List Pass)) : Except PyErr ({RT} × Device × List Pass) := do",
            *[f"  let {k} : Option Bytes := (none : Option Bytes)" for k in nones],
            *body,
            "",
            f"/-- `Device.{m}`: the `while True:` loop (source line {st.lineno}) over the script of passes -/",
            f"def {m}_loop (self : Device){psig} : List Pass → Except PyErr ({RT} × Device × List Pass)",
            f"  | [] => {m}_body self{pargs} SockPy.Pass.idle [] (fun _ => .error .scriptExhausted)",
            f"  | p :: ps => {m}_body self{pargs} p ps (fun self => {m}_loop self{pargs} ps)",
            "",
        ]
        return [" " * ind + f"{m}_loop self{pargs} script"]

    def method(self, name):
        m = self.methods.get(name)
        if m is None:
            raise Unsupported(f"Device.{name} not found")
        a = m.args
        if [x.arg for x in a.args] != ["self"] or a.vararg or a.kwarg or a.kwonlyargs or a.posonlyargs or m.decorator_list:
            fail(m, f"signature of {name}")
        body = [s for s in m.body if not is_doc(s)]
        world = any(isinstance(n, ast.While) for n in source_order(m))
        # one outermost try/except OSError
        tries = [s for s in body if isinstance(s, ast.Try)]
        if tries:
            tr = tries[0]
            if len(tries) > 1 or body[-1] is not tr:
                fail(tr, "try must be the last statement of the method")
            if tr.orelse or tr.finalbody or len(tr.handlers) != 1:
                fail(tr, "try with else / finally / several handlers")
            h = tr.handlers[0]
            if not (isinstance(h.type, ast.Name) and h.type.id == "OSError"):
                fail(h, "handler for something else than exactly OSError")
            body = body[:-1] + list(tr.body)
        for n in source_order(ast.Module(body=body, type_ignores=[])):
            if isinstance(n, ast.Try):
                fail(n, "nested try")

        def run(ret_type):
            cx = Ctx(name)
            cx.carried = set()
            cx.ret_type = ret_type
            cx.world = world
            lines = self.block(body, {}, lambda env2, ind2: [" " * ind2 + self.ret("(none : Option Bytes)", "None", cx, m)], 2, cx)
            return cx, lines

        cx, _ = run(None)
        tys = set(cx.ret_types)
        if len(tys) == 1:
            rty = tys.pop()
        elif tys <= {"Bytes", "None", "OptBytes"}:
            rty = "OptBytes"
        else:
            fail(m, f"returns values of types {sorted(tys)}")
        cx, lines = run(rty)
        self.sigs[name] = (rty, world)
        RT = LEAN_TY[rty]
        out = [l.replace("{RT}", RT) for l in cx.aux]
        if world:
            out += [f"/-- `Device.{name}` (source line {m.lineno}) -/",
                    f"def {name} (self : Device) (script : List Pass) : Except PyErr ({RT} × Device × List Pass) := do"]
        else:
            out += [f"/-- `Device.{name}` (source line {m.lineno}) -/",
                    f"def {name} (self : Device) : Except PyErr ({RT} × Device) := do"]
        return "\n".join(out + lines) + "\n"

    def init_values(self):
        init = self.methods.get("__init__")
        if init is None:
            raise Unsupported("Device.__init__ not found")
        vals = {}
        order = []
        for st in init.body:          # top-level statements of __init__ only
            if isinstance(st, ast.Assign) and len(st.targets) == 1 and self_attr(st.targets[0]) in FIELDS:
                f = self_attr(st.targets[0])
                if f in vals:
                    fail(st, f"self.{f} initialised twice")
                v = st.value
                if FIELDS[f] == "LBytes" and isinstance(v, ast.List) and not v.elts:
                    vals[f] = "[]"
                elif FIELDS[f] == "Bool" and isinstance(v, ast.Constant) and isinstance(v.value, bool):
                    vals[f] = "true" if v.value else "false"
                else:
                    fail(st, f"initial value of self.{f}")
                order.append(f)
        for n in source_order(init):
            if isinstance(n, (ast.Assign, ast.AugAssign, ast.AnnAssign)):
                tgs = n.targets if isinstance(n, ast.Assign) else [n.target]
                for tg in tgs:
                    if self_attr(tg) in FIELDS and not (isinstance(n, ast.Assign) and n in init.body):
                        fail(n, f"self.{self_attr(tg)} assigned in a nested statement of __init__")
        return init.lineno, order, vals

    def check_buffer_owners(self):
        """the read buffer belongs to the translated methods: no other method of `Device` (an error path, a clean-up helper, `connect`,
        `disconnect`) may assign it or call a mutating method on it - what was received stays until `readline()` hands it over"""
        for name, m in self.methods.items():
            if name in METHODS or name == "__init__":
                continue
            for n in ast.walk(m):
                tgs = []
                if isinstance(n, (ast.Assign, ast.AugAssign, ast.AnnAssign, ast.Delete)):
                    tgs = n.targets if isinstance(n, (ast.Assign, ast.Delete)) else [n.target]
                if isinstance(n, ast.Call) and isinstance(n.func, ast.Attribute) and self_attr(n.func.value) == "_read_buffer":
                    fail(n, f"Device.{name} calls _read_buffer.{n.func.attr}(): the buffer is expected to be touched by {METHODS} only")
                for tg in tgs:
                    base = tg.value if isinstance(tg, ast.Subscript) else tg
                    if self_attr(base) == "_read_buffer":
                        fail(n, f"Device.{name} assigns self._read_buffer: the buffer is expected to be touched by {METHODS} only")
                if isinstance(n, ast.Call) and isinstance(n.func, ast.Name) and n.func.id in ("setattr", "delattr") and len(n.args) >= 2 \
                        and isinstance(n.args[1], ast.Constant) and n.args[1].value == "_read_buffer":
                    fail(n, f"Device.{name}: {n.func.id}(..., '_read_buffer')")

    def render(self):
        self.check_buffer_owners()
        methods = [self.method(n) for n in METHODS]
        line, order, vals = self.init_values()
        fields = [f for f in order if f in self.used_fields]
        missing = sorted(self.used_fields - set(fields))
        if missing:
            raise Unsupported(f"attributes {missing} are not initialised by a constant in Device.__init__")
        out = [f"/- GENERATED by tools/gen_socket.py from {SOURCE} (source text, by AST). Do not edit. -/",
               "import GscribModel.Model.SocketPrelude", "namespace GscribModel.Gen.SocketSrc",
               "open GscribModel GscribModel.Socket", "open GscribModel.SockPy (PyErr Pass)",
               "set_option linter.unusedVariables false", ""]
        for k, (t, ty, ln) in self.consts.items():
            if k in self.used_consts:
                out += [f"/-- module constant `{k}` (source line {ln}) -/", f"def {k} : {LEAN_TY[ty]} := {t}", ""]
        out += ["/-- the attributes of `Device` that the translated methods read or assign -/", "structure Device where"]
        out += [f"  {f} : {LEAN_TY[FIELDS[f]]}" for f in fields]
        out += ["deriving Repr, DecidableEq", "",
                f"/-- their values after `Device.__init__` (source line {line}) -/",
                "def Device.init : Device := { " + ", ".join(f"{f} := {vals[f]}" for f in fields) + " }", ""]
        out += methods
        out.append("end GscribModel.Gen.SocketSrc")
        return "\n".join(out) + "\n"


def main():
    args = [a for a in sys.argv[1:] if not a.startswith("--")]
    if "--out" in sys.argv:
        o = sys.argv[sys.argv.index("--out") + 1]
        args = [a for a in args if a != o]
    repo = Path(args[0] if args else os.environ.get("GSCRIB_REPO", "/repo"))
    try:
        text = T(repo).render()
    except Unsupported as e:
        print("gen_socket: the source is outside the translated subset:", e, file=sys.stderr)
        raise SystemExit(3)
    except SyntaxError as e:
        print("gen_socket: the source does not parse:", e, file=sys.stderr)
        raise SystemExit(3)
    if "--stdout" in sys.argv:
        sys.stdout.write(text)
        return
    out = Path(sys.argv[sys.argv.index("--out") + 1]) if "--out" in sys.argv else OUT
    out.parent.mkdir(parents=True, exist_ok=True)
    if not out.exists() or out.read_text() != text:
        out.write_text(text)
        print("gen_socket: rewrote", out)


if __name__ == "__main__":
    main()

#!/usr/bin/env python3
"""Translator: gscrib/hooks/extrusion_hook.py (the `extrusion_hook` factory and the hook it returns)
->  GscribModel/Gen/HookSrc.lean

The bundled extrusion hook is what C20 ("extrusion matches path length") is about: the builder model describes it as
`Hook.extrude k` - `E := k * h`, plus the remembered E in absolute extrusion mode.  Here the source text is read by AST
(nothing is imported or executed) and written out statement by statement:

    extrusion_hook (pi) (layer_height nozzle_diameter filament_diameter : Rat) : Closure
        -- the factory: its assignments in source order; the result is the record of the locals the inner function captures
    hook_function (c : Closure) (hypot : Rat -> Rat -> Rat) (origin target : P3) (params : VParams) (state : GState) : Option VParams
        -- the inner function; `none` = ZeroDivisionError

`Props/HookTie.lean` proves `hook_function` equal to the model's `Hook.apply ... (.extrude k)` with
`k = nozzle * layer / (pi * (filament / 2)^2)` and `h = hypot (dx) (dy)`.

Subset (anything else makes the translator refuse, exit 3):
  factory     `@typechecked def extrusion_hook(<name>: float, ...) -> Callable:` docstring; `name = <arith>` (each name assigned
              once); then exactly one inner `def f(origin, target, params, state)`; then `return f`
  inner       `name = <arith>`; `name = target - origin` (points); `name = a / b` with a non-literal divisor (ZeroDivisionError
              when b == 0); `name += / -= / *= <arith>`; `if state.extrusion_mode == / != ExtrusionMode.MEMBER: ... [else: ...]`
              (the rest of the function continues in both branches); `params.update(KEY=<arith>)`; `return params`
  <arith>     names; int / float literals (a float literal denotes the decimal it is written as); `math.pi` (factory only: the
              parameter `pi`); `+ - *`, unary `-`; `/` by a non-zero literal; `p.x / p.y / p.z` of a point;
              `math.hypot(a, b)` (inner only: the parameter `hypot`); `state.get_parameter("K") or <literal>`
Assumptions (trusted, see Model/HookPrelude.lean): exact arithmetic on rationals; typeguard has restricted the factory's
arguments to floats; the hook is given resolved points, the `ParamsDict` of the move and the `GState`.

usage: gen_hook.py [repo_root] [--out FILE | --stdout]
"""
import ast
import os
import sys
from fractions import Fraction
from pathlib import Path

V = Path(__file__).resolve().parent.parent
OUT = V / "lean" / "GscribModel" / "Gen" / "HookSrc.lean"
RESERVED = {"c", "pi", "hypot", "math", "state_", "some", "none"}
OPS = {ast.Add: "+", ast.Sub: "-", ast.Mult: "*"}


class Unsupported(Exception):
    pass


def fail(node, what):
    raise Unsupported(f"line {getattr(node, 'lineno', '?')}: {what}")


def is_doc(st):
    return isinstance(st, ast.Expr) and isinstance(st.value, ast.Constant) and isinstance(st.value.value, str)


def number(e):
    """a numeric literal (possibly negated) -> Fraction, else None"""
    if isinstance(e, ast.UnaryOp) and isinstance(e.op, ast.USub):
        v = number(e.operand)
        return None if v is None else -v
    if isinstance(e, ast.Constant) and not isinstance(e.value, bool) and isinstance(e.value, (int, float)):
        return Fraction(repr(e.value)) if isinstance(e.value, float) else Fraction(e.value)
    return None


def lit(f):
    if f.denominator == 1:
        return str(f.numerator) if f >= 0 else f"({f.numerator})"
    return f"(({f.numerator} : Rat) / {f.denominator})"


def is_math(e, attr):
    return isinstance(e, ast.Attribute) and e.attr == attr and isinstance(e.value, ast.Name) and e.value.id == "math"


class T:
    def __init__(self, repo):
        tree = ast.parse((repo / "gscrib" / "hooks" / "extrusion_hook.py").read_text())
        fns = [n for n in tree.body if isinstance(n, ast.FunctionDef)]
        if len(fns) != 1 or fns[0].name != "extrusion_hook":
            raise Unsupported("exactly one module-level function `extrusion_hook` expected")
        for st in tree.body:
            if not (isinstance(st, (ast.Import, ast.ImportFrom)) or is_doc(st) or st is fns[0]):
                fail(st, f"module-level statement {ast.unparse(st)[:40]}")
        self.f = fns[0]
        self.inner = False
        self.captured = []

    # -- expressions -----------------------------------------------------------------------------------------------
    def arith(self, e, env):
        """-> (text, type) with type in {"Q", "P3"}"""
        n = number(e)
        if n is not None:
            return lit(n), "Q"
        if isinstance(e, ast.Name):
            if e.id in env:
                return e.id, env[e.id]
            if self.inner and e.id in self.outer_env:
                if e.id not in self.captured:
                    self.captured.append(e.id)
                return f"c.{e.id}", self.outer_env[e.id]
            fail(e, f"unknown name {e.id}")
        if is_math(e, "pi"):
            if self.inner:
                fail(e, "math.pi inside the inner function")
            return "pi", "Q"
        if isinstance(e, ast.Attribute) and isinstance(e.value, ast.Name) and e.attr in ("x", "y", "z"):
            t, ty = self.arith(e.value, env)
            if ty != "P3":
                fail(e, f"{e.value.id} is not a point")
            return f"{t}.{e.attr}", "Q"
        if isinstance(e, ast.UnaryOp) and isinstance(e.op, ast.USub):
            t, ty = self.arith(e.operand, env)
            if ty != "Q":
                fail(e, "negation of a non-number")
            return f"(-{t})", "Q"
        if isinstance(e, ast.BinOp) and type(e.op) in OPS:
            a, ta = self.arith(e.left, env)
            b, tb = self.arith(e.right, env)
            if ta == tb == "Q":
                return f"({a} {OPS[type(e.op)]} {b})", "Q"
            if ta == tb == "P3" and isinstance(e.op, ast.Sub):
                return f"(P3.sub {a} {b})", "P3"
            fail(e, f"{ast.unparse(e)}: operands of types {ta}, {tb}")
        if isinstance(e, ast.BinOp) and isinstance(e.op, ast.Div):
            d = number(e.right)
            if d is None or d == 0:
                fail(e, "division by something that is not a non-zero literal inside an expression")
            a, ta = self.arith(e.left, env)
            if ta != "Q":
                fail(e, "division of a non-number")
            return f"({a} / {lit(d)})", "Q"
        if isinstance(e, ast.Call) and is_math(e.func, "hypot") and len(e.args) == 2 and not e.keywords:
            if not self.inner:
                fail(e, "math.hypot in the factory")
            parts = [self.arith(a, env) for a in e.args]
            if any(ty != "Q" for _, ty in parts):
                fail(e, "math.hypot of non-numbers")
            return f"(hypot {parts[0][0]} {parts[1][0]})", "Q"
        if isinstance(e, ast.BoolOp) and isinstance(e.op, ast.Or) and len(e.values) == 2:
            a, d = e.values
            dv = number(d)
            if (self.inner and dv is not None and isinstance(a, ast.Call) and isinstance(a.func, ast.Attribute) and a.func.attr == "get_parameter"
                    and isinstance(a.func.value, ast.Name) and env.get(a.func.value.id) == "State" and len(a.args) == 1 and not a.keywords
                    and isinstance(a.args[0], ast.Constant) and isinstance(a.args[0].value, str) and a.args[0].value.isalpha()):
                return f'(pyOr ({a.func.value.id}.get_parameter "{a.args[0].value.upper()}") {lit(dv)})', "Q"
        fail(e, f"expression {ast.unparse(e)}")

    def cond(self, e, env):
        if (isinstance(e, ast.Compare) and len(e.ops) == 1 and isinstance(e.ops[0], (ast.Eq, ast.NotEq))
                and isinstance(e.left, ast.Attribute) and e.left.attr == "extrusion_mode" and isinstance(e.left.value, ast.Name)
                and env.get(e.left.value.id) == "State"):
            r = e.comparators[0]
            if isinstance(r, ast.Attribute) and isinstance(r.value, ast.Name) and r.value.id == "ExtrusionMode" and r.attr.isupper():
                rel = "=" if isinstance(e.ops[0], ast.Eq) else "≠"
                return f"decide ({e.left.value.id}.extrusion_mode {rel} ExtrusionMode.{r.attr})"
        fail(e, f"condition {ast.unparse(e)}")

    # -- the inner function ----------------------------------------------------------------------------------------
    def seq(self, stmts, env, ind):
        pad = "  " * ind
        stmts = [s for s in stmts if not is_doc(s)]
        if not stmts:
            raise Unsupported("the hook falls off its end (returns None)")
        st, rest = stmts[0], stmts[1:]
        if isinstance(st, ast.Return):
            if isinstance(st.value, ast.Name) and env.get(st.value.id) == "Params":
                return [pad + f"some {st.value.id}"]
            fail(st, "the hook must return its parameters")
        if isinstance(st, ast.If):
            c = self.cond(st.test, env)
            return ([pad + f"if {c} then"] + self.seq(list(st.body) + rest, dict(env), ind + 1)
                    + [pad + "else"] + self.seq(list(st.orelse) + rest, dict(env), ind + 1))
        if isinstance(st, ast.Assign) and len(st.targets) == 1 and isinstance(st.targets[0], ast.Name):
            name, v = st.targets[0].id, st.value
            if name in RESERVED or name in self.outer_env or env.get(name) in ("Params", "State"):
                fail(st, f"assignment to {name}")
            if isinstance(v, ast.BinOp) and isinstance(v.op, ast.Div) and number(v.right) is None:
                a, ta = self.arith(v.left, env)
                b, tb = self.arith(v.right, env)
                if ta != "Q" or tb != "Q" or env.get(name, "Q") != "Q":
                    fail(st, "division of non-numbers")
                env2 = dict(env, **{name: "Q"})
                return ([pad + f"match pyDiv {a} {b} with", pad + "| none => none", pad + f"| some {name} =>"] + self.seq(rest, env2, ind + 1))
            t, ty = self.arith(v, env)
            if env.get(name, ty) != ty:
                fail(st, f"{name} changes its type")
            env2 = dict(env, **{name: ty})
            return [pad + f"let {name} : {'Rat' if ty == 'Q' else 'P3'} := {t}"] + self.seq(rest, env2, ind)
        if isinstance(st, ast.AugAssign) and isinstance(st.target, ast.Name) and type(st.op) in OPS:
            name = st.target.id
            if env.get(name) != "Q":
                fail(st, f"augmented assignment to {name}")
            t, ty = self.arith(st.value, env)
            if ty != "Q":
                fail(st, "augmented assignment of a non-number")
            return [pad + f"let {name} : Rat := ({name} {OPS[type(st.op)]} {t})"] + self.seq(rest, env, ind)
        if isinstance(st, ast.Expr) and isinstance(st.value, ast.Call):
            c = st.value
            if (isinstance(c.func, ast.Attribute) and c.func.attr == "update" and isinstance(c.func.value, ast.Name)
                    and env.get(c.func.value.id) == "Params" and not c.args and len(c.keywords) == 1 and c.keywords[0].arg
                    and c.keywords[0].arg.isalpha()):
                t, ty = self.arith(c.keywords[0].value, env)
                if ty != "Q":
                    fail(st, "parameter value that is not a number")
                p = c.func.value.id
                return [pad + f'let {p} : VParams := setV {p} "{c.keywords[0].arg.upper()}" (Val.fin {t})'] + self.seq(rest, env, ind)
        fail(st, f"statement {ast.unparse(st)[:60]}")

    def render(self):
        f = self.f
        if [ast.unparse(d) for d in f.decorator_list] != ["typechecked"]:
            fail(f, "decorators of extrusion_hook")
        a = f.args
        if a.vararg or a.kwarg or a.kwonlyargs or a.defaults or a.posonlyargs:
            fail(f, "signature of extrusion_hook")
        env = {}
        for p in a.args:
            if p.arg in RESERVED or not p.annotation or ast.unparse(p.annotation) != "float":
                fail(f, f"parameter {p.arg}")
            env[p.arg] = "Q"
        params = list(env)
        body = [s for s in f.body if not is_doc(s)]
        if len(body) < 2 or not isinstance(body[-2], ast.FunctionDef) or not isinstance(body[-1], ast.Return):
            fail(f, "the factory must end with the inner function and `return <inner function>`")
        g, ret = body[-2], body[-1]
        if not (isinstance(ret.value, ast.Name) and ret.value.id == g.name):
            fail(ret, "the factory must return the inner function")
        lines, order = [], []
        for st in body[:-2]:
            if not (isinstance(st, ast.Assign) and len(st.targets) == 1 and isinstance(st.targets[0], ast.Name)):
                fail(st, f"factory statement {ast.unparse(st)[:50]}")
            name = st.targets[0].id
            if name in env or name in RESERVED:
                fail(st, f"{name} is assigned twice / reserved")
            t, ty = self.arith(st.value, env)
            if ty != "Q":
                fail(st, "factory local that is not a number")
            env[name] = "Q"
            order.append(name)
            lines.append(f"  let {name} : Rat := {t}")
        # the inner function
        ga = g.args
        if g.decorator_list or ga.vararg or ga.kwarg or ga.kwonlyargs or ga.defaults or ga.posonlyargs or len(ga.args) != 4:
            fail(g, "signature of the inner function")
        names = [p.arg for p in ga.args]
        if len(set(names)) != 4 or set(names) & (RESERVED | set(env)):
            fail(g, "parameter names of the inner function")
        self.inner, self.outer_env = True, env
        ienv = dict(zip(names, ["P3", "P3", "Params", "State"]))
        ibody = self.seq(g.body, ienv, 1)
        captured = [n for n in params + order if n in self.captured]
        if not captured:
            fail(g, "the inner function captures nothing")
        out = ["/- GENERATED by tools/gen_hook.py from gscrib/hooks/extrusion_hook.py (source text, by AST). Do not edit.",
               "   Assumptions of the translation: exact arithmetic (`Rat`); `math.pi` is the parameter `pi`, `math.hypot` the parameter `hypot`;",
               "   the hook is given resolved points; `none` = ZeroDivisionError; see `Model/HookPrelude.lean`. -/",
               "import GscribModel.Model.HookPrelude", "namespace GscribModel.Gen.HookSrc",
               "open GscribModel.Builder GscribModel.Gen.StateSrc GscribModel.HookPrelude", "set_option linter.unusedVariables false", "",
               f"/-- the locals of `{f.name}` that `{g.name}` captures -/", "structure Closure where"]
        out += [f"  {n} : Rat" for n in captured]
        out += ["", f"/-- `{f.name}` (source line {f.lineno}): the closure of the function it returns -/",
                f"def {f.name} (pi : Rat) " + " ".join(f"({p} : Rat)" for p in params) + " : Closure :="]
        out += lines
        out += ["  { " + ", ".join(f"{n} := {n}" for n in captured) + " }", "",
                f"/-- `{g.name}` (source line {g.lineno}), the hook itself -/",
                f"def {g.name} (c : Closure) (hypot : Rat → Rat → Rat) ({names[0]} : P3) ({names[1]} : P3) ({names[2]} : VParams) ({names[3]} : GState) : Option VParams :="]
        out += ibody
        out += ["", "end GscribModel.Gen.HookSrc"]
        return "\n".join(out) + "\n"


def main():
    args = [a for i, a in enumerate(sys.argv[1:], 1) if not a.startswith("--") and sys.argv[i - 1] != "--out"]
    repo = Path(args[0] if args else os.environ.get("GSCRIB_REPO", "/repo"))
    try:
        text = T(repo).render()
    except Unsupported as e:
        print("gen_hook: the source is outside the translated subset:", e, file=sys.stderr)
        raise SystemExit(3)
    except (OSError, SyntaxError) as e:
        print("gen_hook: cannot read the source:", e, file=sys.stderr)
        raise SystemExit(3)
    if "--stdout" in sys.argv:
        sys.stdout.write(text)
        return
    out = Path(sys.argv[sys.argv.index("--out") + 1]) if "--out" in sys.argv else OUT
    out.parent.mkdir(parents=True, exist_ok=True)
    if not out.exists() or out.read_text() != text:
        out.write_text(text)
        print("gen_hook: rewrote", out)


if __name__ == "__main__":
    main()

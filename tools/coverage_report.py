#!/usr/bin/env python3
"""Runs every quick check with VERIF_COVERAGE=1 (no proof audit, scratch evidence) and writes docs/coverage.md:
for each property, the statements of its anchor files executed by the correspondence run."""
import json, os, subprocess, sys
from pathlib import Path
V = Path(__file__).resolve().parent.parent
props = [json.loads(l)["id"] for l in (V / "properties.jsonl").read_text().splitlines() if l.strip()]
props = sys.argv[1:] or props
rows = ["# Implementation coverage of the correspondence runs (quick tier, seed 0)\n",
        "Statements of each property's anchor files (properties.jsonl) executed while the quick check ran against /repo.",
        "Measured with coverage.py (`VERIF_COVERAGE=1 run.py check <id> --no-proof`); forked worker processes are not traced.\n",
        "| property | file | executed / statements | missing lines |", "|---|---|---|---|"]
for p in props:
    env = dict(os.environ, VERIF_COVERAGE="1", VERIF_SEED="0")
    r = subprocess.run(["/venv/bin/python", "run.py", "check", p, "--no-proof"], cwd=V, env=env, capture_output=True, text=True)
    f = V / "replays" / "scratch-evidence" / f"{p}.json"
    cov = json.loads(f.read_text())["coverage"].get("impl_coverage", {}) if f.exists() else {}
    for rel, c in cov.items():
        if "error" in c:
            rows.append(f"| {p} | {rel} | n/a | {c['error']} |")
        else:
            rows.append(f"| {p} | {rel} | {c['executed']} / {c['statements']} | {c['missing_lines'] or '-'} |")
    print(p, r.returncode, flush=True)
(V / "docs" / "coverage.md").write_text("\n".join(rows) + "\n")

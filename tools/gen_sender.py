#!/usr/bin/env python3
"""Translator: gscrib/printrun/printcore.py (class printcore, the streaming part) + gscrib/printrun/gcoder.py (what the
sender uses of it)  ->  GscribModel/Gen/SenderSrc.lean

`printcore` streams a job with a stop-and-wait protocol run by two threads that share the attributes `clear`,
`resendfrom`, `lineno`, `sentlines`, `queueindex`, ... (C15).  The code of one thread between two blocking points is ONE
atomic section of `Model/Sender.lean`; each section is translated literally from the source text (by AST; nothing is
imported or executed), statement by statement and in source order, into a sequential Lean function over a record
`Printcore` holding the attributes the translated code reads or assigns.  `Props/SenderTie.lean` proves the hand-written
model's actions equal to them.

What a method becomes
  * `m (self : Printcore) (tx : List Ev) (args…) : Except PyErr (Printcore × List Ev)`: the object when the method
    returned, and the writes so far.  **Every `self.printer.write(...)` appends an event `⟨self, bytes⟩` to `tx`: the
    bytes AND the whole object as it was at the moment of the write** - so the order of the assignments around a write
    (`self.clear = False` before it, `self.resendfrom` advanced before or after it) is part of the translated function.
    `startprint` additionally returns its `bool`.  Other return values (`pause`: `False`/`None`) are not used by the
    translated callers and are dropped.
  * assignments become structure updates in source order; `self.m(...)` a bind; an `if` continues the rest of the block
    in both branches (so an early `return` ends the method there); `return` is `pure (self, tx)`; an operation that can
    raise (`d[k]`, attribute of `None`, `reduce` of nothing, `get_nowait`) is a bind in `Except PyErr`; `a and b` /
    `a or b` with a raising operand are evaluated left to right with Python's short circuit.
  * blocking points.  `while <test>: time.sleep(c)` (the poll of `_sendnext`) is not executed: `<test>` becomes the
    predicate `_sendnext_blocked`, the method body is the code after the poll.  The `while` of `_print` whose body is
    `self._sendnext()` gives the predicate `_print_continue`.  `_listen` and the inner loop of `_listen_until_online`
    are translated as *one trip through the loop body* for one received line: `_listen_line`,
    `_listen_until_online_line` (`line = self._readline()` is the parameter; `if line is None: break` - connection
    lost - and the counter of empty lines (read time-outs) are not translated; `continue` ends the trip).

Skipped statements (they are listed as comments in the output; the assumptions enter the trusted base)
  * logging: `self._logger.*(...)`, `self.logError(...)`; `time.sleep(...)`; `pass`;
  * event handlers: every `for handler in self.event_handler: ...` loop (checked: `__init__` sets `event_handler = []`);
  * callbacks: every `if self.<x>cb [and ...]:` without `else`, for the attributes `<x>cb` that `__init__` sets to `None`
    (checked) - no callback is installed, the branch is dead.  In particular `preprintsendcb` does not replace a line;
  * `if self.loud:` and any other `if` all of whose branches are skipped statements (its test is shown in the comment);
  * the analyzer: `try: x = self.analyzer.<m>(...) except: <logging>`; assignments to such locals `x`; `self.<a> =
    self.analyzer.<b>` (the status saved by `pause`, read by no translated code);
  * threads: assignments to / calls on `self.print_thread`, `self.send_thread`; an `if` whose test mentions `threading`
    and whose body is skipped statements; `self.priqueue.task_done()`;
  * `try: <body> except device.DeviceError ...`: the body is translated, the handler is not (the port accepts every write).

Subset (anything else: refuse, exit 3)
  statements   `self.f = e`, `self.f += e`, `x = e`, `self.sent.append(e)`, `self.sentlines[k] = e`,
               `self.printer.write((e + "\\n").encode('ascii'))`, `self.m(e…)` for a translated method (positional
               arguments, defaults from the signature), `self._send(self.priqueue.get_nowait())`, `if/elif/else`,
               `return [const]`, `continue` (loop-body functions), the pair `(a, b) = self.mainqueue.idxs(e)`;
               `g = self.mainqueue.all_layers[a][b]`, `for v in [<str literals>]: <one assignment>` (unrolled),
               `while len(ws) != 0: try: x = int(ws.pop(0)); self.f = x; break  except: pass` (first word that is an
               integer).
  expressions  `None`, `True`/`False`, int and str literals, locals, `self.f`, `not`, `and`/`or`, `is None`/`is not None`,
               comparisons `< <= > >= == !=` of ints, `a + b` (ints, strings), `a - b`, `-n`, `a ^ b` (in the lambda of
               `reduce`), `str(e)`, `s.startswith(lit | tuple(self.greetings))`, `lit in s`, `lit not in s`, `s.lower()`,
               `s.strip()`, `s.lstrip()`, `s.replace(a, b)`, `s.split()`, `gline.raw`, `self.sentlines[e]`,
               `self.printer.has_flow_control`, `self.mainqueue.has_index(e)`, `self.priqueue.empty()`,
               `self._checksum(e)`, `reduce(lambda x, y: <e>, map(ord, s))`, `gcoder.<regex>.sub("", s)`,
               truthiness of bools, strings, lists and `None`-or-object attributes.
  gcoder.py    `NAME = re.compile(<literal>)`; `GCode.has_index` (one `return` of a comparison with `len(self)`);
               `GCode.prepare`: the statement `self.lines = [line_class(l2) for l2 in (l.strip() for l in data) if l2]`;
               checked by text (refusal when they change): `GCode.__len__`, `GCode.idxs`, `PyLine.__init__`,
               `PyLightLine.__init__`, `Line = PyLine`, `LightLine = PyLightLine`, `line_class`.
Types are inferred: Bool, Int, Nat (values of `ord`), Text, List Text, Line (= its `raw` text), GCode, Option Device,
Option GCode, Dict, Re.  `self.clear = 0` in `__init__` is `false`.

usage: gen_sender.py [repo_root] [--out FILE | --stdout]
"""
import ast
import os
import sys
from pathlib import Path

V = Path(__file__).resolve().parent.parent
OUT = V / "lean" / "GscribModel" / "Gen" / "SenderSrc.lean"
SRC_PC = "gscrib/printrun/printcore.py"
SRC_GC = "gscrib/printrun/gcoder.py"

# attribute -> type.  Everything else on `self` is refused when read or assigned by translated code.
FIELDS = {
    "printer": "OptDevice", "clear": "Bool", "online": "Bool", "printing": "Bool", "paused": "Bool",
    "mainqueue": "OptGCode", "priqueue": "LText", "queueindex": "Int", "lineno": "Int", "resendfrom": "Int",
    "sentlines": "Dict", "sent": "LText", "writefailures": "Int", "tcp_streaming_mode": "Bool",
    "_send_line_numbers": "Bool", "greetings": "LText",
}
LEAN_TY = {"Bool": "Bool", "Int": "Int", "Nat": "Nat", "Text": "Text", "LText": "List Text", "Line": "Text", "GCode": "GCode",
           "OptDevice": "Option Device", "OptGCode": "Option GCode", "Dict": "Dict", "Re": "Re"}
# translated methods, in dependency order; parameter types
METHODS = ["_checksum", "_send", "_reset_line_numbers", "pause", "process_host_command", "_sendnext", "startprint"]
PARAMS = {
    "_checksum": {"command": "Text"},
    "_send": {"command": "Text", "lineno": "Int", "calcchecksum": "Bool"},
    "_reset_line_numbers": {}, "pause": {}, "_sendnext": {},
    "process_host_command": {"command": "Text"},
    "startprint": {"gcode": "GCode", "startindex": "Int"},
}
RETURNS_BOOL = {"startprint"}
PURE_METHODS = {"_checksum"}            # no access to self: `m (args) : Except PyErr T`
THREAD_ATTRS = {"print_thread", "send_thread"}

LEAN_KW = set("""at by do end fun from have if in let match mut open show then else where with calc deriving export extends
for forall exists import instance local macro namespace notation obtain private protected section structure suffices syntax
theorem def example class inductive universe variable using return unless try catch finally nomatch nofun this Type Sort Prop
prefix infix infixl infixr postfix abbrev axiom opaque attribute set_option mutual partial unsafe noncomputable
self tx Ev Printcore PyErr Text Int Nat Bool Option List Except Dict Re GCode Device Py PyQ SenderPy""".split())


class Unsupported(Exception):
    pass


def fail(node, what):
    raise Unsupported(f"line {getattr(node, 'lineno', '?')}: {what}")


def is_doc(st):
    return isinstance(st, ast.Expr) and isinstance(st.value, ast.Constant) and isinstance(st.value.value, str)


def self_attr(e):
    if isinstance(e, ast.Attribute) and isinstance(e.value, ast.Name) and e.value.id == "self":
        return e.attr
    return None


def is_call_on(e, obj_attr, meth=None):
    """`self.<obj_attr>.<meth>(...)`"""
    return (isinstance(e, ast.Call) and isinstance(e.func, ast.Attribute) and self_attr(e.func.value) == obj_attr
            and (meth is None or e.func.attr == meth))


def lean_char(c):
    o = ord(c)
    if o > 127:
        raise Unsupported(f"non-ASCII character {c!r} in a string literal")
    if c == "'":
        return "'\\''"
    if c == "\\":
        return "'\\\\'"
    if c == "\n":
        return "'\\n'"
    if c == "\t":
        return "'\\t'"
    if c == "\r":
        return "'\\r'"
    if o < 32 or o == 127:
        return f"(Char.ofNat {o})"
    return f"'{c}'"


def lean_text(s):
    return "([" + ", ".join(lean_char(c) for c in s) + "] : Text)"


def mangle(name):
    return name + "'" if name in LEAN_KW else name


def comment_safe(s):
    s = " ".join(s.split())
    if "-/" in s or "/-" in s:
        s = s.replace("-/", "- /").replace("/-", "/ -")
    return s[:110]


class Cx:
    """translation context of one function"""

    def __init__(self, name, kind, ret_bool=False):
        self.name = name
        self.kind = kind                # "method" | "loopbody"
        self.ret_bool = ret_bool
        self.opaque = set()             # locals fed by the analyzer: never read by translated code
        self.n = 0

    def tmp(self, p):
        self.n += 1
        return f"{p}{self.n}'"

    def finish(self, ret=None):
        if self.ret_bool:
            if ret is None:
                raise Unsupported(f"{self.name}: a path ends without `return <bool>`")
            return f"pure ({ret}, self, tx)"
        return "pure (self, tx)"


class T:
    def __init__(self, repo):
        p = repo / SRC_PC
        g = repo / SRC_GC
        for f in (p, g):
            if not f.exists():
                raise Unsupported(f"{f} not found")
        self.pc_tree = ast.parse(p.read_text())
        self.gc_tree = ast.parse(g.read_text())
        cls = [n for n in self.pc_tree.body if isinstance(n, ast.ClassDef) and n.name == "printcore"]
        if len(cls) != 1:
            raise Unsupported("class printcore not found")
        self.methods = {}
        for n in cls[0].body:
            if isinstance(n, ast.FunctionDef):
                if n.name in self.methods:
                    fail(n, f"printcore.{n.name} defined twice")
                self.methods[n.name] = n
        self.literals = []
        self.blocked = {}               # method -> Lean text of its poll test
        self.sigs = {}                  # method -> [(param, type, default-text|None)]
        self.check_imports()
        self.read_init()
        self.read_gcoder()

    # ------------------------------------------------------------------ module level checks
    def check_imports(self):
        ok_gcoder = ok_reduce = ok_time = False
        for st in self.pc_tree.body:
            if isinstance(st, ast.ImportFrom) and st.module == "functools" and any(a.name == "reduce" and a.asname is None for a in st.names):
                ok_reduce = True
            if isinstance(st, ast.ImportFrom) and st.level == 1 and st.module is None and any(a.name == "gcoder" and a.asname is None for a in st.names):
                ok_gcoder = True
            if isinstance(st, ast.ImportFrom) and st.module in ("gscrib.printrun", "printrun") and any(a.name == "gcoder" and a.asname is None for a in st.names):
                ok_gcoder = True
            if isinstance(st, ast.Import) and any(a.name == "time" and a.asname is None for a in st.names):
                ok_time = True
            # a module-level definition may not shadow what the translated code calls
            if isinstance(st, (ast.FunctionDef, ast.ClassDef)) and st.name in ("reduce", "map", "ord", "str", "int", "len", "tuple", "gcoder", "time"):
                fail(st, f"module-level {st.name} shadows a built-in the translation relies on")
        if not (ok_gcoder and ok_reduce and ok_time):
            raise Unsupported("printcore.py: expected `from functools import reduce`, `from . import gcoder`, `import time`")

    def read_init(self):
        init = self.methods.get("__init__")
        if init is None:
            raise Unsupported("printcore.__init__ not found")
        vals, self.callbacks = {}, []
        handler_list = None
        for st in init.body:
            if isinstance(st, ast.Assign) and len(st.targets) == 1 and self_attr(st.targets[0]) is not None:
                a, v = self_attr(st.targets[0]), st.value
                if a.endswith("cb"):
                    if not (isinstance(v, ast.Constant) and v.value is None):
                        fail(st, f"self.{a} is not initialised with None")
                    self.callbacks.append(a)
                if a == "event_handler":
                    handler_list = ast.unparse(v)
                if a in FIELDS:
                    if a in vals:
                        fail(st, f"self.{a} initialised twice")
                    vals[a] = (self.init_value(a, v), st.lineno)
        if handler_list != "[]":
            raise Unsupported("__init__: `self.event_handler = []` not found")
        missing = [f for f in FIELDS if f not in vals]
        if missing:
            raise Unsupported(f"__init__ does not initialise {missing}")
        self.init_vals = vals
        self.init_line = init.lineno

    def init_value(self, a, v):
        ty = FIELDS[a]
        if isinstance(v, ast.Constant):
            c = v.value
            if c is None and ty.startswith("Opt"):
                return "none"
            if isinstance(c, bool) and ty == "Bool":
                return "true" if c else "false"
            if isinstance(c, int) and not isinstance(c, bool) and ty == "Bool" and c in (0, 1):
                return "true" if c else "false"
            if isinstance(c, int) and not isinstance(c, bool) and ty == "Int":
                return f"({c} : Int)" if c >= 0 else f"(-({-c} : Int))"
        if isinstance(v, ast.UnaryOp) and isinstance(v.op, ast.USub) and isinstance(v.operand, ast.Constant) and isinstance(v.operand.value, int) and ty == "Int":
            return f"(-({v.operand.value} : Int))"
        if isinstance(v, ast.List) and ty == "LText" and all(isinstance(x, ast.Constant) and isinstance(x.value, str) for x in v.elts):
            for x in v.elts:
                self.lit(x.value)
            return "[" + ", ".join(lean_text(x.value) for x in v.elts) + "]"
        if isinstance(v, ast.Dict) and not v.keys and ty == "Dict":
            return "[]"
        if ast.unparse(v) == "Queue(0)" and a == "priqueue":
            return "[]"
        fail(v, f"initial value of self.{a}: {ast.unparse(v)}")

    def read_gcoder(self):
        t = self.gc_tree
        self.regex = {}
        for st in t.body:
            if (isinstance(st, ast.Assign) and len(st.targets) == 1 and isinstance(st.targets[0], ast.Name)
                    and isinstance(st.value, ast.Call) and ast.unparse(st.value.func) == "re.compile"):
                v = st.value
                if len(v.args) == 1 and not v.keywords and isinstance(v.args[0], ast.Constant) and isinstance(v.args[0].value, str):
                    name = st.targets[0].id
                    if name in self.regex:
                        fail(st, f"{name} compiled twice")
                    self.regex[name] = (v.args[0].value, st.lineno)
        def top(name):
            r = [st for st in t.body if isinstance(st, ast.Assign) and len(st.targets) == 1 and isinstance(st.targets[0], ast.Name) and st.targets[0].id == name]
            return ast.unparse(r[0].value) if len(r) == 1 else None
        if top("Line") != "PyLine" or top("LightLine") != "PyLightLine":
            raise Unsupported("gcoder.py: `Line = PyLine` / `LightLine = PyLightLine` not found")
        classes = {n.name: n for n in t.body if isinstance(n, ast.ClassDef)}
        for c in ("PyLine", "PyLightLine"):
            if c not in classes:
                raise Unsupported(f"gcoder.py: class {c} not found")
            m = [n for n in classes[c].body if isinstance(n, ast.FunctionDef) and n.name == "__init__"]
            if len(m) != 1 or [a.arg for a in m[0].args.args] != ["self", "l"] or [ast.unparse(s) for s in m[0].body if not is_doc(s)] != ["self.raw = l"]:
                raise Unsupported(f"gcoder.py: {c}.__init__(self, l) is not `self.raw = l`")
        if "GCode" not in classes or "LightGCode" not in classes:
            raise Unsupported("gcoder.py: classes GCode / LightGCode not found")
        def class_attr(c, name):
            r = [st for st in classes[c].body if isinstance(st, ast.Assign) and len(st.targets) == 1 and isinstance(st.targets[0], ast.Name) and st.targets[0].id == name]
            return ast.unparse(r[0].value) if len(r) == 1 else None
        if class_attr("GCode", "line_class") != "Line" or class_attr("LightGCode", "line_class") != "LightLine":
            raise Unsupported("gcoder.py: `line_class = Line` (GCode) / `line_class = LightLine` (LightGCode) not found")
        if [ast.unparse(b) for b in classes["LightGCode"].bases] != ["GCode"]:
            raise Unsupported("gcoder.py: LightGCode is not a subclass of GCode")
        gm = {}
        for n in classes["GCode"].body:
            if isinstance(n, ast.FunctionDef):
                if n.name in gm and n.name in ("__len__", "idxs", "has_index", "prepare"):
                    fail(n, f"GCode.{n.name} defined twice")
                gm[n.name] = n
        for n in classes["LightGCode"].body:
            if isinstance(n, ast.FunctionDef) and n.name in ("__len__", "idxs", "has_index", "prepare", "__init__"):
                fail(n, f"LightGCode overrides {n.name}")
        def body_is(name, args, body):
            m = gm.get(name)
            if m is None:
                raise Unsupported(f"gcoder.py: GCode.{name} not found")
            if [a.arg for a in m.args.args] != args or m.decorator_list or [ast.unparse(s) for s in m.body if not is_doc(s)] != body:
                fail(m, f"GCode.{name} is not the method the prelude transcribes ({'; '.join(body)})")
        body_is("__len__", ["self"], ["return len(self.line_idxs)"])
        body_is("idxs", ["self", "i"], ["return (self.layer_idxs[i], self.line_idxs[i])"])
        # has_index: translated
        m = gm.get("has_index")
        if m is None:
            raise Unsupported("gcoder.py: GCode.has_index not found")
        body = [s for s in m.body if not is_doc(s)]
        if [a.arg for a in m.args.args] != ["self", "i"] or m.decorator_list or len(body) != 1 or not isinstance(body[0], ast.Return):
            fail(m, "GCode.has_index: expected `def has_index(self, i): return <comparison>`")
        cx = Cx("GCode.has_index", "method")
        pre, txt, ty = self.expr(body[0].value, {"self": "GCode", "i": "Int"}, cx)
        if pre or ty != "Bool":
            fail(m, "GCode.has_index: the returned expression is not a plain boolean")
        self.has_index = (txt, m.lineno)
        # prepare: the list comprehension
        m = gm.get("prepare")
        if m is None or [a.arg for a in m.args.args][:2] != ["self", "data"]:
            raise Unsupported("gcoder.py: GCode.prepare(self, data, ...) not found")
        found = None
        for st in ast.walk(m):
            if isinstance(st, ast.Assign) and len(st.targets) == 1 and self_attr(st.targets[0]) == "lines" and isinstance(st.value, ast.ListComp):
                if found is not None:
                    fail(st, "GCode.prepare builds self.lines twice")
                found = st
        if found is None:
            fail(m, "GCode.prepare: `self.lines = [...]` (a list comprehension) not found")
        lc = found.value
        ok = (len(lc.generators) == 1 and isinstance(lc.generators[0].target, ast.Name) and not lc.generators[0].is_async
              and isinstance(lc.elt, ast.Call) and ast.unparse(lc.elt.func) == "line_class" and len(lc.elt.args) == 1 and not lc.elt.keywords)
        if ok:
            gen = lc.generators[0]
            v = gen.target.id
            inner = gen.iter
            ok = (ast.unparse(lc.elt.args[0]) == v and [ast.unparse(c) for c in gen.ifs] == [v]
                  and isinstance(inner, ast.GeneratorExp) and len(inner.generators) == 1 and not inner.generators[0].ifs
                  and isinstance(inner.generators[0].target, ast.Name) and ast.unparse(inner.generators[0].iter) == "data"
                  and ast.unparse(inner.elt) == inner.generators[0].target.id + ".strip()")
        pre_ok = any(isinstance(st, ast.Assign) and ast.unparse(st) == "line_class = self.line_class" for st in ast.walk(m))
        if not ok or not pre_ok:
            fail(found, "GCode.prepare: expected `line_class = self.line_class` and "
                        "`self.lines = [line_class(x) for x in (l.strip() for l in data) if x]`")
        self.prepare_line = found.lineno

    # ------------------------------------------------------------------ literals
    def lit(self, s):
        if s not in self.literals:
            self.literals.append(s)

    # ------------------------------------------------------------------ expressions
    def truth(self, e, env, cx):
        """-> (pre, text : Bool)"""
        pre, t, ty = self.expr(e, env, cx)
        if ty == "Bool":
            return pre, t
        if ty in ("Text", "LText"):
            return pre, f"(Py.truthy {t})"
        if ty in ("OptDevice", "OptGCode"):
            return pre, f"(Py.truthyOpt {t})"
        if ty == "Int":
            return pre, f"(decide ({t} ≠ 0))"
        fail(e, f"truthiness of {ty}")

    @staticmethod
    def chain(pre, final):
        """monadic term: binds of `pre`, then `final` (a monadic term)"""
        out = final
        for var, term in reversed(pre):
            out = f"({term} >>= fun {var} => {out})"
        return out

    def boolop(self, e, env, cx):
        parts = [self.truth(v, env, cx) for v in e.values]
        is_and = isinstance(e.op, ast.And)
        if all(not p for p, _ in parts[1:]):
            return parts[0][0], "(" + (" && " if is_and else " || ").join(t for _, t in parts) + ")", "Bool"
        # a later operand can raise: it is evaluated only if the earlier ones do not decide (Python's short circuit)
        term = None
        for pre, t in reversed(parts[1:]):
            if term is None:
                term = self.chain(pre, f"pure {t}")
            else:
                inner = f"(if {t} then {term} else pure false)" if is_and else f"(if {t} then pure true else {term})"
                term = self.chain(pre, inner)
        pre0, t0 = parts[0]
        first = f"(if {t0} then {term} else pure false)" if is_and else f"(if {t0} then pure true else {term})"
        var = cx.tmp("b")
        return pre0 + [(var, first)], var, "Bool"

    def expr(self, e, env, cx):
        """-> (pre, text, type); pre = [(variable, monadic term)] to bind before `text` is meaningful"""
        if isinstance(e, ast.Constant):
            c = e.value
            if isinstance(c, bool):
                return [], ("true" if c else "false"), "Bool"
            if isinstance(c, int):
                return [], f"({c} : Int)", "Int"
            if isinstance(c, str):
                self.lit(c)
                return [], lean_text(c), "Text"
            fail(e, f"constant {c!r}")
        if isinstance(e, ast.Name):
            if e.id in cx.opaque:
                fail(e, f"{e.id} holds a value of the analyzer, which is not translated")
            if e.id in env:
                return [], mangle(e.id), env[e.id]
            fail(e, f"unknown name {e.id}")
        a = self_attr(e)
        if a is not None:
            if env.get("self") != "Printcore":
                fail(e, f"self.{a} outside printcore")
            if a in FIELDS:
                return [], f"self.{a}", FIELDS[a]
            fail(e, f"attribute self.{a} is not part of the translated state")
        if isinstance(e, ast.Attribute):
            if ast.unparse(e) == "self.printer.has_flow_control":
                v = cx.tmp("a")
                return [(v, "SenderPy.has_flow_control self.printer")], v, "Bool"
            if isinstance(e.value, ast.Name) and env.get(e.value.id) == "Line" and e.attr == "raw":
                return [], mangle(e.value.id), "Text"
            fail(e, f"attribute {ast.unparse(e)}")
        if isinstance(e, ast.UnaryOp):
            if isinstance(e.op, ast.Not):
                pre, t = self.truth(e.operand, env, cx)
                return pre, f"(!{t})", "Bool"
            if isinstance(e.op, ast.USub):
                pre, t, ty = self.expr(e.operand, env, cx)
                if ty != "Int":
                    fail(e, f"negation of {ty}")
                return pre, f"(-{t})", "Int"
            fail(e, f"operator in {ast.unparse(e)}")
        if isinstance(e, ast.BoolOp):
            return self.boolop(e, env, cx)
        if isinstance(e, ast.BinOp):
            pa, ta, tya = self.expr(e.left, env, cx)
            pb, tb, tyb = self.expr(e.right, env, cx)
            if isinstance(e.op, ast.Add) and tya == tyb == "Int":
                return pa + pb, f"({ta} + {tb})", "Int"
            if isinstance(e.op, ast.Sub) and tya == tyb == "Int":
                return pa + pb, f"({ta} - {tb})", "Int"
            if isinstance(e.op, ast.Add) and tya == tyb == "Text":
                return pa + pb, f"({ta} ++ {tb})", "Text"
            if isinstance(e.op, ast.BitXor) and tya == tyb == "Nat":
                return pa + pb, f"({ta} ^^^ {tb})", "Nat"
            fail(e, f"{ast.unparse(e)}: operator on {tya}, {tyb}")
        if isinstance(e, ast.Compare):
            if len(e.ops) != 1:
                fail(e, "chained comparison")
            op, x, y = e.ops[0], e.left, e.comparators[0]
            if isinstance(op, (ast.Is, ast.IsNot)) and isinstance(y, ast.Constant) and y.value is None:
                pre, t, ty = self.expr(x, env, cx)
                if ty in ("OptDevice", "OptGCode"):
                    return pre, (f"{t}.isNone" if isinstance(op, ast.Is) else f"{t}.isSome"), "Bool"
                # a value of a type that has no None
                return pre, ("false" if isinstance(op, ast.Is) else "true"), "Bool"
            if isinstance(op, (ast.In, ast.NotIn)):
                pa, ta, tya = self.expr(x, env, cx)
                pb, tb, tyb = self.expr(y, env, cx)
                if tya != "Text" or tyb != "Text" or not isinstance(x, ast.Constant):
                    fail(e, f"membership test {ast.unparse(e)}")
                t = f"(Py.contains {ta} {tb})"
                return pa + pb, (t if isinstance(op, ast.In) else f"(!{t})"), "Bool"
            pa, ta, tya = self.expr(x, env, cx)
            pb, tb, tyb = self.expr(y, env, cx)
            sym = {ast.Lt: "<", ast.LtE: "≤", ast.Gt: ">", ast.GtE: "≥", ast.Eq: "=", ast.NotEq: "≠"}.get(type(op))
            if sym is None or tya != "Int" or tyb != "Int":
                fail(e, f"comparison {ast.unparse(e)} of {tya} with {tyb}")
            return pa + pb, f"(decide ({ta} {sym} {tb}))", "Bool"
        if isinstance(e, ast.Subscript):
            if self_attr(e.value) == "sentlines":
                pk, tk, tyk = self.expr(e.slice, env, cx)
                if tyk != "Int":
                    fail(e, "key of sentlines is not an int")
                v = cx.tmp("v")
                return pk + [(v, f"Dict.get self.sentlines {tk}")], v, "Text"
            fail(e, f"subscript {ast.unparse(e)}")
        if isinstance(e, ast.Call):
            return self.call(e, env, cx)
        fail(e, f"expression {ast.unparse(e)}")

    def call(self, e, env, cx):
        fn = e.func
        if e.keywords:
            fail(e, f"keyword arguments in {ast.unparse(e)}")
        if isinstance(fn, ast.Name):
            if fn.id == "str" and len(e.args) == 1:
                pre, t, ty = self.expr(e.args[0], env, cx)
                if ty == "Int":
                    return pre, f"(Py.str {t})", "Text"
                if ty == "Nat":
                    return pre, f"(Py.str (({t} : Nat) : Int))", "Text"
                fail(e, f"str() of {ty}")
            if fn.id == "reduce" and len(e.args) == 2:
                lam, seq = e.args
                if not (isinstance(lam, ast.Lambda) and len(lam.args.args) == 2 and not lam.args.defaults and not lam.args.vararg and not lam.args.kwarg):
                    fail(e, "reduce: expected a two-argument lambda")
                if not (isinstance(seq, ast.Call) and isinstance(seq.func, ast.Name) and seq.func.id == "map" and len(seq.args) == 2
                        and isinstance(seq.args[0], ast.Name) and seq.args[0].id == "ord" and not seq.keywords):
                    fail(e, "reduce: expected map(ord, <string>) as the sequence")
                x, y = (a.arg for a in lam.args.args)
                if x == y or x in LEAN_KW or y in LEAN_KW:
                    fail(lam, "lambda parameters")
                pl, tl, tyl = self.expr(lam.body, {x: "Nat", y: "Nat"}, cx)
                if pl or tyl != "Nat":
                    fail(lam, "lambda body is not an int expression over its parameters")
                ps, ts, tys = self.expr(seq.args[1], env, cx)
                if tys != "Text":
                    fail(e, "map(ord, x): x is not a string")
                v = cx.tmp("r")
                return ps + [(v, f"Py.reduce (fun {x} {y} => {tl}) (Py.mapOrd {ts})")], v, "Nat"
            if fn.id == "len" and len(e.args) == 1 and env.get("self") == "GCode" and ast.unparse(e.args[0]) == "self":
                return [], "(SenderPy.GCode.len self)", "Int"
            if fn.id == "tuple" and len(e.args) == 1 and self_attr(e.args[0]) == "greetings":
                return [], "self.greetings", "LText"
            fail(e, f"call {ast.unparse(e)}")
        if not isinstance(fn, ast.Attribute):
            fail(e, f"call {ast.unparse(e)}")
        # self.<method>(...)
        if self_attr(fn) == "_checksum" and len(e.args) == 1:
            pre, t, ty = self.expr(e.args[0], env, cx)
            if ty != "Text":
                fail(e, "_checksum of a non-string")
            v = cx.tmp("c")
            return pre + [(v, f"_checksum {t}")], v, "Nat"
        if is_call_on(e, "mainqueue", "has_index") and len(e.args) == 1:
            pre, t, ty = self.expr(e.args[0], env, cx)
            if ty != "Int":
                fail(e, "has_index of a non-int")
            g = cx.tmp("g")
            return pre + [(g, "SenderPy.deref self.mainqueue")], f"(GCode_has_index {g} {t})", "Bool"
        if is_call_on(e, "priqueue", "empty") and not e.args:
            return [], "(PyQ.empty self.priqueue)", "Bool"
        # gcoder.<regex>.sub("", s)
        if (fn.attr == "sub" and isinstance(fn.value, ast.Attribute) and isinstance(fn.value.value, ast.Name) and fn.value.value.id == "gcoder"
                and len(e.args) == 2 and isinstance(e.args[0], ast.Constant) and e.args[0].value == ""):
            name = fn.value.attr
            if name not in self.regex:
                fail(e, f"gcoder.{name} is not a module-level re.compile(<literal>)")
            self.used_regex.add(name)
            pre, t, ty = self.expr(e.args[1], env, cx)
            if ty != "Text":
                fail(e, "regex substitution in a non-string")
            return pre, f"(Re.sub_empty {name} {t})", "Text"
        # string methods
        pre, t, ty = self.expr(fn.value, env, cx)
        if ty == "Text":
            if fn.attr in ("lower", "strip", "lstrip") and not e.args:
                return pre, f"(Py.{fn.attr} {t})", "Text"
            if fn.attr == "split" and not e.args:
                return pre, f"(Py.split {t})", "LText"
            if fn.attr == "startswith" and len(e.args) == 1:
                pa, ta, tya = self.expr(e.args[0], env, cx)
                if tya == "Text" and isinstance(e.args[0], ast.Constant):
                    return pre + pa, f"(Py.startswith {t} {ta})", "Bool"
                if tya == "LText":
                    return pre + pa, f"(Py.startswithAny {t} {ta})", "Bool"
                fail(e, "startswith: argument is neither a string literal nor tuple(self.greetings)")
            if fn.attr == "replace" and len(e.args) == 2:
                pa, ta, tya = self.expr(e.args[0], env, cx)
                pb, tb, tyb = self.expr(e.args[1], env, cx)
                if tya != "Text" or tyb != "Text":
                    fail(e, "replace: arguments are not strings")
                return pre + pa + pb, f"(Py.replace {t} {ta} {tb})", "Text"
        fail(e, f"call {ast.unparse(e)}")

    # ------------------------------------------------------------------ skipped statements
    def is_logging(self, e):
        return (isinstance(e, ast.Call) and isinstance(e.func, ast.Attribute)
                and (self_attr(e.func.value) == "_logger" or self_attr(e.func) == "logError"
                     or ast.unparse(e.func) == "time.sleep"))

    def cb_dead(self, st):
        if not isinstance(st, ast.If) or st.orelse:
            return False
        t = st.test
        if isinstance(t, ast.BoolOp) and isinstance(t.op, ast.And):
            t = t.values[0]
        return self_attr(t) in self.callbacks

    def inert(self, st, cx):
        """a statement the translation skips (see the module docstring)"""
        if isinstance(st, ast.Pass) or is_doc(st):
            return True
        if isinstance(st, ast.Expr):
            e = st.value
            if self.is_logging(e):
                return True
            if is_call_on(e, "priqueue", "task_done") and not e.args:
                return True
            if isinstance(e, ast.Call) and isinstance(e.func, ast.Attribute) and self_attr(e.func.value) in THREAD_ATTRS and e.func.attr in ("start", "join"):
                return True
            return False
        if isinstance(st, ast.For):
            return ast.unparse(st.iter) == "self.event_handler" and isinstance(st.target, ast.Name) and not st.orelse
        if isinstance(st, ast.Assign) and len(st.targets) == 1:
            tg, v = st.targets[0], st.value
            if isinstance(tg, ast.Name) and tg.id in cx.opaque:
                return True
            if (isinstance(tg, ast.Tuple) and all(isinstance(x, ast.Name) and x.id in cx.opaque for x in tg.elts)
                    and is_call_on(v, "mainqueue", "idxs") and len(v.args) == 1 and self.pure_test(v.args[0])):
                return True
            if self_attr(tg) in THREAD_ATTRS:
                return True
            if self_attr(tg) is not None and self_attr(tg) not in FIELDS and isinstance(v, ast.Attribute) and self_attr(v.value) == "analyzer":
                return True
            return False
        if self.cb_dead(st):
            return True
        if isinstance(st, ast.If):
            names = {n.id for n in ast.walk(st.test) if isinstance(n, ast.Name)}
            if "threading" in names or self.pure_test(st.test):
                return all(self.inert(s, cx) for s in st.body) and all(self.inert(s, cx) for s in st.orelse)
            return False
        if isinstance(st, ast.Try):
            if st.finalbody or st.orelse:
                return False
            body_ok = all(self.inert(s, cx) or self.analyzer_assign(s, cx) for s in st.body)
            return body_ok and all(all(self.inert(s, cx) for s in h.body) for h in st.handlers)
        return False

    def analyzer_assign(self, st, cx):
        return (isinstance(st, ast.Assign) and len(st.targets) == 1 and isinstance(st.targets[0], ast.Name)
                and st.targets[0].id in cx.opaque and is_call_on(st.value, "analyzer"))

    def pure_test(self, e):
        """a test without calls other than string predicates on locals / attribute reads: evaluating it has no effect"""
        for n in ast.walk(e):
            if isinstance(n, ast.Call):
                f = n.func
                if not (isinstance(f, ast.Attribute) and f.attr in ("startswith", "lower")) and not (isinstance(f, ast.Name) and f.id == "tuple"):
                    return False
            if isinstance(n, (ast.NamedExpr, ast.Await, ast.Yield, ast.YieldFrom, ast.Subscript)):
                return False
        return True

    def find_opaque(self, fn):
        """locals that translated code may not read: values of the analyzer, and layer indices `(a, b) = self.mainqueue.idxs(e)`
        that are not the line look-up idiom (they serve the layer-change notification only)"""
        out = set()
        for n in ast.walk(fn):
            if isinstance(n, ast.Assign) and len(n.targets) == 1 and isinstance(n.targets[0], ast.Name) and is_call_on(n.value, "analyzer"):
                out.add(n.targets[0].id)
            for f in ("body", "orelse", "finalbody"):
                blk = getattr(n, f, None)
                if not isinstance(blk, list):
                    continue
                for j, st in enumerate(blk):
                    if (isinstance(st, ast.Assign) and len(st.targets) == 1 and isinstance(st.targets[0], ast.Tuple)
                            and all(isinstance(x, ast.Name) for x in st.targets[0].elts) and is_call_on(st.value, "mainqueue", "idxs")):
                        names = [x.id for x in st.targets[0].elts]
                        nxt = blk[j + 1] if j + 1 < len(blk) else None
                        idiom = (len(names) == 2 and isinstance(nxt, ast.Assign)
                                 and ast.unparse(nxt.value) == f"self.mainqueue.all_layers[{names[0]}][{names[1]}]")
                        if not idiom:
                            out.update(names)
        return out

    def skipped(self, st):
        for n in ast.walk(st):
            if isinstance(n, ast.If):
                for c in ast.walk(n.test):
                    if isinstance(c, ast.Constant) and isinstance(c.value, str):
                        self.lit(c.value)
        first = ast.unparse(st).split("\n")[0]
        return f"-- skipped (line {st.lineno}): {comment_safe(first)}"

    # ------------------------------------------------------------------ statements
    def coerce(self, node, t, ty, want):
        if ty == want:
            return t
        if want == "OptGCode" and ty == "GCode":
            return f"(some {t})"
        if want == "Text" and ty == "Line":
            return t
        fail(node, f"a value of type {ty} where {want} is expected")

    def binds(self, pre):
        return [f"let {v} ← {term}" for v, term in pre]

    def local(self, node, name, env, ty):
        if name in LEAN_KW and name + "'" in env:
            fail(node, f"local name {name}")
        if name.endswith("'"):
            fail(node, f"local name {name}")
        env[name] = ty

    def call_method(self, st, e, env, cx):
        """`self.m(args)` as a statement -> lines"""
        m = self_attr(e.func)
        sig = self.sigs.get(m)
        if sig is None:
            fail(st, f"self.{m}(...) is not a translated method (or is defined after its caller)")
        if e.keywords or len(e.args) > len(sig):
            fail(st, f"arguments of self.{m}")
        lines, args = [], []
        for i, (pname, pty, dflt) in enumerate(sig):
            if i < len(e.args):
                a = e.args[i]
                if m == "_send" and i == 0 and is_call_on(a, "priqueue", "get_nowait") and not a.args:
                    q = cx.tmp("q")
                    lines += [f"let {q} ← PyQ.get_nowait self.priqueue", f"let self : Printcore := {{ self with priqueue := {q}.2 }}"]
                    args.append(f"{q}.1")
                    continue
                pre, t, ty = self.expr(a, env, cx)
                lines += self.binds(pre)
                args.append(self.coerce(a, t, ty, pty))
            elif dflt is not None:
                args.append(dflt)
            else:
                fail(st, f"self.{m}: argument {pname} missing")
        r = cx.tmp("r")
        if m in RETURNS_BOOL:
            fail(st, f"self.{m}(...) as a statement")
        lines += [f"let {r} ← {m} self tx" + "".join(" " + a for a in args), f"let self : Printcore := {r}.1", f"let tx : List Ev := {r}.2"]
        return lines

    def block(self, stmts, env, cx):
        """translate `stmts` (followed by the end of the function) -> lines"""
        env = dict(env)
        out = []
        i = 0
        while i < len(stmts):
            st = stmts[i]
            rest = stmts[i + 1:]
            i += 1
            if self.inert(st, cx):
                if not is_doc(st) and not isinstance(st, ast.Pass):
                    out.append(self.skipped(st))
                continue
            if isinstance(st, ast.Return):
                if cx.ret_bool:
                    if not (isinstance(st.value, ast.Constant) and isinstance(st.value.value, bool)):
                        fail(st, "return value is not a bool constant")
                    out.append(cx.finish("true" if st.value.value else "false"))
                else:
                    if st.value is not None and not isinstance(st.value, ast.Constant):
                        fail(st, "return of a computed value")
                    out.append(cx.finish())
                return out
            if isinstance(st, ast.Continue):
                if cx.kind != "loopbody":
                    fail(st, "continue outside a translated loop body")
                out.append(cx.finish())
                return out
            if isinstance(st, ast.If) and not self.leaves(st):
                # every path through the `if` reaches the statement after it: the branches hand on the object, the writes
                # and the locals they rebind
                pre, c = self.truth(st.test, env, cx)
                out += self.binds(pre)
                assigned = []
                for n in ast.walk(st):
                    if isinstance(n, ast.Name) and isinstance(n.ctx, ast.Store) and n.id in env and n.id not in cx.opaque and n.id not in assigned:
                        assigned.append(n.id)
                tup = "(" + ", ".join(["self", "tx"] + [mangle(x) for x in assigned]) + ")"
                ty = " × ".join(["Printcore", "List Ev"] + [LEAN_TY[env[x]] for x in assigned])
                sub = Cx(cx.name, cx.kind)
                sub.opaque, sub.n = cx.opaque, cx.n
                sub.finish = lambda ret=None, tup=tup: f"pure {tup}"
                a = self.block(list(st.body), env, sub)
                b = self.block(list(st.orelse), env, sub)
                cx.n = sub.n
                j = cx.tmp("j")
                out.append(f"let {j} : {ty} ← if {c} then")
                out += ["    " + l for l in a]
                out.append("  else")
                out += ["    " + l for l in b]
                proj = [f"{j}.1", f"{j}.2" + (".1" if assigned else "")]
                for k, x in enumerate(assigned):
                    proj.append(f"{j}.2.2" + ".2" * k + (".1" if k < len(assigned) - 1 else ""))
                out.append(f"let self : Printcore := {proj[0]}")
                out.append(f"let tx : List Ev := {proj[1]}")
                for x, pj in zip(assigned, proj[2:]):
                    out.append(f"let {mangle(x)} : {LEAN_TY[env[x]]} := {pj}")
                continue
            if isinstance(st, ast.If):
                pre, c = self.truth(st.test, env, cx)
                out += self.binds(pre)
                a = self.block(list(st.body) + rest, env, cx)
                b = self.block(list(st.orelse) + rest, env, cx)
                out.append(f"if {c} then")
                out += ["  " + l for l in a]
                out.append("else")
                out += ["  " + l for l in b]
                return out
            if isinstance(st, ast.Try):
                hs = st.handlers
                if (len(hs) == 1 and hs[0].type is not None and ast.unparse(hs[0].type) == "device.DeviceError"
                        and not st.orelse and not st.finalbody):
                    out.append(f"-- try (line {st.lineno}); the `except device.DeviceError` handler (line {hs[0].lineno}) is not translated")
                    # the body cannot return/raise past the rest in the translated subset: splice it in
                    for s in st.body:
                        if any(isinstance(n, (ast.Return, ast.Continue, ast.Break)) for n in ast.walk(s)):
                            fail(s, "control flow inside try")
                    stmts = stmts[:i] + list(st.body) + stmts[i:]
                    continue
                fail(st, "try statement")
            if isinstance(st, ast.While):
                if (cx.kind == "method" and len(st.body) == 1 and isinstance(st.body[0], ast.Expr) and ast.unparse(st.body[0].value.func if isinstance(st.body[0].value, ast.Call) else st.body[0].value) == "time.sleep"
                        and not st.orelse):
                    if cx.name in self.blocked:
                        fail(st, "a second poll loop")
                    pre, c = self.truth(st.test, env, cx)
                    if pre:
                        fail(st, "the test of the poll can raise")
                    if any(k != "self" for k in env):
                        fail(st, "poll loop after local assignments")
                    self.blocked[cx.name] = (c, st.lineno)
                    out.append(f"-- blocking point (line {st.lineno}): while {comment_safe(ast.unparse(st.test))}: time.sleep(…)   [the test is `{cx.name}_blocked`]")
                    continue
                out += self.first_int_loop(st, env, cx)
                continue
            if isinstance(st, ast.For):
                out += self.unrolled_for(st, env, cx)
                continue
            if isinstance(st, ast.AugAssign):
                a = self_attr(st.target)
                if a in FIELDS and FIELDS[a] == "Int" and isinstance(st.op, ast.Add):
                    pre, t, ty = self.expr(st.value, env, cx)
                    if ty != "Int":
                        fail(st, "increment by a non-int")
                    out += self.binds(pre)
                    out.append(f"let self : Printcore := {{ self with {a} := (self.{a} + {t}) }}")
                    continue
                fail(st, f"statement {ast.unparse(st)}")
            if isinstance(st, ast.Assign) and len(st.targets) == 1:
                tg, v = st.targets[0], st.value
                a = self_attr(tg)
                if a is not None:
                    if a not in FIELDS:
                        fail(st, f"assignment to self.{a}, which is not part of the translated state")
                    pre, t, ty = self.expr(v, env, cx)
                    out += self.binds(pre)
                    out.append(f"let self : Printcore := {{ self with {a} := {self.coerce(st, t, ty, FIELDS[a])} }}")
                    continue
                if isinstance(tg, ast.Subscript) and self_attr(tg.value) == "sentlines":
                    pk, tk, tyk = self.expr(tg.slice, env, cx)
                    pv, tv, tyv = self.expr(v, env, cx)
                    if tyk != "Int" or tyv != "Text":
                        fail(st, "sentlines[k] = v: k is not an int or v not a string")
                    out += self.binds(pk + pv)
                    out.append(f"let self : Printcore := {{ self with sentlines := Dict.set self.sentlines {tk} {tv} }}")
                    continue
                if isinstance(tg, ast.Tuple):
                    # (layer, line) = self.mainqueue.idxs(i) ; gline = self.mainqueue.all_layers[layer][line]
                    if (len(tg.elts) == 2 and all(isinstance(x, ast.Name) for x in tg.elts) and is_call_on(v, "mainqueue", "idxs")
                            and len(v.args) == 1 and not v.keywords and rest and isinstance(rest[0], ast.Assign) and len(rest[0].targets) == 1
                            and isinstance(rest[0].targets[0], ast.Name)
                            and ast.unparse(rest[0].value) == f"self.mainqueue.all_layers[{tg.elts[0].id}][{tg.elts[1].id}]"):
                        la, li = tg.elts[0].id, tg.elts[1].id
                        g = rest[0].targets[0].id
                        for later in rest[1:]:
                            for n in ast.walk(later):
                                if isinstance(n, ast.Name) and n.id in (la, li) and isinstance(n.ctx, ast.Load) and not self.inert_ancestor(later, n, cx):
                                    fail(n, f"{n.id} (an index into the layer structure) is used by translated code")
                        pre, t, ty = self.expr(v.args[0], env, cx)
                        if ty != "Int":
                            fail(st, "idxs of a non-int")
                        out += self.binds(pre)
                        q = cx.tmp("g")
                        self.local(st, g, env, "Line")
                        out.append(f"-- lines {st.lineno}, {rest[0].lineno}: ({la}, {li}) = self.mainqueue.idxs(…); {g} = self.mainqueue.all_layers[{la}][{li}]")
                        out += [f"let {q} ← SenderPy.deref self.mainqueue", f"let {mangle(g)} : Text ← SenderPy.GCode.line_at {q} {t}"]
                        i += 1
                        continue
                    fail(st, f"statement {ast.unparse(st)}")
                if isinstance(tg, ast.Name):
                    pre, t, ty = self.expr(v, env, cx)
                    out += self.binds(pre)
                    self.local(st, tg.id, env, ty)
                    out.append(f"let {mangle(tg.id)} : {LEAN_TY[ty]} := {t}")
                    continue
                fail(st, f"statement {ast.unparse(st)}")
            if isinstance(st, ast.Expr) and isinstance(st.value, ast.Call):
                e = st.value
                if is_call_on(e, "sent", "append") and len(e.args) == 1 and not e.keywords:
                    pre, t, ty = self.expr(e.args[0], env, cx)
                    if ty != "Text":
                        fail(st, "sent.append of a non-string")
                    out += self.binds(pre)
                    out.append(f"let self : Printcore := {{ self with sent := self.sent ++ [{t}] }}")
                    continue
                if is_call_on(e, "printer", "write") and len(e.args) == 1 and not e.keywords:
                    a = e.args[0]
                    ok = (isinstance(a, ast.Call) and isinstance(a.func, ast.Attribute) and a.func.attr == "encode" and len(a.args) == 1
                          and isinstance(a.args[0], ast.Constant) and a.args[0].value == "ascii" and not a.keywords
                          and isinstance(a.func.value, ast.BinOp) and isinstance(a.func.value.op, ast.Add))
                    if not ok:
                        fail(st, "printer.write: expected (<string> + <string>).encode('ascii')")
                    pre, t, ty = self.expr(a.func.value, env, cx)
                    if ty != "Text":
                        fail(st, "printer.write of a non-string")
                    out += self.binds(pre)
                    out.append(f"let tx : List Ev := tx ++ [⟨self, Py.encode_ascii {t}⟩]    -- line {st.lineno}: self.printer.write")
                    continue
                if self_attr(e.func) is not None:
                    out += self.call_method(st, e, env, cx)
                    continue
            fail(st, f"statement {comment_safe(ast.unparse(st))}")
        out.append(cx.finish())
        return out

    @staticmethod
    def leaves(st):
        """does the statement contain a `return` / `continue` / `break` of the translated function?"""
        def walk(n):
            if isinstance(n, (ast.Return, ast.Continue, ast.Break)):
                return True
            if isinstance(n, (ast.FunctionDef, ast.Lambda, ast.While, ast.For)):
                return isinstance(n, (ast.While, ast.For)) and any(isinstance(c, ast.Return) for c in ast.walk(n))
            return any(walk(c) for c in ast.iter_child_nodes(n))
        return walk(st)

    def inert_ancestor(self, top, node, cx):
        """is `node` inside a skipped statement below `top`?"""
        def walk(st):
            if self.inert(st, cx) and any(n is node for n in ast.walk(st)):
                return True
            for f in ("body", "orelse", "finalbody"):
                for s in getattr(st, f, []) or []:
                    if isinstance(s, ast.stmt) and walk(s):
                        return True
            for h in getattr(st, "handlers", []) or []:
                for s in h.body:
                    if walk(s):
                        return True
            return False
        return walk(top)

    def unrolled_for(self, st, env, cx):
        if not (isinstance(st.target, ast.Name) and isinstance(st.iter, ast.List) and st.iter.elts and not st.orelse
                and all(isinstance(x, ast.Constant) and isinstance(x.value, str) for x in st.iter.elts)
                and len(st.body) == 1 and isinstance(st.body[0], ast.Assign) and len(st.body[0].targets) == 1
                and isinstance(st.body[0].targets[0], ast.Name) and st.body[0].targets[0].id != st.target.id):
            fail(st, "for loop (only `for v in [<str literals>]: x = <expr>` is translated, unrolled)")
        out = [f"-- line {st.lineno}: for {st.target.id} in {comment_safe(ast.unparse(st.iter))} (unrolled)"]
        asg = st.body[0]
        for x in st.iter.elts:
            self.lit(x.value)
            self.local(st, st.target.id, env, "Text")
            out.append(f"let {mangle(st.target.id)} : Text := {lean_text(x.value)}")
            pre, t, ty = self.expr(asg.value, env, cx)
            out += self.binds(pre)
            self.local(asg, asg.targets[0].id, env, ty)
            out.append(f"let {mangle(asg.targets[0].id)} : {LEAN_TY[ty]} := {t}")
        return out

    def first_int_loop(self, st, env, cx):
        """while len(ws) != 0:
               try: x = int(ws.pop(0)); self.f = x; break
               except: pass"""
        ok = (isinstance(st.test, ast.Compare) and len(st.test.ops) == 1 and isinstance(st.test.ops[0], ast.NotEq)
              and isinstance(st.test.left, ast.Call) and ast.unparse(st.test.left.func) == "len" and len(st.test.left.args) == 1
              and isinstance(st.test.left.args[0], ast.Name) and ast.unparse(st.test.comparators[0]) == "0"
              and not st.orelse and len(st.body) == 1 and isinstance(st.body[0], ast.Try))
        if ok:
            ws = st.test.left.args[0].id
            tr = st.body[0]
            ok = (len(tr.body) == 3 and len(tr.handlers) == 1 and tr.handlers[0].type is None and not tr.orelse and not tr.finalbody
                  and [type(s) for s in tr.handlers[0].body] == [ast.Pass]
                  and isinstance(tr.body[0], ast.Assign) and len(tr.body[0].targets) == 1 and isinstance(tr.body[0].targets[0], ast.Name)
                  and ast.unparse(tr.body[0].value) == f"int({ws}.pop(0))"
                  and isinstance(tr.body[1], ast.Assign) and len(tr.body[1].targets) == 1 and self_attr(tr.body[1].targets[0]) in FIELDS
                  and ast.unparse(tr.body[1].value) == tr.body[0].targets[0].id
                  and isinstance(tr.body[2], ast.Break))
        if not ok:
            fail(st, "while loop (only the poll `while …: time.sleep(c)` and the `first word that is an int` loop are translated)")
        x = tr.body[0].targets[0].id
        f = self_attr(tr.body[1].targets[0])
        if env.get(ws) != "LText" or FIELDS[f] != "Int":
            fail(st, f"{ws} is not a list of strings or self.{f} not an int")
        if x in LEAN_KW:
            fail(st, f"local name {x}")
        # afterwards ws and x are not to be used: remove them from the environment
        env.pop(ws)
        env.pop(x, None)
        return [f"-- line {st.lineno}: while len({ws}) != 0: try: {x} = int({ws}.pop(0)); self.{f} = {x}; break  except: pass",
                f"let self : Printcore := match Py.firstInt {mangle(ws)} with",
                f"  | some {x} => {{ self with {f} := {x} }}",
                "  | none => self"]

    # ------------------------------------------------------------------ functions
    def signature(self, name, fn):
        want = PARAMS[name]
        a = fn.args
        if a.vararg or a.kwarg or a.kwonlyargs or a.posonlyargs or fn.decorator_list:
            fail(fn, f"signature of {name}")
        names = [x.arg for x in a.args]
        if names[0] != "self" or names[1:] != list(want):
            fail(fn, f"{name}: parameters {names[1:]}, expected {list(want)}")
        dflts = [None] * (len(names) - 1 - len(a.defaults)) + list(a.defaults)
        sig = []
        for p, d in zip(names[1:], dflts):
            ty = want[p]
            dt = None
            if d is not None:
                if isinstance(d, ast.Constant) and isinstance(d.value, bool) and ty == "Bool":
                    dt = "true" if d.value else "false"
                elif isinstance(d, ast.Constant) and isinstance(d.value, int) and not isinstance(d.value, bool) and ty == "Int":
                    dt = f"({d.value} : Int)"
                else:
                    fail(fn, f"{name}: default of {p}")
            sig.append((p, ty, dt))
        return sig

    def method(self, name):
        fn = self.methods.get(name)
        if fn is None:
            raise Unsupported(f"printcore.{name} not found")
        sig = self.signature(name, fn)
        env = {"self": "Printcore"}
        for p, ty, _ in sig:
            if p in LEAN_KW:
                fail(fn, f"parameter name {p}")
            env[p] = ty
        params = "".join(f" ({p} : {LEAN_TY[ty]})" for p, ty, _ in sig)
        if name in PURE_METHODS:
            body = [s for s in fn.body if not is_doc(s)]
            if len(body) != 1 or not isinstance(body[0], ast.Return):
                fail(fn, f"{name}: expected a single return")
            cx = Cx(name, "method")
            env.pop("self")
            pre, t, ty = self.expr(body[0].value, env, cx)
            lines = self.binds(pre) + [f"pure {t}"]
            self.sigs[name] = sig
            return (f"/-- `printcore.{name}` (source line {fn.lineno}) -/\n"
                    f"def {name}{params} : Except PyErr {LEAN_TY[ty]} := do\n" + "\n".join("  " + l for l in lines) + "\n")
        cx = Cx(name, "method", ret_bool=name in RETURNS_BOOL)
        cx.opaque = self.find_opaque(fn)
        stmts = list(fn.body)
        if name == "startprint":
            # the thread that runs `_print` is started at the end: everything up to there is the caller's atomic section
            pass
        lines = self.block(stmts, env, cx)
        self.sigs[name] = sig
        ret = "Bool × Printcore × List Ev" if cx.ret_bool else "Printcore × List Ev"
        text = ""
        if name in self.blocked:
            c, ln = self.blocked[name]
            text += (f"/-- `printcore.{name}`: the test of the poll `while …: time.sleep(…)` (source line {ln}) - the print thread is parked while it holds -/\n"
                     f"def {name}_blocked (self : Printcore) : Bool :=\n  {c}\n\n")
        text += (f"/-- `printcore.{name}` (source line {fn.lineno}) -/\n"
                 f"def {name} (self : Printcore) (tx : List Ev){params} : Except PyErr ({ret}) := do\n" + "\n".join("  " + l for l in lines) + "\n")
        return text

    def print_continue(self):
        fn = self.methods.get("_print")
        if fn is None:
            raise Unsupported("printcore._print not found")
        loops = [n for n in ast.walk(fn) if isinstance(n, ast.While) and len(n.body) == 1 and ast.unparse(n.body[0]) == "self._sendnext()"]
        if len(loops) != 1 or loops[0].orelse:
            fail(fn, "_print: expected exactly one `while <test>: self._sendnext()`")
        calls = [n for n in ast.walk(fn) if isinstance(n, ast.Call) and self_attr(n.func) == "_sendnext"]
        if len(calls) != 1:
            fail(fn, "_print calls _sendnext more than once")
        cx = Cx("_print", "method")
        pre, c = self.truth(loops[0].test, {"self": "Printcore"}, cx)
        if pre:
            fail(loops[0], "the loop test of _print can raise")
        return (f"/-- `printcore._print`: the test of `while …: self._sendnext()` (source line {loops[0].lineno}) -/\n"
                f"def _print_continue (self : Printcore) : Bool :=\n  {c}\n")

    def loop_body(self, meth, new_name, path):
        """one trip through the body of a `while self._listen_can_continue():` loop of `meth` for a received line"""
        fn = self.methods.get(meth)
        if fn is None:
            raise Unsupported(f"printcore.{meth} not found")
        stmts = fn.body
        loop = None
        for depth in range(path):
            ws = [s for s in stmts if isinstance(s, ast.While)]
            if len(ws) != 1:
                fail(fn, f"{meth}: expected one while loop at nesting depth {depth}")
            loop = ws[0]
            stmts = loop.body
        if ast.unparse(loop.test) != "self._listen_can_continue()" or loop.orelse:
            fail(loop, f"{meth}: the loop that reads lines is not `while self._listen_can_continue():`")
        body = list(loop.body)
        if not (body and isinstance(body[0], ast.Assign) and len(body[0].targets) == 1 and isinstance(body[0].targets[0], ast.Name)
                and ast.unparse(body[0].value) == "self._readline()"):
            fail(loop, f"{meth}: the loop body does not start with `<line> = self._readline()`")
        line = body[0].targets[0].id
        if line in LEAN_KW:
            fail(loop, f"local name {line}")
        cx = Cx(new_name, "loopbody")
        cx.opaque = self.find_opaque(fn)
        notes = []
        k = 1
        # `if line is None: [logging]; break`
        st = body[k] if k < len(body) else None
        if (isinstance(st, ast.If) and ast.unparse(st.test) == f"{line} is None" and not st.orelse and st.body
                and isinstance(st.body[-1], ast.Break) and all(self.inert(s, cx) for s in st.body[:-1])):
            notes.append(f"-- not translated (line {st.lineno}): if {line} is None: … break   [connection lost: the loop ends]")
            k += 1
        else:
            fail(loop, f"{meth}: expected `if {line} is None: … break` after the read")
        # the counter of empty lines
        st = body[k] if k < len(body) else None
        if isinstance(st, ast.If) and ast.unparse(st.test) == f"not {line}":
            cnt = None
            ok = (len(st.body) == 2 and isinstance(st.body[0], ast.AugAssign) and isinstance(st.body[0].target, ast.Name)
                  and isinstance(st.body[1], ast.If) and not st.body[1].orelse and [type(s) for s in st.body[1].body] == [ast.Break]
                  and len(st.orelse) == 1 and isinstance(st.orelse[0], ast.Assign))
            if ok:
                cnt = st.body[0].target.id
                ok = (ast.unparse(st.body[0]) == f"{cnt} += 1" and isinstance(st.body[1].test, ast.Compare)
                      and ast.unparse(st.body[1].test.left) == cnt and ast.unparse(st.orelse[0]) == f"{cnt} = 0")
            if not ok:
                fail(st, f"{meth}: `if not {line}:` is not the counter of empty lines")
            for later in body[k + 1:]:
                if any(isinstance(n, ast.Name) and n.id == cnt for n in ast.walk(later)):
                    fail(later, f"{cnt} is used by translated code")
            notes.append(f"-- not translated (line {st.lineno}): if not {line}: {cnt} += 1; if {comment_safe(ast.unparse(st.body[1].test))}: break  else: {cnt} = 0   [read time-outs]")
            k += 1
        def has_break(n):           # a `break` that belongs to this loop (not to a nested one)
            if isinstance(n, ast.Break):
                return True
            if isinstance(n, (ast.While, ast.For)):
                return any(has_break(c) for c in n.orelse)
            return any(has_break(c) for c in ast.iter_child_nodes(n))
        for s in body[k:]:
            if has_break(s):
                fail(s, "break in a translated loop body")
        env = {"self": "Printcore", line: "Text"}
        lines = notes + self.block(body[k:], env, cx)
        return (f"/-- `printcore.{meth}`: one trip through the body of `while self._listen_can_continue():` (source line {loop.lineno}) for the\n"
                f"    received line `{line}` (`{line} = self._readline()`, not `None`) -/\n"
                f"def {new_name} (self : Printcore) (tx : List Ev) ({mangle(line)} : Text) : Except PyErr (Printcore × List Ev) := do\n"
                + "\n".join("  " + l for l in lines) + "\n")

    # ------------------------------------------------------------------ output
    def render(self):
        self.used_regex = set()
        defs = [self.method(n) for n in METHODS]
        defs.append(self.print_continue())
        defs.append(self.loop_body("_listen", "_listen_line", 1))
        defs.append(self.loop_body("_listen_until_online", "_listen_until_online_line", 2))
        out = [f"/- GENERATED by tools/gen_sender.py from {SRC_PC} and {SRC_GC} (source text, by AST). Do not edit. -/",
               "import GscribModel.Model.SenderPrelude", "namespace GscribModel.Gen.SenderSrc",
               "open GscribModel GscribModel.Sender GscribModel.SenderPy", "set_option linter.unusedVariables false", ""]
        for name in sorted(self.used_regex):
            pat, ln = self.regex[name]
            out += [f"/-- `gcoder.{name} = re.compile(…)` (gcoder.py line {ln}), pattern text `{comment_safe(pat)}` -/",
                    f"def {name} : Re := ⟨{lean_text(pat)}⟩", ""]
        txt, ln = self.has_index
        out += [f"/-- `GCode.has_index` (gcoder.py line {ln}) -/", f"def GCode_has_index (self : GCode) (i : Int) : Bool :=\n  {txt}", "",
                f"/-- `GCode.prepare`: `self.lines = [line_class(l2) for l2 in (l.strip() for l in data) if l2]` (gcoder.py line {self.prepare_line});",
                "    a line object is its `raw` text -/",
                "def GCode_prepare_lines (data : List Text) : List Text :=\n  (data.map Py.strip).filter Py.truthy", ""]
        out += ["/-- the attributes of `printcore` that the translated methods read or assign -/", "structure Printcore where"]
        out += [f"  {f} : {LEAN_TY[ty]}" for f, ty in FIELDS.items()]
        out += ["deriving Repr, DecidableEq", "",
                f"/-- their values after `printcore.__init__` (source line {self.init_line}) without a port -/",
                "def Printcore.init : Printcore :=",
                "  { " + ",\n    ".join(f"{f} := {self.init_vals[f][0]}" for f in FIELDS) + " }", "",
                "/-- one `self.printer.write(data)`: the object at that moment, and the data -/",
                "structure Ev where", "  at_write : Printcore", "  data : Text", "deriving Repr, DecidableEq", ""]
        out += [d for d in defs]
        out += ["/-- every string literal of the translated code (and of the tests of skipped `if`s), in order of first appearance -/",
                "def literals : List Text :=\n  [" + ",\n   ".join(lean_text(s) for s in self.literals) + "]", "",
                f"/-- the callbacks that `__init__` sets to `None` (the `if self.<x>cb:` branches are skipped) -/",
                "def callbacks : List String := [" + ", ".join('"' + c + '"' for c in self.callbacks) + "]", ""]
        out.append("end GscribModel.Gen.SenderSrc")
        return "\n".join(out) + "\n"


def main():
    args = [a for a in sys.argv[1:] if not a.startswith("--")]
    if "--out" in sys.argv:
        o = sys.argv[sys.argv.index("--out") + 1]
        args = [a for a in args if a != o]
    repo = Path(args[0] if args else os.environ.get("GSCRIB_REPO", "/repo"))
    try:
        text = T(repo).render()
    except Unsupported as e:
        print("gen_sender: the source is outside the translated subset:", e, file=sys.stderr)
        raise SystemExit(3)
    if "--stdout" in sys.argv:
        sys.stdout.write(text)
        return
    out = Path(sys.argv[sys.argv.index("--out") + 1]) if "--out" in sys.argv else OUT
    out.parent.mkdir(parents=True, exist_ok=True)
    if not out.exists() or out.read_text() != text:
        out.write_text(text)
        print("gen_sender: rewrote", out)


if __name__ == "__main__":
    main()

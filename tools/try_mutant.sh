#!/bin/bash
# usage: tools/try_mutant.sh <name> <props,comma> <file> <python-expr old=>new via: OLD NEW>   (exact string replace, first occurrence)
# Creates a scratch worktree of /repo under /tmp/mut, applies the edit, runs the checks (no proof audit), removes the worktree.
set -u
name=$1; props=$2; file=$3; old=$4; new=$5
d=/tmp/mut/$name
mkdir -p /tmp/mut; git -C /repo worktree remove --force $d 2>/dev/null; rm -rf $d
git -C /repo worktree add -q --detach $d HEAD || exit 2
python3 - "$d/$file" "$old" "$new" <<'PY' || { git -C /repo worktree remove --force $d; exit 2; }
import sys
p,old,new=sys.argv[1:4]
s=open(p).read()
if old not in s: print("MUTANT: pattern not found"); sys.exit(1)
open(p,'w').write(s.replace(old,new,1))
PY
if [ "${SUITE:-0}" = "1" ]; then (cd $d && /venv/bin/python -m pytest -q -p no:cacheprovider -x 2>&1 | tail -1); fi
for p in ${props//,/ }; do
  out=$(cd /verif && GSCRIB_REPO=$d /venv/bin/python run.py check $p --no-proof 2>&1 | grep -v Warning | grep -v "vector =" | tail -3)
  echo "[$name] $p -> $(echo "$out" | grep -c VIOLATION) violation line(s): $(echo "$out" | grep VIOLATION | head -1)"
done
git -C /repo worktree remove --force $d

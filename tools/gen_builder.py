#!/usr/bin/env python3
"""Translator: gscrib/gcode_builder.py (the commands of GCodeBuilder that go through a state setter and write one
statement)  ->  GscribModel/Gen/BuilderSrc.lean

For each of the methods in METHODS the body is translated statement by statement (source text, by AST; nothing is
imported or executed) into a Lean function

    GCodeBuilder.<m> (self : BSt) (args…) : BSt × Option Err

where `BSt` = (`state : GState` - the translated state class of `gen_state.py` -, `_distance_mode`, `out` - the
statements handed to `GCodeCore.write`, oldest first) and the result is the builder **as it was when the method
returned or raised** plus the exception class.  `Props/BuilderTie.lean` proves that the hand-written builder model's
`step` agrees with these functions for every state and argument: same rejections, nothing changed and nothing written by
a rejected call, same new state, same statement.

Subset (anything else: the translator refuses):
  `if c: raise ValueError(…)` / `if … else …`; `x = Enum(x)` (a value that is no member raises `ValueError`);
  `self.state._m(args)`; `x = self.state.<property>`; `x = Enum.from_units(y)`; `x = {"K": v, …}`;
  `x = self.format.parameters({…})`; `x = self._get_statement(enum[, params])`; `x = f"{a} {b}"`;
  `x = <text-layout arithmetic>` used only inside a format spec; `x = A if c else B`; `self._f = x`;
  `self.write(x)` / `super().write(x)`; comparisons of enum arguments with members, of numbers with literals.
Primitives (hand-written prelude `Model/GenPrelude.lean`, tied by correspondence): `fmtWords` (`format.parameters` /
`format.command`: a non-finite value raises `ValueError`), `getStatement` (`_get_statement`: table entry of the member +
formatted words), `coreWrite` (`GCodeCore.write`).  Comment texts are not modelled.

usage: gen_builder.py [repo_root] [--out FILE | --stdout]
"""
import ast
import os
import sys
from fractions import Fraction
from pathlib import Path

sys.path.insert(0, str(Path(__file__).resolve().parent))
import gen_state  # noqa: E402  (enum reader, type names)

V = Path(__file__).resolve().parent.parent
OUT = V / "lean" / "GscribModel" / "Gen" / "BuilderSrc.lean"
METHODS = ["write", "set_time_units", "set_temperature_units", "set_plane", "set_direction", "set_resolution", "set_distance_mode",
           "set_extrusion_mode", "set_feed_mode", "set_feed_rate", "set_tool_power", "set_fan_speed", "set_bed_temperature",
           "set_hotend_temperature", "set_chamber_temperature", "sleep", "tool_on", "tool_off", "power_on", "power_off",
           "tool_change", "coolant_on", "coolant_off", "query", "_track_move_params", "_update_axes"]
# `ParamsDict` arguments: the finite words of a move (`_track_move_params` reads F and S) / the whole dictionary incl. X, Y, Z
PARAM_TYPES = {("_track_move_params", "params"): "Words", ("_update_axes", "params"): "Params", ("_update_axes", "axes"): "Pt"}
ERRORS = {"ValueError": "valueError", "ToolStateError": "toolState", "CoolantStateError": "coolantState"}


class Unsupported(Exception):
    pass


def fail(node, what):
    raise Unsupported(f"line {getattr(node, 'lineno', '?')}: {what}")


class T:
    def __init__(self, repo: Path):
        self.enums = gen_state.read_enums(repo)
        self.st = gen_state.Translator(repo)          # field / property / method table of GState
        tree = ast.parse((repo / "gscrib" / "gcode_builder.py").read_text())
        cls = [n for n in tree.body if isinstance(n, ast.ClassDef) and n.name == "GCodeBuilder"]
        if len(cls) != 1:
            raise Unsupported("class GCodeBuilder not found")
        self.methods = {n.name: n for n in cls[0].body if isinstance(n, ast.FunctionDef)}
        self.extra_enums = []       # enums used here that the state translation does not declare
        self.from_units = {}        # enum class -> source enum of its from_units classmethod
        self._scan_from_units(repo)
        self.check_get_statement()

    def check_get_statement(self):
        """`_get_statement` is a primitive (`getStatement`: table entry of the member, `format.command`, `format.comment`, joined by a
        blank - a function of its arguments and of the formatter, nothing remembered between calls); make sure it still is that"""
        m = self.methods.get("_get_statement")
        if m is None:
            raise Unsupported("GCodeBuilder._get_statement not found")
        body = [ast.unparse(b) for b in m.body if not (isinstance(b, ast.Expr) and isinstance(b.value, ast.Constant))]
        want = ["entry = gcode_table.get_entry(value)", "command = self.format.command(entry.instruction, params)",
                "comment = self.format.comment(comment or entry.description)", "return f'{command} {comment}'"]
        if body != want:
            raise Unsupported("GCodeBuilder._get_statement is no longer the stateless lookup the primitive `getStatement` transcribes: " + repr(body))

    def _scan_from_units(self, repo):
        for f in sorted((repo / "gscrib" / "enums").rglob("*.py")):
            for node in ast.parse(f.read_text()).body:
                if isinstance(node, ast.ClassDef) and node.name in self.enums:
                    for st in node.body:
                        if isinstance(st, ast.FunctionDef) and st.name == "from_units":
                            body = [b for b in st.body if not (isinstance(b, ast.Expr) and isinstance(b.value, ast.Constant))]
                            arg = st.args.args[1]
                            if (len(body) == 1 and isinstance(body[0], ast.Return) and ast.unparse(body[0].value) == f"cls({arg.arg}.value)"
                                    and isinstance(arg.annotation, ast.Name) and arg.annotation.id in self.enums):
                                self.from_units[node.name] = arg.annotation.id
                            else:
                                fail(st, f"{node.name}.from_units has an unexpected body")

    def need_enum(self, name):
        if name not in self.st.used_enums and name not in self.extra_enums:
            self.extra_enums.append(name)

    # ---------------------------------------------------------------- types of parameters
    def param_type(self, ann, node):
        src = ast.unparse(ann)
        if src == "float":
            return "Val"
        if src == "int":
            return "Int"
        if src == "bool":
            return "Bool"
        if src == "str":
            return "String"
        parts = [p.strip() for p in src.split("|")]
        if len(parts) == 2 and parts[1] == "str" and parts[0] in self.enums:
            self.need_enum(parts[0])
            return f"Arg:{parts[0]}"
        fail(node, f"parameter annotation {src}")

    @staticmethod
    def lean_ty(ty):
        return f"(Arg {ty[4:]})" if ty.startswith("Arg:") else {"Words": "(List (String × Rat))", "VParams": "(List (String × Val))", "Params": "Builder.Params",
                                                                "OQ": "OQ"}.get(ty, ty)

    @staticmethod
    def rat(v):
        f = Fraction(repr(v)) if isinstance(v, float) else Fraction(v)
        return str(f.numerator) if f.denominator == 1 else f"(({f.numerator} : Rat) / {f.denominator})"

    # ---------------------------------------------------------------- expressions
    def expr(self, e, env, want=None):
        if isinstance(e, ast.Constant):
            if isinstance(e.value, bool):
                return ("true" if e.value else "false"), "Bool"
            if isinstance(e.value, (int, float)):
                if want == "Int":
                    return f"({int(e.value)} : Int)", "Int"
                return f"(Val.fin {self.rat(e.value)})", "Val"
            if isinstance(e.value, str):
                return '""', "String"
            if e.value is None:
                return "none", "None"
            fail(e, f"constant {e.value!r}")
        if isinstance(e, ast.JoinedStr):
            return '""', "String"
        if isinstance(e, ast.Name):
            if e.id in env:
                if env[e.id] == "Rat" and want == "Val":
                    return f"(Val.fin {e.id})", "Val"
                return e.id, env[e.id]
            fail(e, f"unknown name {e.id}")
        if isinstance(e, ast.Attribute) and ast.unparse(e) == "self._current_params":
            return f"{env['$self']}._current_params", "Params"
        if isinstance(e, ast.Call) and isinstance(e.func, ast.Attribute) and e.func.attr == "get" and isinstance(e.func.value, ast.Name) \
                and env.get(e.func.value.id) == "Words" and len(e.args) == 1 and isinstance(e.args[0], ast.Constant):
            return f'(lookupQ {e.func.value.id} "{e.args[0].value}")', "OQ"
        if isinstance(e, ast.Attribute) and isinstance(e.value, ast.Name) and e.value.id in self.enums:
            if e.attr not in [m for m, _ in self.enums[e.value.id]]:
                fail(e, f"{e.value.id} has no member {e.attr}")
            self.need_enum(e.value.id)
            return f"{e.value.id}.{e.attr}", e.value.id
        if isinstance(e, ast.Attribute) and ast.unparse(e.value) == "self.state":
            if e.attr in self.st.props:
                f = self.st.props[e.attr]
                return f"{env['$self']}.state.{f}", self.st.ftype[f]
            fail(e, f"state property {e.attr}")
        if isinstance(e, ast.IfExp):
            c, cty = self.expr(e.test, env, "Bool")
            a, aty = self.expr(e.body, env, want)
            b, bty = self.expr(e.orelse, env, aty)
            if cty != "Bool" or aty != bty:
                fail(e, f"conditional of types {cty}, {aty}, {bty}")
            return f"(if {c} then {a} else {b})", aty
        if isinstance(e, ast.UnaryOp) and isinstance(e.op, ast.Not):
            t, ty = self.expr(e.operand, env, "Bool")
            return f"(!{t})", "Bool"
        if isinstance(e, ast.BoolOp):
            parts = []
            for v in e.values:
                t, ty = self.expr(v, env, "Bool")
                if ty != "Bool":
                    fail(e, "and/or on a non-boolean")
                parts.append(t)
            return "(" + (" && " if isinstance(e.op, ast.And) else " || ").join(parts) + ")", "Bool"
        if isinstance(e, ast.Compare) and len(e.ops) == 1:
            a, b, op = e.left, e.comparators[0], e.ops[0]
            ta, tya = self.expr(a, env)
            tb, tyb = self.expr(b, env, tya if tya in ("Int", "Val") else None)
            if isinstance(op, ast.Is) and isinstance(b, ast.Constant) and isinstance(b.value, bool) and tya == "Bool":
                return (ta if b.value else f"(!{ta})"), "Bool"
            if isinstance(op, (ast.Eq, ast.NotEq)):
                if tya.startswith("Arg:") and tyb == tya[4:]:
                    t = f"decide ({ta} = Arg.val {tb})"
                elif tya == tyb and tya in self.enums:
                    t = f"decide ({ta} = {tb})"
                else:
                    fail(e, f"equality of {tya} with {tyb}")
                return (t if isinstance(op, ast.Eq) else f"(!{t})"), "Bool"
            sym = {ast.Lt: ("lt", "<"), ast.LtE: ("le", "≤"), ast.Gt: ("gt", ">"), ast.GtE: ("ge", "≥")}.get(type(op))
            if sym and tya == tyb == "Val":
                return f"(Val.{sym[0]} {ta} {tb})", "Bool"
            if sym and tya == tyb == "Int":
                return f"decide ({ta} {sym[1]} {tb})", "Bool"
            fail(e, f"comparison {ast.unparse(e)} ({tya}, {tyb})")
        fail(e, f"expression {ast.unparse(e)}")

    def params_dict(self, d, env):
        """{'P': fan_number, 'S': speed} -> Lean list of (key, Val)"""
        if not isinstance(d, ast.Dict):
            fail(d, "expected a dict literal")
        items = []
        for k, v in zip(d.keys, d.values):
            if not (isinstance(k, ast.Constant) and isinstance(k.value, str)):
                fail(d, "dict key")
            t, ty = self.expr(v, env)
            if ty == "Int":
                t = f"(Val.fin ({t} : Int))"
            elif ty != "Val":
                fail(d, f"dict value of type {ty}")
            items.append(f'("{k.value}", {t})')
        return "[" + ", ".join(items) + "]"

    def enum_ref(self, e, env):
        """an enum-typed expression -> (class-name text, member-name text) for the table lookup"""
        t, ty = self.expr(e, env)
        if ty not in self.enums:
            fail(e, f"_get_statement of a {ty}")
        self.need_enum(ty)
        return f'"{ty}"', f"({ty}.memberName {t})"

    # ---------------------------------------------------------------- statements
    def block(self, stmts, env, depth):
        ind = "  " * depth
        cur = env["$self"]
        if not stmts:
            return f"{ind}({cur}, none)\n"
        st, rest = stmts[0], stmts[1:]
        if isinstance(st, ast.Expr) and isinstance(st.value, ast.Constant) and isinstance(st.value.value, str):
            return self.block(rest, env, depth)
        if isinstance(st, ast.Raise):
            name = st.exc.func.id if isinstance(st.exc, ast.Call) and isinstance(st.exc.func, ast.Name) else None
            if name not in ERRORS:
                fail(st, f"raise {ast.unparse(st)}")
            return f"{ind}({cur}, some .{ERRORS[name]})\n"
        if isinstance(st, ast.Return) and st.value is None:
            return f"{ind}({cur}, none)\n"
        if isinstance(st, ast.If) and not st.orelse and isinstance(st.test, ast.Compare) and len(st.test.ops) == 1 \
                and isinstance(st.test.ops[0], ast.IsNot) and isinstance(st.test.left, ast.Name) and env.get(st.test.left.id) == "OQ" \
                and isinstance(st.test.comparators[0], ast.Constant) and st.test.comparators[0].value is None:
            x = st.test.left.id
            envs = dict(env, **{x: "Rat"})
            # inside the branch the name denotes the number; afterwards it is the optional value again
            return (f"{ind}match {x} with\n{ind}| some {x}_v =>\n{ind}  let {x} : Rat := {x}_v\n"
                    + self.block(list(st.body) + [("$rebind", x)] + rest, envs, depth + 1)
                    + f"{ind}| none =>\n" + self.block(rest, env, depth + 1))
        if isinstance(st, tuple) and st[0] == "$rebind":
            x = st[1]
            return f"{ind}let {x} : OQ := some {x}\n" + self.block(rest, dict(env, **{x: "OQ"}), depth)
        if isinstance(st, ast.If):
            c, cty = self.expr(st.test, env, "Bool")
            if cty != "Bool":
                fail(st, "condition")
            return (f"{ind}if {c} then\n" + self.block(list(st.body) + rest, env, depth + 1) + f"{ind}else\n"
                    + self.block(list(st.orelse) + rest, env, depth + 1))
        if isinstance(st, ast.Expr) and isinstance(st.value, ast.Call):
            c = st.value
            src = ast.unparse(c.func)
            if src.startswith("self.state.") and c.func.attr in self.st.methods:            # a state setter
                m = self.st.methods[c.func.attr]
                params = m.args.args[1:]
                defaults = dict(zip([a.arg for a in params][len(params) - len(m.args.defaults):], m.args.defaults))
                args = ""
                for i, p in enumerate(params):
                    ty = self.st.lean_type(p.annotation, c)
                    if i < len(c.args):
                        t, got = self.expr(c.args[i], env, ty)
                    elif p.arg in defaults:
                        t, got = self.st.expr(defaults[p.arg], {"$self": "self", "$n": [0]}, ty)
                    else:
                        fail(c, f"missing argument {p.arg}")
                    if got != ty:
                        fail(c, f"argument {p.arg} of {c.func.attr}: expected {ty}, got {got}")
                    args += f" {t}"
                n = self.fresh(env)
                env2 = dict(env, **{"$self": n})
                return (f"{ind}match GState.{c.func.attr} {cur}.state{args} with\n"
                        f"{ind}| (g, some e) => ({{ {cur} with state := g }}, some e)\n"
                        f"{ind}| (g, none) =>\n{ind}  let {n} : BSt := {{ {cur} with state := g }}\n" + self.block(rest, env2, depth + 1))
            if src == "super()._update_axes" and len(c.args) == 2:
                a, aty = self.expr(c.args[0], env)
                p_, pty = self.expr(c.args[1], env)
                if aty != "Pt" or pty != "Params":
                    fail(c, f"super()._update_axes({aty}, {pty})")
                n = self.fresh(env)
                return f"{ind}let {n} : BSt := coreUpdateAxes {cur} {a} {p_}\n" + self.block(rest, dict(env, **{"$self": n}), depth)
            if src in ("self.write", "super().write") and len(c.args) == 1:
                t, ty = self.expr(c.args[0], env)
                if ty == "Words":
                    t, ty = f"[Part.words {t}]", "SStmt"          # bare words are a statement too (`F1000`)
                if ty != "SStmt":
                    fail(c, f"write() of a {ty}")
                n = self.fresh(env)
                env2 = dict(env, **{"$self": n})
                if src == "super().write":
                    return f"{ind}let {n} : BSt := coreWrite {cur} {t}\n" + self.block(rest, env2, depth)
                return (f"{ind}match GCodeBuilder.write {cur} {t} with\n{ind}| ({n}, some e) => ({n}, some e)\n{ind}| ({n}, none) =>\n"
                        + self.block(rest, env2, depth + 1))
            fail(st, f"statement {ast.unparse(st)}")
        if isinstance(st, ast.Assign) and len(st.targets) == 1:
            tgt, v = st.targets[0], st.value
            if isinstance(tgt, ast.Attribute) and ast.unparse(tgt.value) == "self" and tgt.attr == "_distance_mode":
                t, ty = self.expr(v, env)
                if ty != "DistanceMode":
                    fail(st, "_distance_mode of a " + ty)
                n = self.fresh(env)
                return f"{ind}let {n} : BSt := {{ {cur} with _distance_mode := {t} }}\n" + self.block(rest, dict(env, **{"$self": n}), depth)
            if not isinstance(tgt, ast.Name):
                fail(st, f"assignment target {ast.unparse(tgt)}")
            name = tgt.id
            # x = Enum(x)
            if isinstance(v, ast.Call) and isinstance(v.func, ast.Name) and v.func.id in self.enums and len(v.args) == 1 \
                    and isinstance(v.args[0], ast.Name) and env.get(v.args[0].id) == f"Arg:{v.func.id}":
                env2 = dict(env, **{name: v.func.id})
                return (f"{ind}match {v.args[0].id} with\n{ind}| Arg.bogus => ({cur}, some .valueError)\n{ind}| Arg.val {name} =>\n"
                        + self.block(rest, env2, depth + 1))
            # x = Enum.from_units(y)
            if isinstance(v, ast.Call) and isinstance(v.func, ast.Attribute) and v.func.attr == "from_units" \
                    and isinstance(v.func.value, ast.Name) and v.func.value.id in self.from_units:
                en = v.func.value.id
                t, ty = self.expr(v.args[0], env)
                if ty != self.from_units[en]:
                    fail(st, f"{en}.from_units of a {ty}")
                self.need_enum(en)
                env2 = dict(env, **{name: en})
                return (f"{ind}match {en}.ofValue? ({ty}.value {t}) with\n{ind}| none => ({cur}, some .valueError)\n{ind}| some {name} =>\n"
                        + self.block(rest, env2, depth + 1))
            # x = self.format.parameters({...})
            if isinstance(v, ast.Call) and ast.unparse(v.func) == "self.format.parameters" and len(v.args) == 1:
                ps = self.params_dict(v.args[0], env)
                env2 = dict(env, **{name: "Words"})
                return (f"{ind}match fmtWords {ps} with\n{ind}| none => ({cur}, some .valueError)\n{ind}| some {name} =>\n"
                        + self.block(rest, env2, depth + 1))
            # x = self._get_statement(enum[, params])
            if isinstance(v, ast.Call) and ast.unparse(v.func) == "self._get_statement" and 1 <= len(v.args) <= 2 and not v.keywords:
                cls, mem = self.enum_ref(v.args[0], env)
                if len(v.args) == 2:
                    if isinstance(v.args[1], ast.Name) and env.get(v.args[1].id) == "VParams":
                        ps = v.args[1].id
                    else:
                        ps = self.params_dict(v.args[1], env)
                else:
                    ps = "[]"
                env2 = dict(env, **{name: "SStmt"})
                return (f"{ind}match getStatement {cls} {mem} {ps} with\n{ind}| none => ({cur}, some .valueError)\n{ind}| some {name} =>\n"
                        + self.block(rest, env2, depth + 1))
            # x = {...}
            if isinstance(v, ast.Dict):
                env2 = dict(env, **{name: "VParams"})
                return f"{ind}let {name} : List (String × Val) := {self.params_dict(v, env)}\n" + self.block(rest, env2, depth)
            # x = f"{a} {b}"   (statement text assembled from pieces)
            if isinstance(v, ast.JoinedStr):
                pieces = []
                for part in v.values:
                    if isinstance(part, ast.Constant):
                        if part.value.strip() not in ("", "T"):
                            fail(st, f"literal text {part.value!r} in a statement")
                        if part.value.strip() == "T":
                            pieces.append("T")
                        continue
                    val = part.value
                    if isinstance(val, ast.Name) and env.get(val.id) == "Words":
                        pieces.append(f"[Part.words {val.id}]")
                    elif isinstance(val, ast.Name) and env.get(val.id) == "SStmt":
                        pieces.append(val.id)
                    elif isinstance(val, ast.Name) and env.get(val.id) == "Int" and pieces and pieces[-1] == "T":
                        if part.format_spec is not None:
                            for n_ in ast.walk(part.format_spec):
                                if isinstance(n_, ast.Name) and env.get(n_.id) != "Layout":
                                    fail(st, "format spec")
                        pieces[-1] = f"[Part.tword {val.id}]"
                    else:
                        fail(st, f"piece {ast.unparse(val)} in a statement")
                if "T" in pieces:
                    fail(st, "dangling T")
                env2 = dict(env, **{name: "SStmt"})
                return f"{ind}let {name} : SStmt := " + " ++ ".join(pieces) + "\n" + self.block(rest, env2, depth)
            # text-layout arithmetic (number of digits …): may only be used inside a format spec
            if all(isinstance(n_, (ast.BinOp, ast.Call, ast.Name, ast.Attribute, ast.Constant, ast.Pow, ast.Load, ast.operator)) for n_ in ast.walk(v)) \
                    and any(isinstance(n_, ast.Call) for n_ in ast.walk(v)) and "math." in ast.unparse(v):
                return self.block(rest, dict(env, **{name: "Layout"}), depth)
            # plain expression
            t, ty = self.expr(v, env)
            if ty in self.enums or ty in ("Val", "Int", "Bool", "OQ"):
                env2 = dict(env, **{name: ty})
                return f"{ind}let {name} : {self.lean_ty(ty)} := {t}\n" + self.block(rest, env2, depth)
            fail(st, f"assignment {ast.unparse(st)[:60]}")
        fail(st, f"statement {ast.unparse(st)[:60]}")

    def fresh(self, env):
        env["$n"][0] += 1
        return f"s{env['$n'][0]}"

    def method(self, name):
        m = self.methods.get(name)
        if m is None:
            raise Unsupported(f"GCodeBuilder.{name} not found")
        if m.args.kwarg or m.args.vararg:
            fail(m, f"{name} takes *args/**kwargs")
        env, sig = {"$self": "self", "$n": [0]}, ""
        for a in m.args.args[1:]:
            if name == "write" and a.arg == "statement":
                ty = "SStmt"
            elif (name, a.arg) in PARAM_TYPES:
                ty = PARAM_TYPES[(name, a.arg)]
            else:
                ty = self.param_type(a.annotation, m)
            env[a.arg] = ty
            sig += f" ({a.arg} : {self.lean_ty(ty)})"
        body = self.block(list(m.body), env, 1)
        return f"/-- `GCodeBuilder.{name}` (source line {m.lineno}) -/\ndef GCodeBuilder.{name} (self : BSt){sig} : BSt × Option Err :=\n{body}"

    def render(self):
        meths = [self.method(n) for n in METHODS]
        out = ["/- GENERATED by tools/gen_builder.py from gscrib/gcode_builder.py (source text, by AST). Do not edit. -/",
               "import GscribModel.Gen.StateSrc", "namespace GscribModel.Gen.BuilderSrc",
               "open GscribModel.Builder GscribModel.GenPrelude GscribModel.Gen.StateSrc", "set_option linter.unusedVariables false", ""]
        for en in self.extra_enums:
            ms = self.enums[en]
            out.append(f"/-- `gscrib.enums.{en}` -/")
            out.append(f"inductive {en} where " + " ".join(f"| {m}" for m, _ in ms))
            out.append("deriving DecidableEq, Repr, Inhabited")
            out.append(f"def {en}.value : {en} → String")
            out += [f"  | .{m} => \"{v}\"" for m, v in ms]
            out.append(f"def {en}.ofValue? : String → Option {en}")
            out += [f"  | \"{v}\" => some .{m}" for m, v in ms] + ["  | _ => none"]
            out.append(f"def {en}.memberName : {en} → String")
            out += [f"  | .{m} => \"{m}\"" for m, _ in ms]
            out.append("")
        out.append("/-- the builder: its state object, `GCodeCore._distance_mode` / `_current_axes` / `_current_params`, the registered hooks "
                   "(`GCodeBuilder._hooks`, described as data), what has been handed to `GCodeCore.write`, and the hook calls made -/")
        out.append("structure BSt where\n  state : GState\n  _distance_mode : DistanceMode\n  _current_axes : Pt\n  _current_params : Builder.Params\n"
                   "  _hooks : List Hook\n  out : List SStmt\n  calls : List HookCall\nderiving DecidableEq, Repr\n")
        out.append("/-- `GCodeCore.write(statement)`: the statement goes to the writers -/")
        out.append("def coreWrite (s : BSt) (st : SStmt) : BSt := { s with out := s.out ++ [st] }\n")
        out.append("/-- `GCodeCore._update_axes(axes, params)`: `_current_params.update(params)`, then `_current_axes = axes` -/")
        out.append("def coreUpdateAxes (s : BSt) (axes : Pt) (params : Builder.Params) : BSt :=\n"
                   "  { s with _current_params := s._current_params.update params, _current_axes := axes }\n")
        out += meths
        out.append("def translated : List String := [" + ", ".join(f'"{n}"' for n in METHODS) + "]\n")
        out.append("end GscribModel.Gen.BuilderSrc")
        return "\n".join(out) + "\n"


def main():
    args = [a for a in sys.argv[1:] if not a.startswith("--")]
    repo = Path(args[0] if args else os.environ.get("GSCRIB_REPO", "/repo"))
    try:
        text = T(repo).render()
    except (Unsupported, gen_state.Unsupported) as e:
        print("gen_builder: the source is outside the translated subset:", e, file=sys.stderr)
        raise SystemExit(3)
    if "--stdout" in sys.argv:
        sys.stdout.write(text)
        return
    out = Path(sys.argv[sys.argv.index("--out") + 1]) if "--out" in sys.argv else OUT
    out.parent.mkdir(parents=True, exist_ok=True)
    if not out.exists() or out.read_text() != text:
        out.write_text(text)
        print("gen_builder: rewrote", out)


if __name__ == "__main__":
    main()

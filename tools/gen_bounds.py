#!/usr/bin/env python3
"""Translator: gscrib/geometry/bounds.py (VALID_PROPERTIES, class BoundManager) and the comparison methods of
gscrib/geometry/point.py  ->  GscribModel/Gen/BoundsSrc.lean

`BoundManager` decides which property names exist, which bounds `set_bounds` accepts (kind of the values, `min >= max`)
and what `validate` lets through - the root of C03 (every motion and every setter ends in `validate`).  The source text
is read by AST (nothing is imported or executed) and every method becomes a Lean function

    BoundManager.<method> (self : BoundManager) (args...) : BoundManager x Except PyErr <result>

- the manager as it was when the method returned *or raised*, and the value returned or the exception class - written
statement by statement in source order.  `Props/BoundsTie.lean` proves that the prelude's `kindOfName`, `validateNum`,
`validateInt`, `validatePt` and the builder model's handling of `set_bounds` / `Bounds.get` are these functions.

Subset (anything else makes the translator refuse, exit 3):
  module      `VALID_PROPERTIES = ( "str", ... )` (a tuple of string literals)
  bounds.py   methods `__init__`, `get_bounds`, `set_bounds`, `validate` of `BoundManager`, parameters annotated `str`
              (-> `String`) or `Bound` / `Union[int, float, Point]` (-> `BVal`: a number or a Point at run time)
  statements  docstring; `self._bounds = {}`; `self._bounds[name] = (a, b)`; `a, b = self._bounds.get(name)` (unpacking
              `None` raises TypeError); `if / elif / else` (the rest of the method continues in both branches, so a `raise`
              or `return` ends the method there); `raise ValueError(...)` / `raise TypeError(...)` (message dropped);
              `return`; `return self._bounds.get(name, (None, None))`
  conditions  `name in / not in VALID_PROPERTIES`; `name in / not in self._bounds`; `name == "literal"` / `!=`;
              `isinstance(v, Point)`; `isinstance(v, (int, float))`; `a <op> b` and chains `a <op> v <op> b` with
              <op> in `<= < >= >` on run-time values (dispatched by `BVal.cmp`: numbers as floats, Points by the
              translated `Point.__op__`); `v.within_bounds(a, b)` (the translation in `Gen/PointSrc.lean`);
              `and` / `or` / `not` (short-circuit kept when an operand may raise)
  point.py    `__lt__`, `__eq__`, `__ge__`, `__gt__`, `__le__`: `return <expr>` over `self.x <op> other.x`
              (`<=` `<` `==` on coordinates; ordering against `None` raises TypeError), `self < other`, `self == other`,
              `and` / `or` / `not`, `bool(...)`
Assumptions (trusted, see Model/BoundsPrelude.lean): typeguard (`@typechecked`) has already restricted the arguments to
their annotations; a `Bound` is a number or a `Point` (tuples / arrays that typeguard lets through as `PointLike` are
outside the translation); message texts are dropped; the dict is observed only through `in`, `.get`, item assignment.

usage: gen_bounds.py [repo_root] [--out FILE | --stdout]
"""
import ast
import os
import sys
from pathlib import Path

V = Path(__file__).resolve().parent.parent
OUT = V / "lean" / "GscribModel" / "Gen" / "BoundsSrc.lean"
METHODS = ["__init__", "get_bounds", "set_bounds", "validate"]
DUNDERS = ["__lt__", "__eq__", "__ge__", "__gt__", "__le__"]
ERRORS = {"ValueError": "valueError", "TypeError": "typeError"}
NUM_OPS = {ast.LtE: ("Val.le", "__le__"), ast.Lt: ("Val.lt", "__lt__"), ast.GtE: ("Val.ge", "__ge__"), ast.Gt: ("Val.gt", "__gt__")}
RESERVED = {"exc", "cnd", "self"}


class Unsupported(Exception):
    pass


def fail(node, what):
    raise Unsupported(f"line {getattr(node, 'lineno', '?')}: {what}")


def is_doc(st):
    return isinstance(st, ast.Expr) and isinstance(st.value, ast.Constant) and isinstance(st.value.value, str)


def lean_str(s):
    if not all(32 <= ord(c) < 127 and c not in '"\\' for c in s):
        raise Unsupported(f"string literal {s!r}")
    return '"' + s + '"'


def is_self_bounds(e):
    return isinstance(e, ast.Attribute) and e.attr == "_bounds" and isinstance(e.value, ast.Name) and e.value.id == "self"


class PointT:
    """the comparison methods of class Point"""

    def __init__(self, repo):
        tree = ast.parse((repo / "gscrib" / "geometry" / "point.py").read_text())
        cls = [n for n in tree.body if isinstance(n, ast.ClassDef) and n.name == "Point"]
        if len(cls) != 1:
            raise Unsupported("class Point not found")
        self.methods = {n.name: n for n in cls[0].body if isinstance(n, ast.FunctionDef)}

    def expr(self, e, names):
        """-> text of type Except PyErr Bool"""
        if isinstance(e, ast.Call) and isinstance(e.func, ast.Name) and e.func.id == "bool" and len(e.args) == 1 and not e.keywords:
            return self.expr(e.args[0], names)
        if isinstance(e, ast.UnaryOp) and isinstance(e.op, ast.Not):
            return f"(notE {self.expr(e.operand, names)})"
        if isinstance(e, ast.BoolOp):
            f = "andE" if isinstance(e.op, ast.And) else "orE"
            parts = [self.expr(v, names) for v in e.values]
            t = parts[-1]
            for p in reversed(parts[:-1]):
                t = f"({f} {p} {t})"
            return t
        if isinstance(e, ast.Compare) and len(e.ops) == 1:
            a, op, b = e.left, e.ops[0], e.comparators[0]
            if isinstance(a, ast.Name) and isinstance(b, ast.Name) and [a.id, b.id] == names:
                if isinstance(op, ast.Lt):
                    return f"(Point.__lt__ {a.id} {b.id})"
                if isinstance(op, ast.Eq):
                    return f"(Point.__eq__ {a.id} {b.id})"
                fail(e, f"point comparison {ast.unparse(e)}")
            co = []
            for s in (a, b):
                if isinstance(s, ast.Attribute) and isinstance(s.value, ast.Name) and s.value.id in names and s.attr in ("x", "y", "z"):
                    co.append(f"{s.value.id}.{s.attr}")
                else:
                    fail(e, f"operand {ast.unparse(s)}")
            fn = {ast.LtE: "OQ.leE", ast.Lt: "OQ.ltE", ast.Eq: "OQ.eqE"}.get(type(op))
            if fn is None:
                fail(e, f"operator in {ast.unparse(e)}")
            return f"({fn} {co[0]} {co[1]})"
        fail(e, f"expression {ast.unparse(e)}")

    def method(self, name):
        m = self.methods.get(name)
        if m is None:
            raise Unsupported(f"Point.{name} not found")
        names = [a.arg for a in m.args.args]
        if len(names) != 2 or names[0] != "self" or m.args.vararg or m.args.kwarg or m.args.kwonlyargs:
            fail(m, f"signature of Point.{name}")
        if m.decorator_list:
            fail(m, f"decorated Point.{name}")
        body = [st for st in m.body if not is_doc(st)]
        if len(body) != 1 or not isinstance(body[0], ast.Return) or body[0].value is None:
            fail(m, f"body of Point.{name}")
        # `self < other` inside a method means the methods translated before it
        t = self.expr(body[0].value, names)
        return (f"/-- `Point.{name}` (point.py, source line {m.lineno}) -/\n"
                f"def Point.{name} ({names[0]} {names[1]} : Pt) : Except PyErr Bool :=\n  {t}\n")


class BoundsT:
    def __init__(self, repo):
        self.tree = ast.parse((repo / "gscrib" / "geometry" / "bounds.py").read_text())
        cls = [n for n in self.tree.body if isinstance(n, ast.ClassDef) and n.name == "BoundManager"]
        if len(cls) != 1:
            raise Unsupported("class BoundManager not found")
        self.methods = {}
        for n in cls[0].body:
            if is_doc(n):
                continue
            if not isinstance(n, ast.FunctionDef):
                fail(n, "class body statement")
            self.methods[n.name] = n
        extra = sorted(set(self.methods) - set(METHODS))
        if extra:
            raise Unsupported(f"BoundManager has methods outside the translation: {extra}")
        tabs = [st for st in self.tree.body if isinstance(st, ast.Assign) and len(st.targets) == 1
                and isinstance(st.targets[0], ast.Name) and st.targets[0].id == "VALID_PROPERTIES"]
        if len(tabs) != 1:
            raise Unsupported("VALID_PROPERTIES: exactly one module-level assignment expected")
        self.table_node = tabs[0]
        v = tabs[0].value
        if not isinstance(v, (ast.Tuple, ast.List)) or not all(isinstance(e, ast.Constant) and isinstance(e.value, str) for e in v.elts):
            fail(v, "VALID_PROPERTIES is not a tuple of string literals")
        self.table = [e.value for e in v.elts]
        for st in self.tree.body:
            # anything else at module level that could rebind the names used
            if isinstance(st, (ast.Import, ast.ImportFrom, ast.ClassDef)) or is_doc(st) or st is tabs[0]:
                continue
            fail(st, f"module-level statement {ast.unparse(st)[:40]}")

    # -- expressions -----------------------------------------------------------------------------------------------
    def value(self, e, env):
        """a run-time value or string operand -> (text, type)"""
        if isinstance(e, ast.Name) and e.id in env:
            return e.id, env[e.id]
        if isinstance(e, ast.Constant) and isinstance(e.value, str):
            return lean_str(e.value), "Str"
        fail(e, f"operand {ast.unparse(e)}")

    def cond(self, e, env):
        """-> (text, raises) : `Bool` when raises is False, `Except PyErr Bool` otherwise"""
        if isinstance(e, ast.UnaryOp) and isinstance(e.op, ast.Not):
            t, r = self.cond(e.operand, env)
            return (f"(notE {t})" if r else f"(!{t})"), r
        if isinstance(e, ast.BoolOp):
            parts = [self.cond(v, env) for v in e.values]
            if not any(r for _, r in parts):
                return "(" + (" && " if isinstance(e.op, ast.And) else " || ").join(t for t, _ in parts) + ")", False
            f = "andE" if isinstance(e.op, ast.And) else "orE"
            lifted = [t if r else f"(.ok {t})" for t, r in parts]
            t = lifted[-1]
            for p in reversed(lifted[:-1]):
                t = f"({f} {p} {t})"
            return t, True
        if isinstance(e, ast.Call):
            fn = e.func
            if isinstance(fn, ast.Name) and fn.id == "isinstance" and len(e.args) == 2 and not e.keywords:
                t, ty = self.value(e.args[0], env)
                if ty != "BVal":
                    fail(e, "isinstance on something that is not a run-time value")
                c = e.args[1]
                if isinstance(c, ast.Name) and c.id == "Point":
                    return f"{t}.isPoint", False
                if isinstance(c, ast.Tuple) and sorted(getattr(x, "id", "?") for x in c.elts) == ["float", "int"]:
                    return f"{t}.isNumber", False
                fail(e, f"isinstance against {ast.unparse(c)}")
            if isinstance(fn, ast.Attribute) and fn.attr == "within_bounds" and len(e.args) == 2 and not e.keywords:
                ts = [self.value(a, env) for a in [fn.value] + list(e.args)]
                if any(ty != "BVal" for _, ty in ts):
                    fail(e, "within_bounds on something that is not a run-time value")
                return "(BVal.callPt2 GscribModel.Gen.PointSrc.within_bounds " + " ".join(t for t, _ in ts) + ")", True
            fail(e, f"call {ast.unparse(e)}")
        if isinstance(e, ast.Compare):
            ops = [e.left] + list(e.comparators)
            if len(e.ops) == 1 and isinstance(e.ops[0], (ast.In, ast.NotIn)):
                t, ty = self.value(e.left, env)
                if ty != "Str":
                    fail(e, "membership of something that is not a string")
                c = e.comparators[0]
                if isinstance(c, ast.Name) and c.id == "VALID_PROPERTIES":
                    m = f"(VALID_PROPERTIES.contains {t})"
                elif is_self_bounds(c):
                    m = f"(self._bounds.contains {t})"
                else:
                    fail(e, f"membership in {ast.unparse(c)}")
                return (m if isinstance(e.ops[0], ast.In) else f"(!{m})"), False
            out = []
            for i, (a, op, b) in enumerate(zip(ops, e.ops, ops[1:])):
                if i > 0 and not isinstance(a, ast.Name):
                    fail(e, "chained comparison whose middle operand is not a name (it is evaluated once)")
                ta, tya = self.value(a, env)
                tb, tyb = self.value(b, env)
                if tya == tyb == "Str" and isinstance(op, (ast.Eq, ast.NotEq)):
                    out.append((f"({ta} == {tb})" if isinstance(op, ast.Eq) else f"({ta} != {tb})", False))
                elif tya == tyb == "BVal" and type(op) in NUM_OPS:
                    n, d = NUM_OPS[type(op)]
                    out.append((f"(BVal.cmp {n} Point.{d} {ta} {tb})", True))
                else:
                    fail(e, f"comparison {ast.unparse(e)} of {tya} with {tyb}")
            if len(out) == 1:
                return out[0]
            if not any(r for _, r in out):
                return "(" + " && ".join(t for t, _ in out) + ")", False
            lifted = [t if r else f"(.ok {t})" for t, r in out]
            t = lifted[-1]
            for p in reversed(lifted[:-1]):
                t = f"(andE {p} {t})"
            return t, True
        fail(e, f"condition {ast.unparse(e)}")

    # -- statements ------------------------------------------------------------------------------------------------
    def seq(self, stmts, env, ind, ret):
        """translate `stmts` (everything that remains to be executed) -> lines; `ret` = result type of the method"""
        pad = "  " * ind
        stmts = [s for s in stmts if not is_doc(s)]
        if not stmts:
            if ret != "Unit":
                raise Unsupported("a method with a result falls off its end")
            return [pad + "(self, .ok ())"]
        st, rest = stmts[0], stmts[1:]
        if isinstance(st, ast.Raise):
            exc = st.exc
            name = exc.func.id if isinstance(exc, ast.Call) and isinstance(exc.func, ast.Name) else None
            if name not in ERRORS or st.cause is not None:
                fail(st, f"raise {ast.unparse(st)[:40]}")
            return [pad + f"(self, .error .{ERRORS[name]})"]
        if isinstance(st, ast.Return):
            if st.value is None:
                if ret != "Unit":
                    fail(st, "bare return in a method with a result")
                return [pad + "(self, .ok ())"]
            v = st.value
            if (ret == "Option BVal × Option BVal" and isinstance(v, ast.Call) and isinstance(v.func, ast.Attribute) and v.func.attr == "get"
                    and is_self_bounds(v.func.value) and len(v.args) == 2 and not v.keywords and ast.unparse(v.args[1]) == "(None, None)"):
                t, ty = self.value(v.args[0], env)
                if ty != "Str":
                    fail(st, "dict key that is not a string")
                return [pad + f"(self, .ok (match self._bounds.get {t} with | some (lo, hi) => (some lo, some hi) | none => (none, none)))"]
            fail(st, f"return {ast.unparse(v)[:50]}")
        if isinstance(st, ast.If):
            c, raises = self.cond(st.test, env)
            if not raises:
                a = self.seq(list(st.body) + rest, dict(env), ind + 1, ret)
                b = self.seq(list(st.orelse) + rest, dict(env), ind + 1, ret)
                return [pad + f"if {c} then"] + a + [pad + "else"] + b
            a = self.seq(list(st.body) + rest, dict(env), ind + 2, ret)
            b = self.seq(list(st.orelse) + rest, dict(env), ind + 2, ret)
            return ([pad + f"match {c} with", pad + "| .error exc => (self, .error exc)", pad + "| .ok cnd =>", pad + "  if cnd then"] + a + [pad + "  else"] + b)
        if isinstance(st, ast.Assign) and len(st.targets) == 1:
            tg, v = st.targets[0], st.value
            if is_self_bounds(tg) and isinstance(v, ast.Dict) and not v.keys:
                return [pad + "let self : BoundManager := { self with _bounds := BDict.empty }"] + self.seq(rest, env, ind, ret)
            if isinstance(tg, ast.Subscript) and is_self_bounds(tg.value) and isinstance(v, ast.Tuple) and len(v.elts) == 2:
                k, kty = self.value(tg.slice, env)
                parts = [self.value(x, env) for x in v.elts]
                if kty != "Str" or any(ty != "BVal" for _, ty in parts):
                    fail(st, "dictionary entry is not  name -> (value, value)")
                return ([pad + f"let self : BoundManager := {{ self with _bounds := self._bounds.set {k} ({parts[0][0]}, {parts[1][0]}) }}"]
                        + self.seq(rest, env, ind, ret))
            if (isinstance(tg, ast.Tuple) and len(tg.elts) == 2 and all(isinstance(x, ast.Name) for x in tg.elts)
                    and isinstance(v, ast.Call) and isinstance(v.func, ast.Attribute) and v.func.attr == "get" and is_self_bounds(v.func.value)
                    and len(v.args) == 1 and not v.keywords):
                k, kty = self.value(v.args[0], env)
                if kty != "Str":
                    fail(st, "dict key that is not a string")
                a, b = (x.id for x in tg.elts)
                if a == b or {a, b} & RESERVED:
                    fail(st, "names bound by the unpacking")
                env2 = dict(env, **{a: "BVal", b: "BVal"})
                return ([pad + f"match self._bounds.get {k} with", pad + "| none => (self, .error .typeError)", pad + f"| some ({a}, {b}) =>"]
                        + self.seq(rest, env2, ind + 1, ret))
        fail(st, f"statement {ast.unparse(st)[:60]}")

    def method(self, name):
        m = self.methods.get(name)
        if m is None:
            raise Unsupported(f"BoundManager.{name} not found")
        for d in m.decorator_list:
            if not (isinstance(d, ast.Name) and d.id == "typechecked"):
                fail(m, f"decorator {ast.unparse(d)}")
        if m.args.vararg or m.args.kwarg or m.args.kwonlyargs or m.args.defaults or not m.args.args or m.args.args[0].arg != "self":
            fail(m, f"signature of {name}")
        env, sig = {}, ""
        for a in m.args.args[1:]:
            ann = ast.unparse(a.annotation) if a.annotation else ""
            if a.arg in RESERVED:
                fail(m, f"parameter name {a.arg}")
            if ann == "str":
                env[a.arg] = "Str"
                sig += f" ({a.arg} : String)"
            elif ann in ("Bound", "Union[int, float, Point]", "int | float | Point"):
                env[a.arg] = "BVal"
                sig += f" ({a.arg} : BVal)"
            else:
                fail(m, f"parameter {a.arg}: {ann or 'no annotation'}")
        r = ast.unparse(m.returns) if m.returns else "None"
        if name == "__init__":
            body = [st for st in m.body if not is_doc(st)]
            if sig or len(body) != 1 or not (isinstance(body[0], ast.Assign) and len(body[0].targets) == 1 and is_self_bounds(body[0].targets[0])
                                             and isinstance(body[0].value, ast.Dict) and not body[0].value.keys):
                fail(m, "__init__ is not exactly `self._bounds = {}`")
            return (f"/-- `BoundManager.__init__` (source line {m.lineno}): the only attribute assigned is `_bounds`, an empty dict -/\n"
                    "structure BoundManager where\n  _bounds : BDict\n\n"
                    "def BoundManager.__init__ : BoundManager :=\n  { _bounds := BDict.empty }\n")
        if r == "None":
            ret = "Unit"
        elif r.replace(" ", "") in ("Tuple[Bound|None,Bound|None]", "Tuple[Optional[Bound],Optional[Bound]]"):
            ret = "Option BVal × Option BVal"
        else:
            fail(m, f"result annotation {r}")
        body = self.seq(m.body, env, 1, ret)
        return (f"/-- `BoundManager.{name}` (source line {m.lineno}) -/\n"
                f"def BoundManager.{name} (self : BoundManager){sig} : BoundManager × Except PyErr ({ret}) :=\n" + "\n".join(body) + "\n")

    def table_text(self):
        return (f"/-- `VALID_PROPERTIES` (source line {self.table_node.lineno}) -/\n"
                "def VALID_PROPERTIES : List String := [" + ", ".join(lean_str(s) for s in self.table) + "]\n")


def render(repo):
    b, p = BoundsT(repo), PointT(repo)
    out = ["/- GENERATED by tools/gen_bounds.py from gscrib/geometry/bounds.py and the comparison methods of gscrib/geometry/point.py (source text, by AST). Do not edit.",
           "   Assumptions of the translation: typeguard has restricted the arguments to their annotations; a `Bound` is a number or a",
           "   `Point` at run time (`BVal`); message texts are dropped; operators on run-time values dispatch as in `Model/BoundsPrelude.lean`. -/",
           "import GscribModel.Model.BoundsPrelude", "import GscribModel.Gen.PointSrc",
           "namespace GscribModel.Gen.BoundsSrc", "open GscribModel.Builder GscribModel.GenPrelude GscribModel.BoundsPrelude",
           "set_option linter.unusedVariables false", ""]
    out.append(b.table_text())
    out += [p.method(n) for n in DUNDERS]
    out += [b.method(n) for n in METHODS]
    out.append("end GscribModel.Gen.BoundsSrc")
    return "\n".join(out) + "\n"


def main():
    args = [a for i, a in enumerate(sys.argv[1:], 1) if not a.startswith("--") and sys.argv[i - 1] != "--out"]
    repo = Path(args[0] if args else os.environ.get("GSCRIB_REPO", "/repo"))
    try:
        text = render(repo)
    except Unsupported as e:
        print("gen_bounds: the source is outside the translated subset:", e, file=sys.stderr)
        raise SystemExit(3)
    except (OSError, SyntaxError) as e:
        print("gen_bounds: cannot read the source:", e, file=sys.stderr)
        raise SystemExit(3)
    if "--stdout" in sys.argv:
        sys.stdout.write(text)
        return
    out = Path(sys.argv[sys.argv.index("--out") + 1]) if "--out" in sys.argv else OUT
    out.parent.mkdir(parents=True, exist_ok=True)
    if not out.exists() or out.read_text() != text:
        out.write_text(text)
        print("gen_bounds: rewrote", out)


if __name__ == "__main__":
    main()

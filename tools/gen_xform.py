#!/usr/bin/env python3
"""Translator: gscrib/geometry/transform.py (class Transform) + gscrib/geometry/transformer.py (class CoordinateTransformer)
               + the two transform context managers of gscrib/gcode_core.py (class GCodeCore)
               ->  GscribModel/Gen/XformSrc.lean

Reads the *source text* (by AST; nothing is imported or executed) of the two classes that hold the coordinate
transform state (properties C13, C04) and writes every translated method as a Lean function over a structure with one
field per `__slots__` entry:

    C.m (self : C) (args…) : C × Option Err      a method that returns nothing: the object when the method returned or
                                                 raised, and the exception class (`ValueError`/`IndexError`/`KeyError`)
    C.m (self : C) (args…) : T                   a method whose body is `name = e`* `return e` (no mutation, no raise)

and the `@contextmanager` generators `GCodeCore.current_transform` / `GCodeCore.named_transform` as an enter / exit pair
over the translated `CoordinateTransformer` (`t` is the object `self.transform` returns):

    GCodeCore.m_enter (t) (args…) : CoordinateTransformer × Except Err Saved     the statements before the `yield`: the transformer as
                                                 it is when `__enter__` returns or raises, and the local the `finally` block needs
    GCodeCore.m_exit (t) (args…) (saved : Saved) : CoordinateTransformer × Option Err      the `finally` block, run on whatever
                                                 transformer the body of the `with` left behind, normally or by an exception

`Props/XformTie.lean` proves the hand-written model (`Model/Transform.lean`: `Xf`, `Tr`) equal to these functions for
all states and arguments, so the order of the matrix products (pivot conjugation, left multiplication, inverse after
every change), the stack / dict discipline and the error classes are the source's own, re-proved on every run.

Subset (anything else makes the translator REFUSE, exit 3 - it never guesses):
  class        `__slots__ = (...)`; methods; decorator `@typechecked` only (assumption: arguments have the annotated
               types); the set of methods of each class is pinned (TRANSLATE + NOT_TRANSLATED below): a new method refuses
  parameters   `float` -> Rat (finite), `np.ndarray` -> NdArray (4x4 matrix | other shape), `Point`/`PointLike` -> Pt,
               `str | None` -> Option String, `str` -> String, `*xs: float` / `List[float]` -> List Rat, `Axis | str` /
               `Plane | str` -> String (a member of a `BaseEnum(str, Enum)` is its value), `Tuple` -> what `_copy_state` returns
  statements   docstring; `name = e`; `x, y, z = point`; `m[:-1, -1] = [a, b, c]` on a local matrix; `self.f = e`;
               `self.f: T = e`; `self.f = Class(args)`; `self.d[k] = e`; `self.l.append(e)`; `name = self.d[k]` (KeyError);
               `name = self.l.pop()` (IndexError); `self.d.pop(k)` (KeyError); `self.m(args)`; `self.f.m(args)` (in-place
               change of the object the field holds); `raise E(msg)`; `return`; `return e` (last statement of a value method);
               `x = Enum(x)` (lookup by value in the members read from gscrib/enums/**, ValueError otherwise);
               `if m.shape != (4, 4): raise E(...)` (afterwards `m` is a 4x4 matrix); `if x is not None and c: … else: …`
               (x narrowed to its value in `c` and the body); `if c: … else: …` (the rest of the body continues in both branches)
  expressions  parameters, locals, `self.f`, numbers, `a @ b`, `-p`, `a - b`, `t * n`, `len(x)`, `s.strip()`,
               `== != < <= > >=` (chains), `is None`, `is not None`, `and` `or` `not` (`not s` for `str | None` is
               Python truthiness), `any/all(c for v in xs)`, `(*xs, *ys, c)`, `(e1, e2)`, `state[i]`,
               `np.eye(4)`, `linalg.inv(m)`, `np.diag(t)`, `m.copy()`, `copy.deepcopy(e)`, `Point(*p)`, `Point.zero()`,
               `Point.from_vector(v)`, `p.to_vector()`, `p.resolve()`, calls of value methods, `member.m()` for an enum method
               of the form `return CONST[self.value]` (CONST a module-level dict of number lists; a missing key refuses)
  contexts     (gcode_core.py, class GCodeCore) decorator `@contextmanager` only (imported from contextlib); parameters `self` and
               annotated ones; body = docstring, pre-statements, then exactly `try: yield self.transform` / `finally:` post-statements
               (no handlers, no `else`, nothing after the `try`, one `yield` in the whole function, no `return`);
               pre / post statements: `local = self.transform.m(args)` (pre only; m a translated value method) and
               `self.transform.m(args)` (m a translated method that returns nothing); args are parameters of the generator or saved
               locals, a missing argument takes the method's default if that is `None`; a `str` passed for `str | None` is `some`.
               At most one local is saved; it must be read exactly once, in the `finally` block (saved but unused: refused);
               the `finally` block reads nothing but parameters and that local.  `self.transform` must be the plain property
               `return self._transformer`, and `self._transformer = CoordinateTransformer()` in `__init__` the only assignment of
               that attribute in the package; no other class defines `current_transform` / `named_transform`.
               Assumed of `contextlib.contextmanager`: `__enter__` runs the generator to its `yield` (an exception before it
               propagates and no block is entered); `__exit__` resumes / throws into it, so the `finally` block runs exactly once
               whether the body returned or raised, and an exception of the body is re-raised afterwards.
  numerics     the statements of `reflect` that build the Householder matrix and those of `rotate` that ask scipy for the
               rotation block are *pinned* (PINNED_BLOCKS: their text must be exactly the text this translator was written
               against) and become ONE let of a prelude primitive: `householderMatrix normal`, resp. `blockMatrix scipy_rotation`
               where `scipy_rotation` is an extra parameter of the translated `rotate` (what scipy returned);
               `_rotation_vector` is pinned too (it has an entry for each of the three `Axis` members, checked)
Named primitives (Model/XformPrelude.lean, Model/Transform.lean): `@` = `M4.mul` / `m4MulVec`, `linalg.inv` = `M4.inv`,
`np.eye(4)` = `M4.eye`, `m[:-1,-1] = …` = `m4SetLastColumn`, `np.diag` = `npDiag`, `str.strip` = `pyStrip`, list / dict
operations = `++ [x]`, `listPop`, `dictGet`, `dictSet`, `dictPop`; the `Point` methods used are *pinned*: the translator
compares their source text in `point.py` with the text it was written against and refuses on any difference.

Aliasing.  Objects are translated as values, `copy.deepcopy(e)` / `m.copy()` as the identity.  That is only sound if no
mutable object (Transform, list, dict, array) is ever reachable from two places, so the translator enforces an ownership
discipline and REFUSES when it is violated: a value stored into a field / dict / list or returned must be *fresh* (a
deep copy, a new array, the result of `pop()`, a local bound to one of those and not used afterwards); storing
`self.f`, `self.d[k]` (or a local bound to them) or a parameter without `copy.deepcopy` is refused with the message
"aliasing".  In particular removing `copy.deepcopy` from `save_state`, `restore_state` (by name) or `_copy_state` is a
refusal.  The one parameter that may be stored as it is is the `state` of `_revert_state`, because the translator
checks in `gcode_core.py` that every `_revert_state(x)` receives a local assigned once from `_copy_state()` and used nowhere else.

usage: gen_xform.py [repo_root] [--out FILE | --stdout]
"""
import ast
import os
import sys
from fractions import Fraction
from pathlib import Path

V = Path(__file__).resolve().parent.parent
OUT = V / "lean" / "GscribModel" / "Gen" / "XformSrc.lean"

FILES = {"Transform": "gscrib/geometry/transform.py", "CoordinateTransformer": "gscrib/geometry/transformer.py"}
TRANSLATE = {
    "Transform": ["__init__", "_set_pivot", "_set_matrix", "_chain_matrix", "_tranlation_matrix", "apply", "reverse"],
    "CoordinateTransformer": ["__init__", "set_pivot", "save_state", "restore_state", "delete_state", "chain_transform", "translate",
                              "scale", "rotate", "reflect", "mirror", "apply_transform", "reverse_transform", "_copy_state", "_revert_state"],
}
# not translated, but pinned (PINNED_METHODS): only reached from the pinned numeric part of `rotate`
NOT_TRANSLATED = {"Transform": [], "CoordinateTransformer": ["_rotation_vector"]}
REQUIRED_IMPORTS = {
    "Transform": ["import numpy as np", "from scipy import linalg", "from .point import Point"],
    "CoordinateTransformer": ["import copy", "import numpy as np", "from .point import Point", "from .transform import Transform",
                              "from scipy.spatial.transform import Rotation", "from scipy import linalg", "from gscrib.enums import Axis, Plane"],
}
ERRORS = {"ValueError": "valueError", "IndexError": "indexError", "KeyError": "keyError"}
PARAM_TYPES = {"float": "Rat", "np.ndarray": "NdArray", "Point": "Pt", "PointLike": "Pt", "str | None": "Option String",
               "Optional[str]": "Option String", "str": "String", "List[float]": "List Rat",
               "Axis | str": "String", "Plane | str": "String"}       # a member of a `BaseEnum(str, Enum)` is the string that is its value
FIELD_ANNOTATIONS = {"dict": "PyDict Transform", "List[Transform]": "List Transform", "Transform": "Transform"}
# the `Point` methods the two classes use, as the prelude transcribes them (normalised source text of the body)
PINNED_POINT = {
    "zero": "return cls(0.0, 0.0, 0.0)",
    "from_vector": "return cls(*vector[:3]).resolve()",
    "to_vector": "return np.array([self.x or 0, self.y or 0, self.z or 0, 1.0])",
    "resolve": "return Point(0 if self.x is None else self.x, 0 if self.y is None else self.y, 0 if self.z is None else self.z)",
    "__neg__": "return Point(None if self.x is None else -(self.x or 0), None if self.y is None else -(self.y or 0), None if self.z is None else -(self.z or 0))",
}
# numerics that stay primitives: a run of statements whose text is pinned, translated as ONE let of a named primitive.
# `oracle`: a value only scipy knows (the rotation block) becomes an extra parameter of the translated method.
PINNED_BLOCKS = {
    ("CoordinateTransformer", "reflect"): {
        "stmts": ["n = np.array(normal[:3])", "n = n / linalg.norm(n)", "reflection_matrix = np.eye(4)",
                  "reflection_matrix[:3, :3] = np.eye(3) - 2 * np.outer(n, n)"],
        "reads": {"normal": "List Rat"}, "hides": ["n"], "binds": ("reflection_matrix", "M4"), "lean": "householderMatrix normal", "oracle": None},
    ("CoordinateTransformer", "rotate"): {
        "stmts": ["rotation_vector = self._rotation_vector(angle, axis)", "rotation = Rotation.from_rotvec(rotation_vector)",
                  "rotation_matrix = np.eye(4)", "rotation_matrix[:3, :3] = rotation.as_matrix()"],
        "reads": {"angle": "Rat", "axis": "Axis"}, "hides": ["rotation_vector", "rotation"], "binds": ("rotation_matrix", "M4"),
        "lean": "blockMatrix scipy_rotation", "oracle": ("scipy_rotation", "Aff")},
}
PINNED_METHODS = {
    ("CoordinateTransformer", "_rotation_vector"):
        "angle_rad = np.radians(angle); return {Axis.X: [angle_rad, 0, 0], Axis.Y: [0, angle_rad, 0], Axis.Z: [0, 0, angle_rad]}[axis]",
}
PINNED_ENUM_MEMBERS = {"Axis": ["X", "Y", "Z"]}      # `_rotation_vector` has an entry for exactly these (anything else: KeyError)
CONSUMED = {("CoordinateTransformer", "_revert_state"): "state"}      # checked against gcode_core.py (check_consumers)
# the transform context managers of GCodeCore (translated as enter / exit pairs over the translated CoordinateTransformer)
CORE_FILE = "gscrib/gcode_core.py"
CORE_CLASS = "GCodeCore"
CONTEXTS = ["current_transform", "named_transform"]
CORE_IMPORTS = ["from contextlib import contextmanager", "from .geometry import Point, CoordinateTransformer"]
CORE_PROPERTY = ("transform", "_transformer", "CoordinateTransformer")     # `self.transform` is `self._transformer`, a CoordinateTransformer()
LEAN_RESERVED = {"t", "e", "fun", "let", "match", "with", "if", "then", "else", "do", "end", "from", "at", "in", "have", "show", "open",
                 "def", "theorem", "structure", "where", "namespace", "section", "instance", "class", "deriving", "import", "by",
                 "some", "none", "default", "self", "Type", "Prop", "Sort"}
REF_TYPES = {"M4", "NdArray", "Transform", "List Transform", "PyDict Transform"}
DEEPCOPY_TYPES = {"Transform", "List Transform"}


class Unsupported(Exception):
    pass


def fail(node, what):
    raise Unsupported(f"line {getattr(node, 'lineno', '?')}: {what}")


def is_ref(ty):
    return ty in REF_TYPES or ty.startswith("(")


def rat(v):
    f = Fraction(repr(v)) if isinstance(v, float) else Fraction(v)      # a float literal denotes the decimal it is written as
    return f"({f.numerator} : Rat)" if f.denominator == 1 else f"(({f.numerator} : Rat) / {f.denominator})"


def strip_doc(body):
    return [st for st in body if not (isinstance(st, ast.Expr) and isinstance(st.value, ast.Constant) and isinstance(st.value.value, str))]


def is_self_attr(n):
    return isinstance(n, ast.Attribute) and isinstance(n.value, ast.Name) and n.value.id == "self"


def is_none(n):
    return isinstance(n, ast.Constant) and n.value is None


def is_minus_one(n):
    return isinstance(n, ast.UnaryOp) and isinstance(n.op, ast.USub) and isinstance(n.operand, ast.Constant) and n.operand.value == 1


def is_last_column(sl):
    """the subscript `[:-1, -1]`"""
    return (isinstance(sl, ast.Tuple) and len(sl.elts) == 2 and isinstance(sl.elts[0], ast.Slice) and sl.elts[0].lower is None
            and sl.elts[0].step is None and is_minus_one(sl.elts[0].upper) and is_minus_one(sl.elts[1]))


def src(st):
    return " ".join(ast.unparse(st).split())


def read_enums(repo: Path):
    """`class E(BaseEnum)` in gscrib/enums/**: members (NAME = "value"), methods, the module's constant dicts"""
    base = ast.parse((repo / "gscrib" / "enums" / "base_enum.py").read_text())
    bc = [n for n in base.body if isinstance(n, ast.ClassDef) and n.name == "BaseEnum"]
    if len(bc) != 1 or [ast.unparse(b) for b in bc[0].bases] != ["str", "Enum"] or strip_doc(bc[0].body):
        raise Unsupported("enums/base_enum.py: BaseEnum is no longer the plain `class BaseEnum(str, Enum)`")
    enums = {}
    for f in sorted((repo / "gscrib" / "enums").rglob("*.py")):
        tree = ast.parse(f.read_text())
        consts = {st.targets[0].id: st.value for st in tree.body
                  if isinstance(st, ast.Assign) and len(st.targets) == 1 and isinstance(st.targets[0], ast.Name) and isinstance(st.value, ast.Dict)}
        for node in tree.body:
            if isinstance(node, ast.ClassDef) and any(getattr(b, "id", None) == "BaseEnum" for b in node.bases):
                members, methods = [], {}
                for st in strip_doc(node.body):
                    if isinstance(st, ast.Assign) and len(st.targets) == 1 and isinstance(st.targets[0], ast.Name) \
                            and isinstance(st.value, ast.Constant) and isinstance(st.value.value, str):
                        members.append((st.targets[0].id, st.value.value))
                    elif isinstance(st, ast.FunctionDef):
                        methods[st.name] = st
                enums[node.name] = {"members": members, "methods": methods, "consts": consts, "file": str(f.relative_to(repo)), "node": node}
    return enums


class Cls:
    def __init__(self, repo, name):
        self.name, self.file = name, FILES[name]
        tree = ast.parse((repo / self.file).read_text())
        found = [n for n in tree.body if isinstance(n, ast.ClassDef) and n.name == name]
        if len(found) != 1:
            raise Unsupported(f"class {name} not found in {self.file}")
        self.node = found[0]
        if self.node.bases or self.node.keywords or self.node.decorator_list:
            fail(self.node, f"class {name} has bases / decorators")
        imports = {src(n) for n in tree.body if isinstance(n, (ast.Import, ast.ImportFrom))}
        for need in REQUIRED_IMPORTS[name]:
            if need not in imports:
                raise Unsupported(f"{self.file}: expected `{need}`")
        self.methods, self.slots = {}, None
        for st in strip_doc(self.node.body):
            if isinstance(st, ast.FunctionDef):
                if st.name in self.methods:
                    fail(st, f"{name}.{st.name} defined twice")
                self.methods[st.name] = st
            elif isinstance(st, ast.Assign) and len(st.targets) == 1 and getattr(st.targets[0], "id", None) == "__slots__" \
                    and isinstance(st.value, ast.Tuple) and all(isinstance(e, ast.Constant) and isinstance(e.value, str) for e in st.value.elts):
                self.slots = [e.value for e in st.value.elts]
            else:
                fail(st, f"class-level statement in {name}: {src(st)[:60]}")
        if not self.slots:
            raise Unsupported(f"{name}.__slots__ not found")
        known = set(TRANSLATE[name]) | set(NOT_TRANSLATED[name])
        extra = sorted(set(self.methods) - known)
        if extra:      # e.g. a `__deepcopy__`, or a new mutator nobody has looked at
            raise Unsupported(f"{name} has methods this translator does not know: {extra}")
        missing = sorted(known - set(self.methods))
        if missing:
            raise Unsupported(f"{name} no longer has the methods {missing}")
        self.ftype = {}          # slot -> Lean type
        self.kind = {}           # method -> "value" | "effect"
        self.rtype = {}          # value method -> Lean type
        self.text = {}           # method -> Lean definition
        for n in TRANSLATE[name]:
            m = self.methods[n]
            rets = [r for r in ast.walk(m) if isinstance(r, ast.Return) and r.value is not None]
            self.kind[n] = "value" if rets else "effect"


class T:
    def __init__(self, repo: Path):
        self.repo = repo
        self.check_point()
        self.check_consumers()
        self.enums = read_enums(repo)
        self.used_enums = []     # enum classes the translation converts to, in order of first use
        self.enum_defs = {}      # (enum, method) -> Lean definition
        self.classes = {n: Cls(repo, n) for n in FILES}
        self.check_pinned_methods()
        self.tuple_type = None
        self.order = []          # (class, method) in emission order
        self.active = []
        self.core = self.read_core()      # name -> FunctionDef of the context managers of GCodeCore

    # ---------------------------------------------------------------- pinned context
    def check_point(self):
        tree = ast.parse((self.repo / "gscrib" / "geometry" / "point.py").read_text())
        cls = [n for n in tree.body if isinstance(n, ast.ClassDef) and n.name == "Point"]
        if len(cls) != 1 or [ast.unparse(b) for b in cls[0].bases] != ["NamedTuple"]:
            raise Unsupported("point.py: `class Point(NamedTuple)` not found")
        fields = [src(st) for st in cls[0].body if isinstance(st, ast.AnnAssign)]
        if fields != ["x: OptFloat = None", "y: OptFloat = None", "z: OptFloat = None"]:
            raise Unsupported(f"point.py: Point fields are {fields}")
        meths = {n.name: n for n in cls[0].body if isinstance(n, ast.FunctionDef)}
        for bad in ("__iter__", "__new__", "__getitem__", "__deepcopy__", "__copy__"):
            if bad in meths:
                raise Unsupported(f"point.py: Point defines {bad}")
        for name, want in PINNED_POINT.items():
            if name not in meths:
                raise Unsupported(f"point.py: Point.{name} not found")
            got = "; ".join(src(st) for st in strip_doc(meths[name].body))
            if got != want:
                raise Unsupported(f"point.py: Point.{name} is no longer the method the prelude transcribes: `{got}`")

    def check_pinned_methods(self):
        for (cname, mname), want in PINNED_METHODS.items():
            m = self.classes[cname].methods[mname]
            got = "; ".join(src(st) for st in strip_doc(m.body))
            if got != want:
                fail(m, f"{cname}.{mname} is no longer the pinned text: `{got}`")
        for en, want in PINNED_ENUM_MEMBERS.items():
            got = [m for m, _ in self.enums.get(en, {"members": []})["members"]]
            if got != want:
                raise Unsupported(f"enum {en} has the members {got}, expected {want}")

    def use_enum(self, node, name):
        if name not in self.enums or not self.enums[name]["members"]:
            fail(node, f"{name} is not a BaseEnum with members")
        if name not in self.used_enums:
            self.used_enums.append(name)
        return name

    def enum_method(self, node, en, name):
        """`def m(self): return CONST[self.value]` with CONST a module-level dict of number lists -> a total function (or refuse)"""
        if (en, name) in self.enum_defs:
            return
        info = self.enums[en]
        m = info["methods"].get(name)
        if m is None:
            fail(node, f"{en}.{name} not found")
        body = strip_doc(m.body)
        ok = (len(body) == 1 and isinstance(body[0], ast.Return) and isinstance(body[0].value, ast.Subscript)
              and isinstance(body[0].value.value, ast.Name) and ast.unparse(body[0].value.slice) == "self.value"
              and len(m.args.args) == 1 and not m.decorator_list)
        if not ok or body[0].value.value.id not in info["consts"]:
            fail(m, f"{en}.{name} is not `return CONST[self.value]`")
        table = {}
        d = info["consts"][body[0].value.value.id]
        for k, v in zip(d.keys, d.values):
            if not (isinstance(k, ast.Constant) and isinstance(k.value, str) and isinstance(v, ast.List)
                    and all(isinstance(c, ast.Constant) and isinstance(c.value, (int, float)) and not isinstance(c.value, bool) for c in v.elts)):
                fail(d, f"{body[0].value.value.id} is not a dict of str -> list of numbers")
            if k.value in table:
                fail(d, f"duplicate key {k.value!r}")
            table[k.value] = "[" + ", ".join(rat(c.value) for c in v.elts) + "]"
        lines = [f"/-- `{en}.{name}` ({info['file']} line {m.lineno}): `{src(body[0])}` -/", f"def {en}.{name} : {en} → List Rat"]
        for mem, val in info["members"]:
            if val not in table:
                fail(m, f"{en}.{name}: no entry for {en}.{mem} ({val!r}) - a KeyError")
            lines.append(f"  | .{mem} => {table[val]}")
        self.enum_defs[(en, name)] = "\n".join(lines) + "\n"

    def check_consumers(self):
        """every `_revert_state(x)`: x is a local assigned once, from `…._copy_state()`, and used nowhere else"""
        tree = ast.parse((self.repo / "gscrib" / "gcode_core.py").read_text())
        seen = 0
        for fn in [n for n in ast.walk(tree) if isinstance(n, ast.FunctionDef)]:
            calls = [c for c in ast.walk(fn) if isinstance(c, ast.Call) and isinstance(c.func, ast.Attribute) and c.func.attr == "_revert_state"]
            for c in calls:
                seen += 1
                if len(c.args) != 1 or c.keywords or not isinstance(c.args[0], ast.Name):
                    fail(c, "gcode_core.py: _revert_state(...) argument is not a local name")
                name = c.args[0].id
                uses = [n for n in ast.walk(fn) if isinstance(n, ast.Name) and n.id == name]
                stores = [n for n in uses if isinstance(n.ctx, ast.Store)]
                loads = [n for n in uses if isinstance(n.ctx, ast.Load)]
                assigns = [a for a in ast.walk(fn) if isinstance(a, ast.Assign) and len(a.targets) == 1 and isinstance(a.targets[0], ast.Name)
                           and a.targets[0].id == name]
                ok = (len(stores) == 1 and len(assigns) == 1 and len(loads) == 1 and len(calls) == 1
                      and isinstance(assigns[0].value, ast.Call) and isinstance(assigns[0].value.func, ast.Attribute)
                      and assigns[0].value.func.attr == "_copy_state" and not assigns[0].value.args)
                if not ok:
                    fail(c, f"gcode_core.py: `{name}` handed to _revert_state is not a local used exactly once after `{name} = x._copy_state()`")
        other = [str(p.relative_to(self.repo)) for p in sorted((self.repo / "gscrib").rglob("*.py"))
                 if p.name not in ("gcode_core.py", "transformer.py") and "_revert_state" in p.read_text()]
        if other:
            raise Unsupported(f"_revert_state is also used in {other}")
        if seen == 0:
            raise Unsupported("gcode_core.py no longer calls _revert_state")

    # ---------------------------------------------------------------- the context managers of GCodeCore
    def read_core(self):
        """class GCodeCore of gcode_core.py: the two generators, and that `self.transform` is one CoordinateTransformer per object"""
        tree = ast.parse((self.repo / CORE_FILE).read_text())
        imports = {src(n) for n in tree.body if isinstance(n, (ast.Import, ast.ImportFrom))}
        for need in CORE_IMPORTS:
            if need not in imports:
                raise Unsupported(f"{CORE_FILE}: expected `{need}`")
        found = [n for n in tree.body if isinstance(n, ast.ClassDef) and n.name == CORE_CLASS]
        if len(found) != 1:
            raise Unsupported(f"class {CORE_CLASS} not found in {CORE_FILE}")
        cls = found[0]
        prop, attr, ctor = CORE_PROPERTY
        defs = {}
        for n in cls.body:
            if isinstance(n, (ast.FunctionDef, ast.AsyncFunctionDef)):
                defs.setdefault(n.name, []).append(n)
        for name in CONTEXTS + [prop, "__init__"]:
            if len(defs.get(name, [])) != 1 or not isinstance(defs[name][0], ast.FunctionDef):
                raise Unsupported(f"{CORE_CLASS}.{name}: expected exactly one definition in {CORE_FILE}")
        # self.transform: the plain read-only property `return self._transformer`
        p = defs[prop][0]
        if [ast.unparse(d) for d in p.decorator_list] != ["property"] or [a.arg for a in p.args.args] != ["self"] \
                or [src(st) for st in strip_doc(p.body)] != [f"return self.{attr}"]:
            fail(p, f"{CORE_CLASS}.{prop} is no longer the property `return self.{attr}`")
        for n in cls.body:
            tg = n.targets if isinstance(n, ast.Assign) else [n.target] if isinstance(n, (ast.AnnAssign, ast.AugAssign)) else []
            if any(isinstance(t, ast.Name) and t.id in (prop, attr) for t in tg):
                fail(n, f"class-level `{src(n)[:50]}` in {CORE_CLASS}")
        # self._transformer is assigned once per object, in __init__, to a new CoordinateTransformer - nowhere else in the package
        want = f"self.{attr} = {ctor}()"
        stores = []
        for f in sorted((self.repo / "gscrib").rglob("*.py")):
            rel = str(f.relative_to(self.repo))
            text = f.read_text()
            if rel != CORE_FILE and any(f"def {c}" in text for c in CONTEXTS):
                raise Unsupported(f"{rel} also defines one of {CONTEXTS}")
            if attr not in text:
                continue
            for n in ast.walk(tree if rel == CORE_FILE else ast.parse(text)):
                if isinstance(n, ast.Attribute) and n.attr == attr and not isinstance(n.ctx, ast.Load):
                    stores.append((rel, n.lineno))
                if isinstance(n, ast.Constant) and n.value == attr:          # setattr(self, "_transformer", …) and the like
                    stores.append((rel, n.lineno))
        init_stores = [st for st in defs["__init__"][0].body if src(st) == want]
        if len(init_stores) != 1 or stores != [(CORE_FILE, init_stores[0].lineno)]:
            raise Unsupported(f"`{want}` in {CORE_CLASS}.__init__ is no longer the only assignment of {attr} (assignments at {stores})")
        return {name: defs[name][0] for name in CONTEXTS}

    def context_pair(self, name):
        """`@contextmanager def m(self, args): pre; try: yield self.transform; finally: post` -> [`m_enter` (pre), `m_exit` (post)]"""
        gen = self.core[name]
        ct = self.classes[CORE_PROPERTY[2]]
        recv = f"self.{CORE_PROPERTY[0]}"
        if [ast.unparse(d) for d in gen.decorator_list] != ["contextmanager"]:
            fail(gen, f"{CORE_CLASS}.{name}: expected the one decorator @contextmanager")
        a = gen.args
        if a.kwonlyargs or a.kwarg or a.vararg or a.posonlyargs or a.defaults or not a.args or a.args[0].arg != "self":
            fail(gen, f"signature of {CORE_CLASS}.{name}")
        params = []
        for p in a.args[1:]:
            ann = ast.unparse(p.annotation) if p.annotation is not None else None
            if ann not in PARAM_TYPES or is_ref(PARAM_TYPES[ann]):
                fail(gen, f"parameter {p.arg}: {ann} of {CORE_CLASS}.{name}")
            if p.arg in LEAN_RESERVED or (p.arg[0] == "t" and p.arg[1:].isdigit()):
                fail(gen, f"parameter name `{p.arg}`")
            params.append((p.arg, PARAM_TYPES[ann]))
        body = strip_doc(gen.body)
        shape = f"{CORE_CLASS}.{name}: expected `pre-statements; try: yield {recv}; finally: post-statements`"
        if not body or not isinstance(body[-1], ast.Try):
            fail(gen, shape + " (the `try` is not the last statement)")
        tr = body[-1]
        if tr.handlers or tr.orelse or not tr.finalbody or len(tr.body) != 1 or not isinstance(tr.body[0], ast.Expr) \
                or not isinstance(tr.body[0].value, ast.Yield) or tr.body[0].value.value is None or src(tr.body[0].value.value) != recv:
            fail(tr, shape)
        bad = [n for n in ast.walk(gen) if isinstance(n, (ast.Yield, ast.YieldFrom, ast.Return, ast.Await, ast.Lambda, ast.FunctionDef))
               and n is not gen and n is not tr.body[0].value]
        if bad:
            fail(bad[0], f"{CORE_CLASS}.{name}: a second yield / a return / a nested function")
        pre, post = body[:-1], list(tr.finalbody)
        # the locals: assigned once, before the yield; read once, in the finally block
        stored = [n for b in pre + post for n in ast.walk(b) if isinstance(n, ast.Name) and not isinstance(n.ctx, ast.Load)]
        names = [n.id for n in stored]
        if len(names) != len(set(names)) or len(names) > 1:
            fail(gen, f"{CORE_CLASS}.{name}: at most one local, assigned once, is translated (assigned: {names})")
        for n in names:
            if n in LEAN_RESERVED or n in dict(params) or (n[0] == "t" and n[1:].isdigit()) or not n.isidentifier() or not n.isascii():
                fail(gen, f"{CORE_CLASS}.{name}: local name `{n}`")
            if any(isinstance(x, ast.Name) and x.id == n and not isinstance(x.ctx, ast.Load) for b in post for x in ast.walk(b)):
                fail(gen, f"{CORE_CLASS}.{name}: `{n}` is assigned in the finally block")
            reads_pre = [x for b in pre for x in ast.walk(b) if isinstance(x, ast.Name) and x.id == n and isinstance(x.ctx, ast.Load)]
            reads_post = [x for b in post for x in ast.walk(b) if isinstance(x, ast.Name) and x.id == n and isinstance(x.ctx, ast.Load)]
            if reads_pre or len(reads_post) != 1:
                fail(gen, f"{CORE_CLASS}.{name}: the saved local `{n}` must be read exactly once, in the finally block "
                          f"(read {len(reads_pre)} times before the yield, {len(reads_post)} times after)")
        state = {"n": 0, "local": None}          # local: (name, Lean type) once assigned

        def arg_list(call, mname, env):
            m = ct.methods[mname]
            sig = self.signature(ct, mname)
            if self.oracle(ct, mname) or m.args.vararg or call.keywords or any(isinstance(x, ast.Starred) for x in call.args):
                fail(call, f"call of {ct.name}.{mname} with * / keyword arguments or a value only scipy knows")
            ps = m.args.args[1:]
            defaults = dict(zip([p.arg for p in ps][len(ps) - len(m.args.defaults):], m.args.defaults))
            if len(call.args) > len(ps):
                fail(call, f"too many arguments for {ct.name}.{mname}")
            out = ""
            for i, (pname, pty) in enumerate(sig):
                if i < len(call.args):
                    x = call.args[i]
                    if not isinstance(x, ast.Name) or x.id not in env:
                        fail(call, f"argument `{src(x)[:40]}`: only parameters of {name} and its saved local are translated")
                    t, ty = x.id, env[x.id]
                    if ty == "String" and pty == "Option String":
                        t, ty = f"(some {t})", pty
                elif pname in defaults and is_none(defaults[pname]) and pty.startswith("Option "):
                    t, ty = "none", pty
                else:
                    fail(call, f"missing argument {pname} of {ct.name}.{mname}")
                if ty != pty:
                    fail(call, f"argument {pname} of {ct.name}.{mname}: expected {pty}, got {ty}")
                out += f" {t}"
            return out

        def target(call):
            """`self.transform.m(...)` -> m"""
            fn = call.func
            if not (isinstance(fn, ast.Attribute) and src(fn.value) == recv):
                fail(call, f"{CORE_CLASS}.{name}: only calls of `{recv}.m(…)` are translated, got `{src(call)[:60]}`")
            if fn.attr not in TRANSLATE[ct.name]:
                fail(call, f"{ct.name}.{fn.attr} is not among the translated methods")
            self.method(ct, fn.attr)
            return fn.attr

        def block(stmts, cur, env, depth, enter):
            ind = "  " * depth
            if not stmts:
                if not enter:
                    return f"{ind}({cur}, none)\n"
                saved = state["local"][0] if state["local"] else "()"
                return f"{ind}-- try: yield {recv}\n{ind}({cur}, .ok {saved})\n"
            st, rest = stmts[0], stmts[1:]
            note = f"{ind}-- {src(st)[:110]}\n"
            if isinstance(st, ast.Assign) and len(st.targets) == 1 and isinstance(st.targets[0], ast.Name) and isinstance(st.value, ast.Call) and enter:
                m = target(st.value)
                if ct.kind[m] != "value":
                    fail(st, f"{ct.name}.{m} returns nothing")
                local, ty = st.targets[0].id, ct.rtype[m]
                state["local"] = (local, ty)
                return (note + f"{ind}let {local} : {ty} := ({ct.name}.{m} {cur}{arg_list(st.value, m, env)})\n"
                        + block(rest, cur, dict(env, **{local: ty}), depth, enter))
            if isinstance(st, ast.Expr) and isinstance(st.value, ast.Call):
                m = target(st.value)
                if ct.kind[m] != "effect":
                    fail(st, f"the value of {ct.name}.{m} is dropped")
                state["n"] += 1
                nxt = f"t{state['n']}"
                err = ".error e" if enter else "some e"
                return (note + f"{ind}match {ct.name}.{m} {cur}{arg_list(st.value, m, env)} with\n{ind}| ({nxt}, some e) => ({nxt}, {err})\n"
                        f"{ind}| ({nxt}, none) =>\n" + block(rest, nxt, env, depth + 1, enter))
            fail(st, f"{CORE_CLASS}.{name}: statement `{src(st)[:70]}`")

        env0 = dict(params)
        enter = block(pre, "t", env0, 1, True)
        local = state["local"]
        state["n"] = 0
        exit_ = block(post, "t", dict(env0, **({local[0]: local[1]} if local else {})), 1, False)
        sig = "".join(f" ({p} : {ty})" for p, ty in params)
        saved_ty = local[1] if local else "Unit"
        saved_arg = saved_ty if " " not in saved_ty or saved_ty.startswith("(") else f"({saved_ty})"
        saved_sig = f" ({local[0]} : {local[1]})" if local else ""
        what = f"the saved local `{local[0]}`" if local else "nothing saved"
        return [f"/-- `{CORE_CLASS}.{name}` ({CORE_FILE} line {gen.lineno}): entering the context - the statements before the `yield`; `t` is the object\n"
                f"    `{recv}` returns.  The transformer as it is when `__enter__` returns or raises, and {what} -/\n"
                f"def {CORE_CLASS}.{name}_enter (t : {ct.name}){sig} : {ct.name} × Except Err {saved_arg} :=\n{enter}",
                f"/-- `{CORE_CLASS}.{name}`: leaving the context - the `finally` block, run on whatever the body left behind, returned or raised -/\n"
                f"def {CORE_CLASS}.{name}_exit (t : {ct.name}){sig}{saved_sig} : {ct.name} × Option Err :=\n{exit_}"]

    # ---------------------------------------------------------------- types
    def param_type(self, cls, m, a, vararg=False):
        if a.annotation is None:
            fail(m, f"parameter {a.arg} of {cls.name}.{m.name} has no annotation")
        ann = ast.unparse(a.annotation)
        if vararg:
            if ann != "float":
                fail(m, f"*{a.arg}: {ann}")
            return "List Rat"
        if ann == "Tuple":
            if self.tuple_type is None:
                self.method(cls, "_copy_state")
            if self.tuple_type is None:
                fail(m, "a `Tuple` parameter, but `_copy_state` returns no tuple")
            return self.tuple_type
        if ann not in PARAM_TYPES:
            fail(m, f"parameter {a.arg}: {ann}")
        return PARAM_TYPES[ann]

    def signature(self, cls, name):
        m = cls.methods[name]
        a = m.args
        if a.kwonlyargs or a.kwarg or a.posonlyargs or not a.args or a.args[0].arg != "self":
            fail(m, f"signature of {cls.name}.{name}")
        for d in m.decorator_list:
            if ast.unparse(d) != "typechecked":
                fail(m, f"decorator @{ast.unparse(d)} on {cls.name}.{name}")
        ps = [(p.arg, self.param_type(cls, m, p)) for p in a.args[1:]]
        if a.vararg:
            ps.append((a.vararg.arg, self.param_type(cls, m, a.vararg, True)))
        return ps

    @staticmethod
    def oracle(cls, name):
        return (PINNED_BLOCKS.get((cls.name, name)) or {}).get("oracle")

    # ---------------------------------------------------------------- expressions -> (text, type, ownership)
    def expr(self, e, env, want=None):
        cls = env["$cls"]
        if isinstance(e, ast.Constant):
            v = e.value
            if isinstance(v, bool):
                return ("true" if v else "false"), "Bool", "imm"
            if isinstance(v, int) and want == "Int":
                return f"({v} : Int)", "Int", "imm"
            if isinstance(v, (int, float)):
                return rat(v), "Rat", "imm"
            fail(e, f"constant {v!r}")
        if isinstance(e, ast.Name):
            v = env.get(e.id)
            if not isinstance(v, dict):
                fail(e, f"unknown name {e.id}")
            if v["own"] == "moved":
                fail(e, f"aliasing: `{e.id}` is used after it was stored")
            return v["text"], v["ty"], v["own"]
        if is_self_attr(e):
            if e.attr not in cls.slots:
                fail(e, f"self.{e.attr} is not a slot of {cls.name}")
            if e.attr not in cls.ftype:
                fail(e, f"self.{e.attr} is read before any assignment told its type")
            ty = cls.ftype[e.attr]
            return f"{env['$self']}.{e.attr}", ty, (f"alias:self.{e.attr}" if is_ref(ty) else "imm")
        if isinstance(e, ast.Subscript) and isinstance(e.value, ast.Name) and isinstance(e.slice, ast.Constant) and e.slice.value in (0, 1):
            t, ty, own = self.expr(e.value, env)
            parts = self.tuple_parts(ty)
            if parts is None:
                fail(e, f"subscript of a {ty}")
            return f"{t}.{e.slice.value + 1}", parts[e.slice.value], own
        if isinstance(e, ast.UnaryOp) and isinstance(e.op, ast.USub):
            t, ty, _ = self.expr(e.operand, env, want)
            if ty == "Pt":
                return f"(ptNeg {t})", "Pt", "imm"
            if ty in ("Rat", "Int"):
                return f"(-{t})", ty, "imm"
            fail(e, f"negation of a {ty}")
        if isinstance(e, ast.UnaryOp) and isinstance(e.op, ast.Not):
            t, ty, _ = self.expr(e.operand, env)
            if ty == "Bool":
                return f"(!{t})", "Bool", "imm"
            if ty == "Option String":          # truthiness of `str | None`: None and "" are false
                return f"(match {t} with | none => true | some v => decide (v = \"\"))", "Bool", "imm"
            fail(e, f"`not` on a {ty}")
        if isinstance(e, ast.BinOp):
            return self.binop(e, env, want)
        if isinstance(e, ast.BoolOp):
            return self.boolop(list(e.values), isinstance(e.op, ast.And), env, e), "Bool", "imm"
        if isinstance(e, ast.Compare):
            operands = [e.left] + list(e.comparators)
            parts = [self.compare(e, a, op, b, env) for a, op, b in zip(operands, e.ops, operands[1:])]
            return ("(" + " && ".join(parts) + ")") if len(parts) > 1 else parts[0], "Bool", "imm"
        if isinstance(e, ast.Tuple):
            return self.tuple(e, env)
        if isinstance(e, ast.Call):
            return self.call(e, env)
        fail(e, f"expression {src(e)[:70]}")

    @staticmethod
    def tuple_parts(ty):
        if ty.startswith("(") and ty.endswith(")") and " × " in ty:
            return ty[1:-1].split(" × ")
        return None

    def binop(self, e, env, want):
        if isinstance(e.op, ast.MatMult):
            a, ta, _ = self.expr(e.left, env)
            b, tb, _ = self.expr(e.right, env)
            if (ta, tb) == ("M4", "M4"):
                return f"(M4.mul {a} {b})", "M4", "fresh"
            if (ta, tb) == ("M4", "V4"):
                return f"(m4MulVec {a} {b})", "V4", "imm"
            fail(e, f"`@` of {ta} and {tb}")
        if isinstance(e.op, (ast.Sub, ast.Add)):
            a, ta, _ = self.expr(e.left, env, want or "Int")
            b, tb, _ = self.expr(e.right, env, ta)
            if isinstance(e.left, ast.Constant) and ta != tb:
                a, ta, _ = self.expr(e.left, env, tb)
            if ta != tb or ta not in ("Int", "Rat"):
                fail(e, f"`{src(e)}` on {ta} and {tb}")
            return f"({a} {'-' if isinstance(e.op, ast.Sub) else '+'} {b})", ta, "imm"
        if isinstance(e.op, ast.Mult):
            a, ta, _ = self.expr(e.left, env)
            b, tb, _ = self.expr(e.right, env, "Int")
            if (ta, tb) == ("List Rat", "Int"):
                return f"(tupleRepeat {a} {b})", "List Rat", "imm"
            fail(e, f"`*` of {ta} and {tb}")
        fail(e, f"operator in {src(e)}")

    @staticmethod
    def narrowing(v, env):
        """`x is not None` on a local / parameter of an Option type -> x"""
        if isinstance(v, ast.Compare) and len(v.ops) == 1 and isinstance(v.ops[0], ast.IsNot) and is_none(v.comparators[0]) \
                and isinstance(v.left, ast.Name) and isinstance(env.get(v.left.id), dict) and env[v.left.id]["ty"].startswith("Option "):
            return v.left.id
        return None

    @staticmethod
    def narrowed(env, name):
        v = env[name]
        return dict(env, **{name: {"text": f"{name}_v", "ty": v["ty"][len("Option "):], "own": "imm"}})

    def boolop(self, values, is_and, env, node):
        if len(values) == 1:
            t, ty, _ = self.expr(values[0], env)
            if ty != "Bool":
                fail(node, f"and/or on a {ty}")
            return t
        x = self.narrowing(values[0], env) if is_and else None
        if x:       # `x is not None and rest`: rest is evaluated with x known
            rest = self.boolop(values[1:], True, self.narrowed(env, x), node)
            return f"(match {env[x]['text']} with | none => false | some {x}_v => {rest})"
        t, ty, _ = self.expr(values[0], env)
        if ty != "Bool":
            fail(node, f"and/or on a {ty}")
        return f"({t} {'&&' if is_and else '||'} {self.boolop(values[1:], is_and, env, node)})"

    def compare(self, node, a, op, b, env):
        if isinstance(op, (ast.Is, ast.IsNot)):
            if not is_none(b):
                fail(node, "`is` against something other than None")
            t, ty, _ = self.expr(a, env)
            if not ty.startswith("Option "):
                fail(node, f"`is None` on a {ty}")
            return f"{t}.isNone" if isinstance(op, ast.Is) else f"{t}.isSome"
        ta, tya, _ = self.expr(a, env, "Int")
        tb, tyb, _ = self.expr(b, env, tya)
        if isinstance(a, ast.Constant) and tya != tyb:
            ta, tya, _ = self.expr(a, env, tyb)
        if tya != tyb or tya not in ("Rat", "Int"):
            fail(node, f"comparison of {tya} with {tyb} in {src(node)}")
        sym = {ast.Eq: "=", ast.NotEq: "≠", ast.Lt: "<", ast.LtE: "≤", ast.Gt: ">", ast.GtE: "≥"}.get(type(op))
        if sym is None:
            fail(node, f"operator in {src(node)}")
        return f"decide ({ta} {sym} {tb})"

    def tuple(self, e, env):
        items = []
        for el in e.elts:
            star = isinstance(el, ast.Starred)
            t, ty, own = self.expr(el.value if star else el, env)
            items.append((star, t, ty, own))
        if all((star and ty == "List Rat") or (not star and ty == "Rat") for star, t, ty, own in items) and items:
            parts, run = [], []
            for star, t, ty, own in items:
                if star:
                    if run:
                        parts.append("[" + ", ".join(run) + "]")
                        run = []
                    parts.append(t)
                else:
                    run.append(t)
            if run:
                parts.append("[" + ", ".join(run) + "]")
            return ("(" + " ++ ".join(parts) + ")") if len(parts) > 1 else parts[0], "List Rat", "imm"
        if len(items) == 2 and not any(star for star, *_ in items):
            for (star, t, ty, own), el in zip(items, e.elts):
                self.storable(el, ty, own, "put into a tuple")
            return f"({items[0][1]}, {items[1][1]})", f"({items[0][2]} × {items[1][2]})", "fresh"
        fail(e, f"tuple {src(e)[:60]}")

    def call(self, e, env):
        fn, text = e.func, src(e)
        if e.keywords:
            fail(e, f"keyword arguments in {text}")
        args = list(e.args)
        if text == "np.eye(4)":
            return "M4.eye", "M4", "fresh"
        if text == "Point.zero()":
            return "ptZero", "Pt", "imm"
        dotted = ast.unparse(fn)
        if dotted == "copy.deepcopy" and len(args) == 1:
            t, ty, _ = self.expr(args[0], env)
            if ty not in DEEPCOPY_TYPES:
                fail(e, f"copy.deepcopy of a {ty}")
            return t, ty, "fresh"
        if dotted == "linalg.inv" and len(args) == 1:
            t, ty, _ = self.expr(args[0], env)
            if ty != "M4":
                fail(e, f"linalg.inv of a {ty}")
            return f"(M4.inv {t})", "M4", "fresh"
        if dotted == "np.diag" and len(args) == 1:
            t, ty, _ = self.expr(args[0], env)
            if ty != "List Rat":
                fail(e, f"np.diag of a {ty}")
            return f"(npDiag {t})", "NdArray", "fresh"
        if dotted == "len" and len(args) == 1:
            t, ty, _ = self.expr(args[0], env)
            if ty != "String" and not ty.startswith("List "):
                fail(e, f"len of a {ty}")
            return f"({t}.length : Int)", "Int", "imm"
        if dotted == "Point" and len(args) == 1 and isinstance(args[0], ast.Starred):
            t, ty, _ = self.expr(args[0].value, env)
            if ty != "Pt":
                fail(e, f"Point(*x) of a {ty}")
            return t, "Pt", "imm"
        if dotted == "Point.from_vector" and len(args) == 1:
            t, ty, _ = self.expr(args[0], env)
            if ty != "V4":
                fail(e, f"Point.from_vector of a {ty}")
            return f"(ptFromVector {t})", "Pt", "imm"
        if dotted in ("any", "all") and len(args) == 1 and isinstance(args[0], ast.GeneratorExp):
            g = args[0]
            if len(g.generators) != 1 or g.generators[0].ifs or g.generators[0].is_async or not isinstance(g.generators[0].target, ast.Name):
                fail(e, f"generator in {text}")
            it, ity, _ = self.expr(g.generators[0].iter, env)
            if ity != "List Rat":
                fail(e, f"{dotted}(…) over a {ity}")
            v = g.generators[0].target.id
            body, bty, _ = self.expr(g.elt, dict(env, **{v: {"text": v, "ty": "Rat", "own": "imm"}}))
            if bty != "Bool":
                fail(e, f"{dotted}(…) of a {bty}")
            return f"({it}.{dotted} (fun {v} => {body}))", "Bool", "imm"
        if isinstance(fn, ast.Attribute) and not is_self_attr(fn):
            recv = fn.value
            # methods of values
            if fn.attr in ("strip", "copy", "to_vector", "resolve") and not args and not (isinstance(recv, ast.Name) and recv.id == "self"):
                t, ty, _ = self.expr(recv, env)
                if fn.attr == "strip" and ty == "String":
                    return f"(pyStrip {t})", "String", "imm"
                if fn.attr == "copy" and ty == "M4":
                    return t, "M4", "fresh"
                if fn.attr == "to_vector" and ty == "Pt":
                    return f"(ptToVector {t})", "V4", "imm"
                if fn.attr == "resolve" and ty == "Pt":
                    return f"(ptResolve {t})", "Pt", "imm"
                fail(e, f".{fn.attr}() of a {ty}")
            # e.m() of an enum member
            if isinstance(recv, ast.Name) and isinstance(env.get(recv.id), dict) and env[recv.id]["ty"] in self.enums and not args:
                en = env[recv.id]["ty"]
                self.enum_method(e, en, fn.attr)
                return f"({en}.{fn.attr} {env[recv.id]['text']})", "List Rat", "imm"
            # self.f.m(args): a value method of the object a field holds
            if is_self_attr(recv) and env["$cls"].ftype.get(recv.attr) in self.classes:
                oc = self.classes[env["$cls"].ftype[recv.attr]]
                if oc.kind.get(fn.attr) == "value":
                    self.method(oc, fn.attr)
                    return f"({oc.name}.{fn.attr} {env['$self']}.{recv.attr}{self.call_args(e, oc, fn.attr, env)})", oc.rtype[fn.attr], "fresh"
                fail(e, f"{text}: not a value method of {oc.name}")
        if is_self_attr(fn):
            cls = env["$cls"]
            if cls.kind.get(fn.attr) == "value":
                self.method(cls, fn.attr)
                return f"({cls.name}.{fn.attr} {env['$self']}{self.call_args(e, cls, fn.attr, env)})", cls.rtype[fn.attr], "fresh"
            fail(e, f"{text}: not a value method of {cls.name}")
        fail(e, f"call {text[:70]}")

    def call_args(self, call, cls, name, env):
        m = cls.methods[name]
        sig = self.signature(cls, name)
        if self.oracle(cls, name):
            fail(call, f"call of {cls.name}.{name}, whose translation takes a value only scipy knows")
        if m.args.vararg or call.keywords or any(isinstance(a, ast.Starred) for a in call.args):
            fail(call, f"call of {cls.name}.{name} with * arguments")
        params = m.args.args[1:]
        defaults = dict(zip([p.arg for p in params][len(params) - len(m.args.defaults):], m.args.defaults))
        if len(call.args) > len(params):
            fail(call, f"too many arguments for {cls.name}.{name}")
        out = ""
        for i, (pname, pty) in enumerate(sig):
            if i < len(call.args):
                t, ty, _ = self.expr(call.args[i], env)
            elif pname in defaults:
                t, ty, _ = self.expr(defaults[pname], env)
            else:
                fail(call, f"missing argument {pname}")
            if ty == "M4" and pty == "NdArray":
                t, ty = f"(NdArray.m4 {t})", "NdArray"
            if ty != pty:
                fail(call, f"argument {pname} of {cls.name}.{name}: expected {pty}, got {ty}")
            out += f" {t}"
        return out

    # ---------------------------------------------------------------- ownership
    def storable(self, node, ty, own, what):
        if not is_ref(ty) or own in ("fresh", "consumed") or own.startswith("local:"):
            return
        if own.startswith("alias:"):
            fail(node, f"aliasing: `{src(node)}` ({own[6:]}, an object that stays where it is) is {what} without copy.deepcopy")
        fail(node, f"aliasing: `{src(node)}` (the caller's object) is {what} without a copy")

    @staticmethod
    def moved(env, own):
        if own.startswith("local:"):
            n = own[6:]
            return dict(env, **{n: dict(env[n], own="moved")})
        return env

    # ---------------------------------------------------------------- statements
    def fresh(self, env, p="s"):
        env["$n"][0] += 1
        return f"{p}{env['$n'][0]}"

    def bind_local(self, env, name, text, ty, own):
        """a local bound to a fresh object owns it; bound to anything else it is just another name for it"""
        if is_ref(ty):
            own = f"local:{name}" if own in ("fresh", "consumed") or own.startswith("local:") else own
        else:
            own = "imm"
        return dict(env, **{name: {"text": name, "ty": ty, "own": own}})

    def set_field(self, st, env, field, text, ty, own, value_node):
        cls = env["$cls"]
        if field not in cls.slots:
            fail(st, f"self.{field} is not a slot of {cls.name}")
        if cls.ftype.setdefault(field, ty) != ty:
            fail(st, f"self.{field} holds a {cls.ftype[field]}, assigned a {ty}")
        self.storable(value_node, ty, own, f"stored in self.{field}")
        return self.moved(env, own)

    def block(self, stmts, env, depth):
        ind = "  " * depth
        cls, cur = env["$cls"], env["$self"]
        value = env["$kind"] == "value"
        if not stmts:
            if value:
                fail(env["$m"], "a value method must end with `return e`")
            return f"{ind}({cur}, none)\n"
        st, rest = stmts[0], stmts[1:]
        note = f"{ind}-- {src(st)[:110]}\n"

        def effect_only():
            if value:
                fail(st, f"`{src(st)[:50]}` in a method that returns a value")

        pinned = PINNED_BLOCKS.get((cls.name, env["$m"].name))
        if pinned and src(st) == pinned["stmts"][0]:
            k = len(pinned["stmts"])
            got = [src(x) for x in stmts[:k]]
            if got != pinned["stmts"]:
                fail(st, f"the numeric part of {cls.name}.{env['$m'].name} is no longer the pinned text: {got}")
            for v, ty in pinned["reads"].items():
                if not isinstance(env.get(v), dict) or env[v]["ty"] != ty:
                    fail(st, f"the pinned numeric part reads `{v}`, expected a {ty}")
            later = {n.id for x in stmts[k:] for n in ast.walk(x) if isinstance(n, ast.Name)}
            if later & set(pinned["hides"]):
                fail(st, f"{sorted(later & set(pinned['hides']))} of the pinned numeric part are used afterwards")
            env["$pinned"].append(True)
            name, ty = pinned["binds"]
            out = "".join(f"{ind}-- {g}\n" for g in got) + f"{ind}let {name} : {ty} := {pinned['lean']}\n"
            return out + self.block(stmts[k:], self.bind_local(env, name, name, ty, "fresh"), depth)
        if isinstance(st, ast.Expr) and isinstance(st.value, ast.Constant) and isinstance(st.value.value, str):
            return self.block(rest, env, depth)
        if isinstance(st, ast.Pass):
            return self.block(rest, env, depth)
        if isinstance(st, ast.Return):
            if st.value is None:
                effect_only()
                return f"{ind}({cur}, none)\n"
            if not value or rest:
                fail(st, "`return e` must be the last statement of a method without side effects")
            t, ty, own = self.expr(st.value, env)
            self.storable(st.value, ty, own, "returned")
            env["$ret"].append(ty)
            return note + f"{ind}{t}\n"
        if isinstance(st, ast.Raise):
            effect_only()
            exc = st.exc
            name = exc.func.id if isinstance(exc, ast.Call) and isinstance(exc.func, ast.Name) else None
            if name not in ERRORS or st.cause is not None:
                fail(st, f"raise {src(st)[:50]}")
            return note + f"{ind}({cur}, some .{ERRORS[name]})\n"
        if isinstance(st, ast.If):
            return self.if_stmt(st, rest, env, depth)
        if isinstance(st, (ast.Assign, ast.AnnAssign)):
            if isinstance(st, ast.Assign) and len(st.targets) != 1:
                fail(st, "chained assignment")
            tgt = st.targets[0] if isinstance(st, ast.Assign) else st.target
            val = st.value
            if val is None:
                fail(st, "annotation without a value")
            # x, y, z = point
            if isinstance(tgt, ast.Tuple):
                t, ty, _ = self.expr(val, env)
                names = [getattr(n, "id", None) for n in tgt.elts]
                if ty != "Pt" or len(names) != 3 or None in names:
                    fail(st, f"unpacking of a {ty}")
                out, env2 = note, env
                for n, c in zip(names, "xyz"):
                    out += f"{ind}let {n} : Option Rat := {t}.{c}\n"
                    env2 = dict(env2, **{n: {"text": n, "ty": "Option Rat", "own": "imm"}})
                return out + self.block(rest, env2, depth)
            # m[:-1, -1] = [a, b, c]
            if isinstance(tgt, ast.Subscript) and isinstance(tgt.value, ast.Name):
                t, ty, own = self.expr(tgt.value, env)
                if ty != "M4" or not is_last_column(tgt.slice) or not isinstance(val, ast.List) or len(val.elts) != 3:
                    fail(st, f"subscript assignment {src(st)[:60]}")
                if not own.startswith("local:"):
                    fail(st, f"aliasing: `{tgt.value.id}` is changed in place but is not a local fresh array")
                cs = []
                for el in val.elts:
                    c, cty, _ = self.expr(el, env)
                    if cty == "Option Rat":
                        c = f"(storeFloat {c})"
                    elif cty != "Rat":
                        fail(st, f"a {cty} stored into a float array")
                    cs.append(c)
                return note + f"{ind}let {t} : M4 := m4SetLastColumn {t} {' '.join(cs)}\n" + self.block(rest, env, depth)
            # self.d[k] = e
            if isinstance(tgt, ast.Subscript) and is_self_attr(tgt.value):
                effect_only()
                f = tgt.value.attr
                if cls.ftype.get(f) != "PyDict Transform":
                    fail(st, f"self.{f} is not a dict")
                k, kty, _ = self.expr(tgt.slice, env)
                t, ty, own = self.expr(val, env)
                if kty != "String" or ty != "Transform":
                    fail(st, f"dict store of {kty} -> {ty}")
                self.storable(val, ty, own, f"stored in self.{f}[…]")
                nxt = self.fresh(env)
                env2 = dict(self.moved(env, own), **{"$self": nxt})
                return note + f"{ind}let {nxt} : {cls.name} := {{ {cur} with {f} := dictSet {cur}.{f} {k} {t} }}\n" + self.block(rest, env2, depth)
            if isinstance(tgt, ast.Name):
                if isinstance(env.get(tgt.id), dict) and env[tgt.id]["ty"].startswith("Option "):
                    fail(st, f"`{tgt.id}` (an optional parameter) is reassigned")
                # name = Enum(x): lookup by value, ValueError if there is no such member
                if isinstance(val, ast.Call) and isinstance(val.func, ast.Name) and val.func.id in self.enums and len(val.args) == 1 and not val.keywords:
                    effect_only()
                    en = self.use_enum(st, val.func.id)
                    t, ty, _ = self.expr(val.args[0], env)
                    if ty != "String":
                        fail(st, f"{en}(…) of a {ty}")
                    env2 = dict(env, **{tgt.id: {"text": tgt.id, "ty": en, "own": "imm"}})
                    return (note + f"{ind}match {en}.ofValue? {t} with\n{ind}| none => ({cur}, some .valueError)\n{ind}| some {tgt.id} =>\n"
                            + self.block(rest, env2, depth + 1))
                # name = self.d[k]
                if isinstance(val, ast.Subscript) and is_self_attr(val.value) and cls.ftype.get(val.value.attr) == "PyDict Transform":
                    effect_only()
                    f = val.value.attr
                    k, kty, _ = self.expr(val.slice, env)
                    if kty != "String":
                        fail(st, f"dict key of type {kty}")
                    env2 = dict(env, **{tgt.id: {"text": tgt.id, "ty": "Transform", "own": f"alias:self.{f}[…]"}})
                    return (note + f"{ind}match dictGet {cur}.{f} {k} with\n{ind}| none => ({cur}, some .keyError)\n{ind}| some {tgt.id} =>\n"
                            + self.block(rest, env2, depth + 1))
                # name = self.l.pop()
                if isinstance(val, ast.Call) and isinstance(val.func, ast.Attribute) and val.func.attr == "pop" and is_self_attr(val.func.value) \
                        and cls.ftype.get(val.func.value.attr, "").startswith("List ") and not val.args and not val.keywords:
                    effect_only()
                    f = val.func.value.attr
                    ety = cls.ftype[f][len("List "):]
                    nxt, l = self.fresh(env), self.fresh(env, "l")
                    env2 = dict(env, **{"$self": nxt, tgt.id: {"text": tgt.id, "ty": ety, "own": f"local:{tgt.id}"}})
                    return (note + f"{ind}match listPop {cur}.{f} with\n{ind}| none => ({cur}, some .indexError)\n{ind}| some ({l}, {tgt.id}) =>\n"
                            + f"{ind}  let {nxt} : {cls.name} := {{ {cur} with {f} := {l} }}\n" + self.block(rest, env2, depth + 1))
                t, ty, own = self.expr(val, env)
                env2 = self.bind_local(self.moved(env, own) if own.startswith("local:") else env, tgt.id, t, ty, own)
                return note + f"{ind}let {tgt.id} : {ty} := {t}\n" + self.block(rest, env2, depth)
            if is_self_attr(tgt):
                effect_only()
                f = tgt.attr
                if isinstance(st, ast.AnnAssign):
                    ann = ast.unparse(st.annotation)
                    if ann not in FIELD_ANNOTATIONS:
                        fail(st, f"annotation {ann}")
                    if cls.ftype.setdefault(f, FIELD_ANNOTATIONS[ann]) != FIELD_ANNOTATIONS[ann]:
                        fail(st, f"self.{f}: {ann}")
                # self.f = {} / []
                if (isinstance(val, ast.Dict) and not val.keys) or (isinstance(val, ast.List) and not val.elts):
                    ty = cls.ftype.get(f)
                    if ty is None or not (ty.startswith("PyDict ") if isinstance(val, ast.Dict) else ty.startswith("List ")):
                        fail(st, f"empty literal for self.{f}: {ty}")
                    nxt = self.fresh(env)
                    return note + f"{ind}let {nxt} : {cls.name} := {{ {cur} with {f} := ([] : {ty}) }}\n" + self.block(rest, dict(env, **{"$self": nxt}), depth)
                # self.f = Class(args)
                if isinstance(val, ast.Call) and isinstance(val.func, ast.Name) and val.func.id in self.classes:
                    oc = self.classes[val.func.id]
                    self.method(oc, "__init__")
                    args = self.call_args(val, oc, "__init__", env)
                    env2 = self.set_field(st, env, f, "", oc.name, "fresh", val)
                    nxt, o = self.fresh(env), self.fresh(env, "o")
                    return (note + f"{ind}match {oc.name}.__init__ default{args} with\n{ind}| ({o}, some e) => ({cur}, some e)\n{ind}| ({o}, none) =>\n"
                            + f"{ind}  let {nxt} : {cls.name} := {{ {cur} with {f} := {o} }}\n" + self.block(rest, dict(env2, **{"$self": nxt}), depth + 1))
                t, ty, own = self.expr(val, env)
                env2 = self.set_field(st, env, f, t, ty, own, val)
                nxt = self.fresh(env)
                return note + f"{ind}let {nxt} : {cls.name} := {{ {cur} with {f} := {t} }}\n" + self.block(rest, dict(env2, **{"$self": nxt}), depth)
            fail(st, f"assignment target {src(tgt)}")
        if isinstance(st, ast.Expr) and isinstance(st.value, ast.Call):
            effect_only()
            c = st.value
            fn = c.func
            if c.keywords:
                fail(st, "keyword arguments")
            if is_self_attr(fn):                                             # self.m(args)
                if cls.kind.get(fn.attr) != "effect":
                    fail(st, f"call of {fn.attr}")
                self.method(cls, fn.attr)
                args = self.call_args(c, cls, fn.attr, env)
                nxt = self.fresh(env)
                return (note + f"{ind}match {cls.name}.{fn.attr} {cur}{args} with\n{ind}| ({nxt}, some e) => ({nxt}, some e)\n{ind}| ({nxt}, none) =>\n"
                        + self.block(rest, dict(env, **{"$self": nxt}), depth + 1))
            if isinstance(fn, ast.Attribute) and is_self_attr(fn.value):
                f, fty = fn.value.attr, cls.ftype.get(fn.value.attr)
                if fty in self.classes:                                      # self.f.m(args): the object in the field changes in place
                    oc = self.classes[fty]
                    if oc.kind.get(fn.attr) != "effect":
                        fail(st, f"call of {oc.name}.{fn.attr}")
                    self.method(oc, fn.attr)
                    args = self.call_args(c, oc, fn.attr, env)
                    nxt, o = self.fresh(env), self.fresh(env, "o")
                    return (note + f"{ind}match {oc.name}.{fn.attr} {cur}.{f}{args} with\n"
                            f"{ind}| ({o}, some e) => ({{ {cur} with {f} := {o} }}, some e)\n{ind}| ({o}, none) =>\n"
                            f"{ind}  let {nxt} : {cls.name} := {{ {cur} with {f} := {o} }}\n" + self.block(rest, dict(env, **{"$self": nxt}), depth + 1))
                if fty is not None and fty.startswith("List ") and fn.attr == "append" and len(c.args) == 1:
                    t, ty, own = self.expr(c.args[0], env)
                    if f"List {ty}" != fty:
                        fail(st, f"append of a {ty} to a {fty}")
                    self.storable(c.args[0], ty, own, f"appended to self.{f}")
                    nxt = self.fresh(env)
                    env2 = dict(self.moved(env, own), **{"$self": nxt})
                    return note + f"{ind}let {nxt} : {cls.name} := {{ {cur} with {f} := {cur}.{f} ++ [{t}] }}\n" + self.block(rest, env2, depth)
                if fty == "PyDict Transform" and fn.attr == "pop" and len(c.args) == 1:
                    k, kty, _ = self.expr(c.args[0], env)
                    if kty != "String":
                        fail(st, f"dict key of type {kty}")
                    nxt, d = self.fresh(env), self.fresh(env, "d")
                    return (note + f"{ind}match dictPop {cur}.{f} {k} with\n{ind}| none => ({cur}, some .keyError)\n{ind}| some ({d}, _) =>\n"
                            f"{ind}  let {nxt} : {cls.name} := {{ {cur} with {f} := {d} }}\n" + self.block(rest, dict(env, **{"$self": nxt}), depth + 1))
            fail(st, f"statement {src(st)[:70]}")
        fail(st, f"statement {src(st)[:70]}")

    def if_stmt(self, st, rest, env, depth):
        ind = "  " * depth
        cur = env["$self"]
        if env["$kind"] == "value":
            fail(st, "`if` in a method that returns a value")
        note = f"{ind}-- if {src(st.test)[:100]}:\n"
        # if m.shape != (4, 4): raise E(...)      -> afterwards m is a 4x4 matrix
        if src(st.test).endswith(".shape != (4, 4)") and isinstance(st.test.left, ast.Attribute) and isinstance(st.test.left.value, ast.Name):
            name = st.test.left.value.id
            v = env.get(name)
            if not isinstance(v, dict) or v["ty"] != "NdArray" or st.orelse or len(st.body) != 1 or not isinstance(st.body[0], ast.Raise):
                fail(st, "shape test outside the pattern `if m.shape != (4, 4): raise …`")
            raised = self.block([st.body[0]], env, depth + 1).splitlines()[-1].strip()
            env2 = dict(env, **{name: dict(v, ty="M4")})
            return (note + f"{ind}match {v['text']} with\n{ind}| .other => {raised}\n{ind}| .m4 {v['text']} =>\n" + self.block(rest, env2, depth + 1))
        tests = list(st.test.values) if isinstance(st.test, ast.BoolOp) and isinstance(st.test.op, ast.And) else [st.test]
        x = self.narrowing(tests[0], env)
        if x:      # if x is not None [and c]: body (x known)  else: orelse
            env2 = self.narrowed(env, x)
            out = note + f"{ind}match {env[x]['text']} with\n{ind}| some {x}_v =>\n"
            if len(tests) > 1:
                c = self.boolop(tests[1:], True, env2, st)
                out += (f"{ind}  if {c} then\n" + self.block(list(st.body) + rest, env2, depth + 2) + f"{ind}  else\n"
                        + self.block(list(st.orelse) + rest, env, depth + 2))
            else:
                out += self.block(list(st.body) + rest, env2, depth + 1)
            return out + f"{ind}| none =>\n" + self.block(list(st.orelse) + rest, env, depth + 1)
        t, ty, _ = self.expr(st.test, env)
        if ty != "Bool":
            fail(st, f"condition of type {ty}")
        # the statements after the `if` are continued in both branches (a `raise` / `return` inside a branch ends the method there)
        return (note + f"{ind}if {t} then\n" + self.block(list(st.body) + rest, env, depth + 1) + f"{ind}else\n"
                + self.block(list(st.orelse) + rest, env, depth + 1))

    # ---------------------------------------------------------------- methods
    def method(self, cls, name):
        if name in cls.text:
            return
        if name not in TRANSLATE[cls.name]:
            fail(cls.methods.get(name, cls.node), f"{cls.name}.{name} is not among the translated methods")
        if (cls.name, name) in self.active:
            fail(cls.methods[name], f"recursion through {cls.name}.{name}")
        self.active.append((cls.name, name))
        m = cls.methods[name]
        sig = self.signature(cls, name)
        env = {"$cls": cls, "$self": "self", "$n": [0], "$kind": cls.kind[name], "$m": m, "$ret": [], "$pinned": []}
        for pname, pty in sig:
            own = "consumed" if CONSUMED.get((cls.name, name)) == pname else ("param" if is_ref(pty) else "imm")
            env[pname] = {"text": pname, "ty": pty, "own": own}
        body = self.block(list(m.body), env, 1)
        if (cls.name, name) in PINNED_BLOCKS and len(env["$pinned"]) != 1:
            fail(m, f"the pinned numeric part of {cls.name}.{name} was not found (exactly once, on every path)")
        if self.oracle(cls, name):
            sig = sig + [self.oracle(cls, name)]
        if cls.kind[name] == "value":
            if len(env["$ret"]) != 1:
                fail(m, "a value method has exactly one `return e`")
            rty = env["$ret"][0]
            cls.rtype[name] = rty
            if name == "_copy_state":
                self.tuple_type = rty
        else:
            rty = f"{cls.name} × Option Err"
        params = "".join(f" ({p} : {t})" for p, t in sig)
        cls.text[name] = (f"/-- `{cls.name}.{name}` ({cls.file} line {m.lineno}) -/\n"
                          f"def {cls.name}.{name} (self : {cls.name}){params} : {rty} :=\n" + body)
        self.order.append((cls.name, name))
        self.active.pop()

    def render(self):
        for cname in FILES:
            cls = self.classes[cname]
            for name in sorted(TRANSLATE[cname], key=lambda n: cls.methods[n].lineno):
                self.method(cls, name)
            missing = [s for s in cls.slots if s not in cls.ftype]
            if missing:
                raise Unsupported(f"{cname}: no assignment tells the type of {missing}")
        pairs = [d for name in CONTEXTS for d in self.context_pair(name)]
        out = ["/- GENERATED by tools/gen_xform.py from gscrib/geometry/transform.py, gscrib/geometry/transformer.py and the transform context",
               "   managers of gscrib/gcode_core.py (source text, by AST). Do not edit.",
               "   Assumptions of the translation: arguments have the annotated types (typeguard) and are finite; `@`, `linalg.inv`, `np.eye`,",
               "   `np.diag`, slice assignment and the pinned `Point` methods are the primitives of Model/XformPrelude.lean; objects are values",
               "   (`copy.deepcopy` / `.copy()` = identity), sound because the translator refuses any store of a non-fresh object (aliasing);",
               "   message texts are dropped; a `@contextmanager` generator `pre; try: yield x; finally: post` is entered by running `pre`",
               "   and left - normally or by an exception - by running `post` once (contextlib). -/",
               "import GscribModel.Model.XformPrelude", "namespace GscribModel.Gen.XformSrc", "open GscribModel.Transform GscribModel.XformPrelude",
               "set_option linter.unusedVariables false", ""]
        for en in self.used_enums:
            info = self.enums[en]
            out.append(f"/-- `gscrib.enums.{en}` ({info['file']} line {info['node'].lineno}); `{en}(value)` is `ofValue?` (`none`: ValueError) -/")
            out.append(f"inductive {en} where " + " ".join(f"| {m}" for m, _ in info["members"]))
            out.append("deriving DecidableEq, Repr, Inhabited")
            out.append(f"def {en}.ofValue? (s : String) : Option {en} :=")
            out.append("  " + "".join(f"if s = \"{v}\" then some .{m} else " for m, v in info["members"]) + "none")
            out.append("")
            for (e2, mname), text in self.enum_defs.items():
                if e2 == en:
                    out.append(text)
        done = set()
        for cname, name in self.order:
            cls = self.classes[cname]
            if cname not in done:
                done.add(cname)
                out.append(f"/-- class `{cname}` ({cls.file} line {cls.node.lineno}): one field per `__slots__` entry -/")
                out.append(f"structure {cname} where")
                out += [f"  {s} : {cls.ftype[s]}" for s in cls.slots]
                out.append("deriving DecidableEq, Repr, Inhabited")
                out.append("")
            out.append(cls.text[name])
        out += pairs
        out.append("/-- names of the translated methods, in source order -/")
        names = [f'"{c}.{n}"' for c in FILES for n in sorted(TRANSLATE[c], key=lambda n: self.classes[c].methods[n].lineno)]
        names += [f'"{CORE_CLASS}.{n}"' for n in sorted(CONTEXTS, key=lambda n: self.core[n].lineno)]
        out.append("def translated : List String := [" + ", ".join(names) + "]")
        out.append("")
        out.append("end GscribModel.Gen.XformSrc")
        return "\n".join(out) + "\n"


def main():
    args = [a for i, a in enumerate(sys.argv[1:], 1) if not a.startswith("--") and sys.argv[i - 1] != "--out"]
    repo = Path(args[0] if args else os.environ.get("GSCRIB_REPO", "/repo"))
    try:
        text = T(repo).render()
    except Unsupported as e:
        print("gen_xform: the source is outside the translated subset:", e, file=sys.stderr)
        raise SystemExit(3)
    except (OSError, SyntaxError) as e:
        print("gen_xform: cannot read the source:", e, file=sys.stderr)
        raise SystemExit(3)
    if "--stdout" in sys.argv:
        sys.stdout.write(text)
        return
    out = Path(sys.argv[sys.argv.index("--out") + 1]) if "--out" in sys.argv else OUT
    out.parent.mkdir(parents=True, exist_ok=True)
    if not out.exists() or out.read_text() != text:
        out.write_text(text)
        print("gen_xform: rewrote", out)


if __name__ == "__main__":
    main()

#!/usr/bin/env python3
"""Translator: the direct-write path of gscrib/writers/printrun_writer.py (class PrintrunWriter) and the parts of
gscrib/printrun/printcore.py (class printcore) it relies on  ->  GscribModel/Gen/DirectWriteSrc.lean

Property C16 (a statement passed to `write()` is delivered before `write()` returns, and a device error surfaces) rests
on the *order* of a few statements that run on different threads: `write()` clears the acknowledgement flag BEFORE it
hands the statement to printcore, it reads the stored error AFTER the wait, a wait loop raises a stored error, the
end-of-job branch of `_sendnext` keeps `clear` down while the `M110` reset is unanswered.  These methods are translated
from the *source text* (by AST; nothing is imported or executed), statement by statement and in source order, into Lean
functions on the two objects of `Model/DirectWritePrelude.lean` (`Writer`, `PC`); `Props/DirectWriteTie.lean` proves the
actions of the hand-written transition system `Model/DirectWrite.lean` equal to them.

What is translated
  printrun_writer.py  constants `DEFAULT_TIMEOUT`, `POLLING_INTERVAL`; the initial attribute values (`__init__`,
                      `_setup_device_events`); the properties `is_connected`, `is_printing`, `has_pending_operations`;
                      `set_timeout`, `_on_device_online`, `_on_printrun_error`, `_abort_on_device_error`,
                      `_send_statement`, `_wait_for_acknowledgment`, `_wait_for_connection`,
                      `_wait_for_pending_operations`, `_start_print_thread`, `write`, `disconnect`; the callback wiring of
                      `_create_device`.  (`_on_device_message` is translated by tools/gen_report.py; `connect`,
                      `_connect_device`, the signal handlers are not translated.)
  printcore.py        the initial attribute values (`__init__`); `_reset_line_numbers`, `send`, `send_now`, `startprint`,
                      `_sendnext` (its job-line branch is *outside*: see below).
  serial_writer.py / socket_writer.py   that `connect`, `disconnect`, `write`, `set_timeout` consist of one call of the
                      `PrintrunWriter` delegate, and with which arguments (`delegation`).

Shape of the output.  A method becomes `m (self : Writer | PC) (args…) : Res _` - the object as it was when the *atomic
section* ended, and how it ended (`Out`: `done` returned, `raised cls`, `blocked`, `cont`, `enters m`, `outside what`).
A property / a method that is a single `return <expr>` becomes a function.  Every statement that assigns re-binds `self`.

Threads (see the prelude).  A blocking primitive is *one poll*: `event.wait()` - flag not set = `blocked`;
`if not event.wait(timeout=t): …` - an extra parameter `expired : Bool`, `blocked` while the flag is not set and the
time-out has not expired; `while c: body; time.sleep(t)` - `c` true = the body once, then `blocked`; `c` false = the
statements after the loop.  After `blocked` the thread enters the same section again from its first statement; the
translator therefore *refuses* a section in which a statement that assigns an attribute, or calls a method that does,
precedes the blocking primitive, and cuts a method into sections `m_0`, `m_1`, … where the source has such a statement
before a call of a blocking method (only at the top level of the method, inside a top-level `try … except Exception as e:
raise X(…) from e` - each piece keeps the handler -, or inside an `if` without `else` that is the last statement): a
section that is not the last one ends with `cont`.  `_send_statement` (no blocking point, but its two effects are
separate steps of the model) is additionally emitted effect by effect as `_send_statement_1`, `_send_statement_2`, …
`if <c>: self.connect()` ends the section with `enters "connect"` (`connect` is blocking and not translated).

The subset understood (anything else is refused with exit status 3 - never guessed):
  module       `NAME = <number literal>`
  statements   docstring; `self._logger.<level>(<literals and names>)` (dropped); `name = <expr>`;
               `self.<attr> = <expr>`, `self.<int attr> += <int literal>` for the attributes of the prelude's objects;
               `self.<event>.set()` / `.clear()` / `.wait()`; `if not self.<event>.wait(timeout=<expr>): <raise>`;
               `self.<procedure>(args)` for a method translated earlier; on the writer `self._device.<m>(args)` for a
               translated printcore method or the primitives `cancelprint()` / `disconnect()` (`AttributeError` while
               `_device` is `None`; the recorded `errorcb` calls are delivered when the method returns);
               on printcore `self._send(…)` (defaults filled in from its signature), `self.logError(_(<literal>))`,
               `self.priqueue.put_nowait(x)`, `self.priqueue.task_done()` (dropped), `self.mainqueue.append(x)`,
               `self.print_thread = threading.Thread(target=self._print, …)`, `self.print_thread.start()` (dropped: the
               thread's steps are the passes of `_sendnext`);
               `if / elif / else` (the statements after it continue in every branch that does not end);
               `return`, `return self`-less: bare `return` and `return True | False` in a method whose value the
               translated callers discard; `raise <Class>(<literal | f-string>) [from e]`; `raise <name>` for a local that
               holds the stored error; `try … except Exception as e: raise <Class>(…) from e`;
               `try … finally …` (no `return` inside); the wait loop above (no `break` / `continue` / `else`)
  expressions  names; `True` `False` `None`; integer, float and string literals; `-<literal>`; `+` `-` on integers; `self.<attr>`;
               `self.<property>`; on the writer `self._device.<attr>` (behind a test for None - `self._device is not None and …`,
               `self.is_connected and …` - it is a plain read; in the test of an `if` / `while` without one the statement raises
               `AttributeError` while `_device` is `None`; anywhere else it is refused), `self._device.printer is None`,
               `self._device.priqueue.empty()`, `self._device` as a truth value; on printcore
               `self.printer.has_flow_control`, `self.priqueue.empty()`, `self.priqueue.get_nowait()` and
               `self.sentlines[<expr>]` (only as an argument of `self._send`), `self.mainqueue.has_index(<expr>)` (only as
               the last operand of an `if` test, evaluated after the operands before it); `gcoder.GCode([])`;
               `statement.decode("utf-8").strip()`; `DeviceError(<name>)`; `x is None`, `x is not None`; `==` `!=` `<` `>`
               `<=` `>=` on numbers, `== True`; `and` `or` `not`
  outside      the `if` of `_sendnext` whose test is `self.printing and self.mainqueue.has_index(self.queueindex)`: the test is
               translated, its body (a line of the job; the writer's job is empty) is emitted as `outside "job-line"`.
A float literal denotes the decimal it is written as.  Message texts are kept only inside `DeviceError(msg)` objects.

usage: gen_dwrite.py [repo_root] [--out FILE | --stdout]
"""
import ast
import os
import sys
from fractions import Fraction
from pathlib import Path

V = Path(__file__).resolve().parent.parent
OUT = V / "lean" / "GscribModel" / "Gen" / "DirectWriteSrc.lean"
W_SRC = "gscrib/writers/printrun_writer.py"
P_SRC = "gscrib/printrun/printcore.py"
DELEGATES = [("gscrib/writers/serial_writer.py", "SerialWriter"), ("gscrib/writers/socket_writer.py", "SocketWriter")]
DELEGATED = ["connect", "disconnect", "write", "set_timeout"]

CONSTS = ["DEFAULT_TIMEOUT", "POLLING_INTERVAL"]
LOGGER = {"debug", "info", "warning", "error", "exception"}
EXC = {"DeviceError": "deviceError", "GscribError": "gscribError", "DeviceConnectionError": "deviceConnectionError",
       "DeviceTimeoutError": "deviceTimeoutError", "DeviceWriteError": "deviceWriteError", "ValueError": "valueError"}

# attribute -> (Lean type, {source text of the initialiser in __init__: Lean value}); environment fields of the prelude: None
W_FIELDS = {
    "_device": ("Option PC", {"None": "none"}),
    "_timeout": ("Rat", {"DEFAULT_TIMEOUT": "DEFAULT_TIMEOUT"}),
    "_device_error": ("Option ErrObj", {"None": "none"}),
    "_shutdown_requested": ("Bool", {"False": "false"}),
    "_ack_event": ("Event", {"threading.Event()": "false"}),
    "_online_event": ("Event", {"threading.Event()": "false"}),
}
P_FIELDS = {
    "printer": ("Bool", {"None": "false"}),
    "clear": ("Bool", {"0": "false", "False": "false"}),
    "online": ("Bool", {"False": "false"}),
    "printing": ("Bool", {"False": "false"}),
    "paused": ("Bool", {"False": "false"}),
    "mainqueue": ("Option (List Str)", {"None": "none"}),
    "priqueue": ("List Str", {"Queue(0)": "[]"}),
    "queueindex": ("Int", {"0": "0"}),
    "lineno": ("Int", {"0": "0"}),
    "resendfrom": ("Int", {"-1": "-1"}),
    "sentlines": ("List (Int × Str)", {"{}": "[]"}),
    "tcp_streaming_mode": ("Bool", {"False": "false"}),
    "_send_line_numbers": ("Bool", {"True": "true"}),
    "print_thread": ("Bool", {"None": "false"}),
}
P_ENV = {"has_flow_control": ("Bool", "false"), "port_fails": ("Bool", "false"), "wire": ("List Str", "[]"), "cb_error": ("List Str", "[]")}

ANNOT = {"bytes": "Str", "str": "Str", "float": "Rat", "bool": "Bool", "int": "Int"}
# printcore has no annotations: parameter types of the translated methods
P_PARAMS = {"_reset_line_numbers": [], "send": [("command", "Str"), ("wait", "Int")], "send_now": [("command", "Str"), ("wait", "Int")],
            "startprint": [("gcode", "List Str"), ("startindex", "Int")], "_sendnext": []}
P_ORDER = ["_reset_line_numbers", "send", "send_now", "startprint", "_sendnext"]
SEND_SIG = ["self", "command", "lineno", "calcchecksum"]
W_PROPS = ["is_connected", "is_printing", "has_pending_operations"]
W_ORDER = ["set_timeout", "_on_device_online", "_on_printrun_error", "_abort_on_device_error", "_send_statement",
           "_wait_for_acknowledgment", "_wait_for_connection", "_wait_for_pending_operations", "_start_print_thread", "write",
           "disconnect"]
CALLBACKS = {"onlinecb": "_on_device_online", "errorcb": "_on_printrun_error", "recvcb": "_on_device_message"}
STEPWISE = {"_send_statement"}
ENTERS = {"connect"}
OUTSIDE = {("_sendnext", "self.printing and self.mainqueue.has_index(self.queueindex)"): "job-line"}
PRIMS = {"cancelprint": "PC.cancelprint", "disconnect": "PC.disconnect"}


class Unsupported(Exception):
    pass


def fail(node, what):
    raise Unsupported(f"line {getattr(node, 'lineno', '?')}: {what}")


class Cont(ast.stmt):
    """synthetic: the section ends here, the thread goes on with the next section"""
    _fields = ()


class Blocked(ast.stmt):
    """synthetic: `time.sleep(…)` at the end of the body of a wait loop"""
    _fields = ()


def lean_char(c):
    if c == "\\":
        return "'\\\\'"
    if c == "'":
        return "'\\''"
    if 32 <= ord(c) < 127:
        return f"'{c}'"
    return f"(Char.ofNat {ord(c)})"


def lean_str(s):
    return "([" + ", ".join(lean_char(c) for c in s) + "] : Str)"


def lean_rat(f):
    return f"({f.numerator} : Rat)" if f.denominator == 1 else f"(({f.numerator} : Rat) / {f.denominator})"


def is_doc(st):
    return isinstance(st, ast.Expr) and isinstance(st.value, ast.Constant) and isinstance(st.value.value, str)


def self_attr(e):
    if isinstance(e, ast.Attribute) and isinstance(e.value, ast.Name) and e.value.id == "self":
        return e.attr
    return None


def dev_attr(e):
    """`self._device.<name>` -> name"""
    if isinstance(e, ast.Attribute) and self_attr(e.value) == "_device":
        return e.attr
    return None


def find_class(tree, name, src):
    cls = [n for n in tree.body if isinstance(n, ast.ClassDef) and n.name == name]
    if len(cls) != 1:
        raise Unsupported(f"class {name} not found in {src}")
    methods = {}
    for n in cls[0].body:
        if isinstance(n, ast.FunctionDef):
            if n.name in methods:
                fail(n, f"{name}.{n.name} defined twice")
            methods[n.name] = n
    return cls[0], methods


def literal_text(e):
    """message arguments: literals, f-strings over names / str(name)"""
    if isinstance(e, ast.Constant) and isinstance(e.value, str):
        return True
    if isinstance(e, ast.JoinedStr):
        for part in e.values:
            if isinstance(part, ast.FormattedValue):
                v = part.value
                if isinstance(v, ast.Call) and isinstance(v.func, ast.Name) and v.func.id == "str" and len(v.args) == 1 and not v.keywords:
                    v = v.args[0]
                if not isinstance(v, ast.Name):
                    return False
        return True
    return False


class Ctx:
    """one class being translated"""

    def __init__(self, key, lean_ty, methods, fields, props):
        self.key = key              # "W" | "PC"
        self.ty = lean_ty           # "Writer" | "PC"
        self.methods = methods
        self.fields = fields
        self.props = props          # property name -> Lean type (translated functions of self)
        self.sigs = {}              # procedure -> {"params": [types], "blocking": bool, "mutates": bool, "expired": bool, "sections": n}


class T:
    def __init__(self, repo):
        self.repo = repo
        wtree = self.parse(W_SRC)
        ptree = self.parse(P_SRC)
        _, wmethods = find_class(wtree, "PrintrunWriter", W_SRC)
        pcls, pmethods = find_class(ptree, "printcore", P_SRC)
        for bad in ("__bool__", "__len__"):
            if bad in pmethods:
                raise Unsupported(f"printcore defines {bad}: `if self._device:` is no longer a test for None")
        self.W = Ctx("W", "Writer", wmethods, W_FIELDS, {})
        self.P = Ctx("PC", "PC", pmethods, P_FIELDS, {})
        self.consts = {}
        self.read_constants(wtree)
        self.check_init(self.W, ["__init__", "_setup_device_events"], W_SRC)
        self.check_init(self.P, ["__init__"], P_SRC)
        self.check_underscore(ptree)
        self.send_defaults = self.check_send()
        self.defs = []

    def parse(self, rel):
        path = self.repo / rel
        if not path.exists():
            raise Unsupported(f"{rel} not found")
        return ast.parse(path.read_text())

    # ------------------------------------------------------------------ module level / __init__
    def read_constants(self, tree):
        seen = {}
        for st in tree.body:
            targets = st.targets if isinstance(st, ast.Assign) else [st.target] if isinstance(st, (ast.AugAssign, ast.AnnAssign)) else []
            for t in targets:
                if isinstance(t, ast.Name) and t.id in CONSTS:
                    if not isinstance(st, ast.Assign) or len(st.targets) != 1 or t.id in seen:
                        fail(st, f"{t.id}: unsupported or repeated assignment")
                    seen[t.id] = st
        for name in CONSTS:
            st = seen.get(name)
            if st is None:
                raise Unsupported(f"module constant {name} not found")
            v = st.value
            if not (isinstance(v, ast.Constant) and isinstance(v.value, (int, float)) and not isinstance(v.value, bool)):
                fail(st, f"{name} is not a number literal")
            f = Fraction(repr(v.value)) if isinstance(v.value, float) else Fraction(v.value)
            self.consts[name] = ("Rat", lean_rat(f), f"`{name} = {ast.unparse(v)}` (source line {st.lineno})")

    def check_init(self, ctx, where, src):
        """every attribute of the table has exactly one initialiser, at the top level of __init__ (or of a method __init__
        calls as `self._m()`), whose text is listed in the table"""
        found = {}
        init = ctx.methods.get("__init__")
        if init is None:
            raise Unsupported(f"{src}: __init__ not found")
        called = {self_attr(st.value.func) for st in init.body
                  if isinstance(st, ast.Expr) and isinstance(st.value, ast.Call) and not st.value.args and not st.value.keywords}
        for mname in where:
            m = ctx.methods.get(mname)
            if m is None:
                raise Unsupported(f"{src}: {mname} not found")
            if mname != "__init__" and mname not in called:
                fail(init, f"__init__ does not call self.{mname}()")
            for st in ast.walk(m):
                targets = st.targets if isinstance(st, ast.Assign) else [st.target] if isinstance(st, (ast.AnnAssign, ast.AugAssign)) else []
                for t in targets:
                    f = self_attr(t)
                    if f in ctx.fields:
                        if not isinstance(st, ast.Assign) or len(st.targets) != 1 or st not in m.body:
                            fail(st, f"initialiser of self.{f}: unsupported form")
                        found.setdefault(f, []).append(st)
        init_vals = {}
        for f, (_, allowed) in ctx.fields.items():
            sts = found.get(f, [])
            if len(sts) != 1:
                raise Unsupported(f"{src}: self.{f} has {len(sts)} initialisers in {'/'.join(where)}, expected 1")
            text = ast.unparse(sts[0].value)
            if text not in allowed:
                fail(sts[0], f"self.{f} is initialised with {text}, expected one of {sorted(allowed)}")
            init_vals[f] = (allowed[text], text, sts[0].lineno)
        ctx.init_vals = init_vals

    def check_underscore(self, tree):
        """`_` is the identity function of printcore.py"""
        fn = [n for n in tree.body if isinstance(n, ast.FunctionDef) and n.name == "_"]
        if len(fn) != 1 or [a.arg for a in fn[0].args.args] != ["string"] or [ast.unparse(s) for s in fn[0].body] != ["return string"]:
            raise Unsupported("printcore.py: `def _(string): return string` not found")

    def check_send(self):
        m = self.P.methods.get("_send")
        if m is None:
            raise Unsupported("printcore._send not found")
        a = m.args
        if [x.arg for x in a.args] != SEND_SIG or a.vararg or a.kwarg or a.kwonlyargs or [ast.unparse(d) for d in a.defaults] != ["0", "False"]:
            fail(m, "signature of printcore._send is not (self, command, lineno = 0, calcchecksum = False)")
        return ["(0 : Int)", "false"]

    # ------------------------------------------------------------------ expressions
    def expr(self, e, env, ctx):
        """-> (Lean text, type)"""
        if isinstance(e, ast.Constant):
            if e.value is True or e.value is False:
                return ("true" if e.value else "false"), "Bool"
            if e.value is None:
                return "none", "None"
            if isinstance(e.value, int):
                return f"({e.value} : Int)", "Int"
            if isinstance(e.value, float):
                return lean_rat(Fraction(repr(e.value))), "Rat"
            if isinstance(e.value, str):
                return lean_str(e.value), "Str"
            fail(e, f"constant {e.value!r}")
        if isinstance(e, ast.UnaryOp) and isinstance(e.op, ast.USub) and isinstance(e.operand, ast.Constant) \
                and isinstance(e.operand.value, int) and not isinstance(e.operand.value, bool):
            return f"(-{e.operand.value} : Int)", "Int"
        if isinstance(e, ast.Name):
            if e.id in env:
                return e.id, env[e.id]
            if e.id in self.consts:
                return e.id, self.consts[e.id][0]
            fail(e, f"unknown name {e.id}")
        f = self_attr(e)
        if f is not None:
            if f in ctx.fields:
                return f"self.{f}", ctx.fields[f][0]
            if f in ctx.props:
                return f"({f} self)", ctx.props[f]
            fail(e, f"attribute self.{f}")
        if ctx.key == "W" and dev_attr(e) is not None:
            a = dev_attr(e)
            if a in P_FIELDS:
                return f"(Dev.obj self._device).{a}", P_FIELDS[a][0]
            fail(e, f"attribute self._device.{a}")
        if ctx.key == "PC" and isinstance(e, ast.Attribute) and self_attr(e.value) == "printer" and e.attr == "has_flow_control":
            return "self.has_flow_control", "Bool"
        if isinstance(e, ast.UnaryOp) and isinstance(e.op, ast.Not):
            return f"(!{self.truth(e.operand, env, ctx)})", "Bool"
        if isinstance(e, ast.BinOp) and isinstance(e.op, (ast.Add, ast.Sub)):
            ta, tya = self.expr(e.left, env, ctx)
            tb, tyb = self.expr(e.right, env, ctx)
            if tya != "Int" or tyb != "Int":
                fail(e, f"arithmetic on {tya} and {tyb}")
            return f"({ta} {'+' if isinstance(e.op, ast.Add) else '-'} {tb})", "Int"
        if isinstance(e, ast.BoolOp):
            parts = [self.truth(v, env, ctx) for v in e.values]
            return "(" + (" && " if isinstance(e.op, ast.And) else " || ").join(parts) + ")", "Bool"
        if isinstance(e, ast.Compare):
            if len(e.ops) != 1:
                fail(e, "chained comparison")
            op, a, b = e.ops[0], e.left, e.comparators[0]
            if isinstance(op, (ast.Is, ast.IsNot)):
                if not (isinstance(b, ast.Constant) and b.value is None):
                    fail(e, "`is` against something else than None")
                if ctx.key == "W" and dev_attr(a) == "printer":
                    t = "(!(Dev.obj self._device).printer)"
                else:
                    ta, tya = self.expr(a, env, ctx)
                    if not tya.startswith("Option "):
                        fail(e, f"`is None` on a value of type {tya}")
                    t = f"{ta}.isNone"
                return (t if isinstance(op, ast.Is) else f"(!{t})"), "Bool"
            ta, tya = self.expr(a, env, ctx)
            tb, tyb = self.expr(b, env, ctx)
            if tya == "Rat" and tyb == "Int":
                tb, tyb = f"({tb} : Rat)", "Rat"
            if tya != tyb:
                fail(e, f"comparison of {tya} with {tyb}")
            sym = {ast.Eq: "=", ast.NotEq: "≠", ast.Lt: "<", ast.Gt: ">", ast.LtE: "≤", ast.GtE: "≥"}.get(type(op))
            if sym is None or (tya == "Bool" and sym not in "=≠") or tya not in ("Bool", "Int", "Rat"):
                fail(e, f"comparison {ast.unparse(e)}")
            return f"decide ({ta} {sym} {tb})", "Bool"
        if isinstance(e, ast.Call):
            fn = e.func
            if e.keywords:
                fail(e, "keyword arguments")
            if isinstance(fn, ast.Attribute):
                if fn.attr == "empty" and not e.args:
                    q = fn.value
                    if ctx.key == "W" and dev_attr(q) == "priqueue":
                        return "(Queue.empty (Dev.obj self._device).priqueue)", "Bool"
                    if ctx.key == "PC" and self_attr(q) == "priqueue":
                        return "(Queue.empty self.priqueue)", "Bool"
                if ast.unparse(e) == "gcoder.GCode([])":
                    return "GCode.empty", "List Str"
                if fn.attr == "strip" and not e.args and isinstance(fn.value, ast.Call) and isinstance(fn.value.func, ast.Attribute) \
                        and fn.value.func.attr == "decode" and [ast.unparse(a) for a in fn.value.args] == ["'utf-8'"] and not fn.value.keywords:
                    t, ty = self.expr(fn.value.func.value, env, ctx)
                    if ty != "Str":
                        fail(e, "decode on a non-bytes value")
                    return f"(Sx.strip (Bytes.decode {t}))", "Str"
            if isinstance(fn, ast.Name) and fn.id == "DeviceError" and len(e.args) == 1 and "DeviceError" not in env:
                t, ty = self.expr(e.args[0], env, ctx)
                if ty != "Str":
                    fail(e, "DeviceError(<non-string>)")
                return f"(ErrObj.deviceError {t})", "ErrObj"
            fail(e, f"call {ast.unparse(e)[:60]}")
        fail(e, f"expression {ast.unparse(e)[:60]}")

    def is_guard(self, e):
        """an operand of `and` after which `self._device` is known not to be None"""
        if self_attr(e) in ("_device", "is_connected", "is_printing", "has_pending_operations"):
            return True
        return (isinstance(e, ast.Compare) and len(e.ops) == 1 and isinstance(e.ops[0], ast.IsNot) and self_attr(e.left) == "_device"
                and isinstance(e.comparators[0], ast.Constant) and e.comparators[0].value is None)

    def unguarded(self, e, guarded=False):
        """does `e` read an attribute of `self._device` without a test for None before it (Python: AttributeError on None)?"""
        if isinstance(e, ast.BoolOp) and isinstance(e.op, ast.And):
            for v in e.values:
                if self.unguarded(v, guarded):
                    return True
                guarded = guarded or self.is_guard(v)
            return False
        if isinstance(e, ast.Attribute) and self_attr(e.value) == "_device":
            return not guarded
        return any(self.unguarded(c, guarded) for c in ast.iter_child_nodes(e))

    def guard_device(self, test, lines, ind, ctx, lineno):
        """wrap the translation of a statement whose test reads `self._device.<attr>` unguarded"""
        if ctx.key != "W" or not self.unguarded(test):
            return lines
        return ([f"{ind}match self._device with   -- an attribute of self._device is read (line {lineno})",
                 f"{ind}| none => (self, .raised .attributeError)", f"{ind}| some _ =" + ">"] + ["  " + l for l in lines])

    def truth(self, e, env, ctx):
        """`e` used as a truth value"""
        if ctx.key == "W" and self_attr(e) == "_device":
            return "self._device.isSome"
        t, ty = self.expr(e, env, ctx)
        if ty != "Bool":
            fail(e, f"{ast.unparse(e)[:50]} of type {ty} used as a truth value")
        return t

    def typed(self, e, env, ctx, want):
        t, ty = self.expr(e, env, ctx)
        if ty == "None" and want.startswith("Option "):
            return "none"
        if want.startswith("Option ") and ty == want[len("Option "):]:
            return f"(some {t})"
        if want.startswith("Option (") and "(" + ty + ")" == want[len("Option "):]:
            return f"(some {t})"
        if ty == "Int" and want == "Rat":
            return f"({t} : Rat)"
        if ty != want:
            fail(e, f"{ast.unparse(e)[:50]} has type {ty}, expected {want}")
        return t

    # ------------------------------------------------------------------ classification of statements
    def is_logger(self, st):
        return (isinstance(st, ast.Expr) and isinstance(st.value, ast.Call) and isinstance(st.value.func, ast.Attribute)
                and self_attr(st.value.func.value) == "_logger" and st.value.func.attr in LOGGER)

    def wait_call(self, e):
        """`self.<event>.wait(…)` -> (event attribute, timeout expression | None)"""
        if isinstance(e, ast.Call) and isinstance(e.func, ast.Attribute) and e.func.attr == "wait" and self_attr(e.func.value) in ("_ack_event", "_online_event"):
            if not e.args and not e.keywords:
                return self_attr(e.func.value), None
            if not e.args and len(e.keywords) == 1 and e.keywords[0].arg == "timeout":
                return self_attr(e.func.value), e.keywords[0].value
            fail(e, "arguments of wait()")
        return None

    def own_call(self, st, ctx):
        """`self.<m>(…)` as a statement -> m"""
        if isinstance(st, ast.Expr) and isinstance(st.value, ast.Call):
            return self_attr(st.value.func)
        return None

    def blocks(self, st, ctx):
        """does the statement contain a blocking point?"""
        for n in ast.walk(st):
            if isinstance(n, ast.While):
                return True
            if isinstance(n, ast.Call):
                if self.wait_call(n):
                    return True
                m = self_attr(n.func)
                if m in ENTERS or (m in ctx.sigs and ctx.sigs[m]["blocking"]):
                    return True
        return False

    def pure(self, st, ctx):
        """assigns nothing, calls nothing that does"""
        if is_doc(st) or self.is_logger(st) or isinstance(st, (ast.Return, ast.Raise, ast.Pass)):
            return True
        if isinstance(st, ast.Assign) and len(st.targets) == 1 and isinstance(st.targets[0], ast.Name):
            return not any(isinstance(n, ast.Call) and isinstance(n.func, ast.Attribute) and n.func.attr == "get_nowait" for n in ast.walk(st.value))
        if isinstance(st, ast.If):
            return all(self.pure(s, ctx) for s in st.body + st.orelse)
        return False

    def check_prefix(self, stmts, ctx):
        """nothing that assigns precedes the first blocking point of the section"""
        if not any(self.blocks(s, ctx) for s in stmts):
            return
        for st in stmts:
            if self.blocks(st, ctx):
                if isinstance(st, ast.If) and not self.wait_call(getattr(st.test, "operand", None)):
                    self.check_prefix(st.body, ctx)
                    self.check_prefix(st.orelse, ctx)
                elif isinstance(st, ast.Try):
                    self.check_prefix(st.body, ctx)
                return
            if not self.pure(st, ctx):
                fail(st, "a statement with an effect precedes the blocking point of its section: after `blocked` the section "
                         "could not be entered again from the top")

    def simple_try(self, st):
        if not isinstance(st, ast.Try) or st.orelse or st.finalbody or len(st.handlers) != 1:
            return False
        h = st.handlers[0]
        return (isinstance(h.type, ast.Name) and h.type.id == "Exception" and len(h.body) == 1 and isinstance(h.body[0], ast.Raise))

    def sections(self, stmts, ctx):
        """cut the top level of a method before a call of a blocking method that is preceded by an effect"""
        stmts = [s for s in stmts if not is_doc(s)]
        if stmts and isinstance(stmts[-1], ast.If) and not stmts[-1].orelse and len(self.cut_items(stmts[-1].body, ctx)) > 1 \
                and not any(self.blocks(s, ctx) for s in stmts[:-1]):
            last = stmts[-1]
            inner = self.cut_items(last.body, ctx)
            first = ast.If(test=last.test, body=inner[0], orelse=[])
            ast.copy_location(first, last)
            return [stmts[:-1] + [first]] + inner[1:]
        secs = self.cut_items(stmts, ctx)
        return secs

    def cut_items(self, stmts, ctx):
        items = []
        for st in stmts:
            if is_doc(st):
                continue
            if self.simple_try(st):
                items += [(b, st) for b in st.body]
            else:
                items.append((st, None))
        secs, cur, effect = [], [], False
        for st, tr in items:
            m = self.own_call(st, ctx)
            is_blocking_call = m is not None and m in ctx.sigs and ctx.sigs[m]["blocking"]
            if is_blocking_call and effect:
                secs.append(cur)
                cur, effect = [], False
            cur.append((st, tr))
            if not self.pure(st, ctx) and not is_blocking_call:
                effect = True
        secs.append(cur)
        out = []
        for k, sec in enumerate(secs):
            body, i = [], 0
            while i < len(sec):
                st, tr = sec[i]
                if tr is None:
                    body.append(st)
                    i += 1
                    continue
                group = []
                while i < len(sec) and sec[i][1] is tr:
                    group.append(sec[i][0])
                    i += 1
                t2 = ast.Try(body=group, handlers=tr.handlers, orelse=[], finalbody=[])
                ast.copy_location(t2, tr)
                body.append(t2)
            if k < len(secs) - 1:
                body.append(Cont())
            out.append(body)
        return out

    # ------------------------------------------------------------------ statements
    def raise_text(self, st, env, ctx):
        x = st.exc
        if isinstance(x, ast.Name) and env.get(x.id) == "Option ErrObj" and st.cause is None:
            return f".raised (raiseObj {x.id})"
        if isinstance(x, ast.Call) and isinstance(x.func, ast.Name) and x.func.id in EXC and x.func.id not in env \
                and len(x.args) == 1 and not x.keywords and literal_text(x.args[0]):
            if st.cause is not None and not (isinstance(st.cause, ast.Name) and env.get(st.cause.id) == "Exc"):
                fail(st, "raise … from <something else than the handled exception>")
            return f".raised .{EXC[x.func.id]}"
        fail(st, f"raise {ast.unparse(st)[:60]}")

    def cont_call(self, call_text, rest_lines, ind):
        """`match <call> with | (self, .done) => rest | r => r`"""
        return [f"{ind}match {call_text} with", f"{ind}| (self, .done) =>"] + rest_lines + [f"{ind}| r => r"]

    def block(self, stmts, env, ind, fn, ctx):
        """Lean lines of type `Res <ctx.ty>`"""
        if not stmts:
            return [f"{ind}(self, .done)"]
        st, rest = stmts[0], stmts[1:]
        env = dict(env)
        B = lambda ss, i=ind, e=None: self.block(ss, env if e is None else e, i, fn, ctx)
        ty = ctx.ty
        if is_doc(st) or isinstance(st, ast.Pass):
            return B(rest)
        if isinstance(st, Cont):
            return [f"{ind}(self, .cont)   -- the thread goes on with the next section"]
        if isinstance(st, Blocked):
            return [f"{ind}(self, .blocked)   -- time.sleep(…): poll again"]
        if self.is_logger(st):
            for a in st.value.args:
                if not (isinstance(a, ast.Constant) or (isinstance(a, ast.Name) and a.id in env)):
                    fail(st, "logger argument that is neither a literal nor a name")
            if st.value.keywords:
                fail(st, "logger keyword arguments")
            return [f"{ind}-- self._logger.{st.value.func.attr}(…) (line {st.lineno}): dropped"] + B(rest)
        if isinstance(st, ast.Return):
            if fn["in_try"]:
                fail(st, "return inside try")
            v = st.value
            if v is not None and not (fn["bool_return"] and isinstance(v, ast.Constant) and isinstance(v.value, bool)):
                fail(st, f"return {ast.unparse(v)[:40]}")
            return [f"{ind}(self, .done)   -- {ast.unparse(st)} (line {st.lineno})"]
        if isinstance(st, ast.Raise):
            return [f"{ind}(self, {self.raise_text(st, env, ctx)})   -- raise (line {st.lineno})"]
        if isinstance(st, ast.If):
            return self.guard_device(st.test, self.if_stmt(st, rest, env, ind, fn, ctx), ind, ctx, st.lineno)
        if isinstance(st, ast.While):
            if st.orelse or any(isinstance(n, (ast.Break, ast.Continue, ast.Return)) for b in st.body for n in ast.walk(b)):
                fail(st, "while … else / break / continue / return")
            last = st.body[-1] if st.body else None
            if not (isinstance(last, ast.Expr) and isinstance(last.value, ast.Call) and ast.unparse(last.value.func) == "time.sleep"
                    and len(last.value.args) == 1 and not last.value.keywords
                    and (isinstance(last.value.args[0], ast.Constant) or (isinstance(last.value.args[0], ast.Name) and last.value.args[0].id in self.consts))):
                fail(st, "a loop that does not end with time.sleep(<number>)")
            c = self.truth(st.test, env, ctx)
            return self.guard_device(st.test, [f"{ind}if {c} then   -- while … (line {st.lineno}): one poll"] + B(st.body[:-1] + [Blocked()], ind + "  ")
                                     + [f"{ind}else"] + B(rest, ind + "  "), ind, ctx, st.lineno)
        if isinstance(st, ast.Try):
            return self.try_stmt(st, rest, env, ind, fn, ctx)
        if isinstance(st, ast.AugAssign):
            f = self_attr(st.target)
            if f in ctx.fields and ctx.fields[f][0] == "Int" and isinstance(st.op, ast.Add):
                v = self.typed(st.value, env, ctx, "Int")
                return [f"{ind}let self : {ty} := {{ self with {f} := self.{f} + {v} }}"] + B(rest)
            fail(st, f"augmented assignment {ast.unparse(st)[:50]}")
        if isinstance(st, ast.Assign):
            if len(st.targets) != 1:
                fail(st, "multiple assignment")
            tg = st.targets[0]
            if isinstance(tg, ast.Name):
                if tg.id == "self" or tg.id in self.consts:
                    fail(st, f"assignment to {tg.id}")
                if ctx.key == "W" and self.unguarded(st.value):
                    fail(st, "an attribute of self._device is read without a test for None")
                t, tyv = self.expr(st.value, env, ctx)
                if tyv == "None":
                    fail(st, "local = None")
                env[tg.id] = tyv
                return [f"{ind}let {tg.id} : {tyv} := {t}"] + B(rest, e=env)
            f = self_attr(tg)
            if f == "print_thread" and ctx.key == "PC":
                v = st.value
                if not (isinstance(v, ast.Call) and ast.unparse(v.func) == "threading.Thread" and not v.args
                        and {k.arg for k in v.keywords} <= {"target", "name", "kwargs"}
                        and [ast.unparse(k.value) for k in v.keywords if k.arg == "target"] == ["self._print"]):
                    fail(st, "self.print_thread = <something else than threading.Thread(target = self._print, …)>")
                return [f"{ind}let self : {ty} := {{ self with print_thread := true }}   -- threading.Thread(target = self._print, …)"] + B(rest)
            if f in ctx.fields:
                v = self.typed(st.value, env, ctx, ctx.fields[f][0])
                return [f"{ind}let self : {ty} := {{ self with {f} := {v} }}"] + B(rest)
            fail(st, f"assignment to {ast.unparse(tg)}")
        if isinstance(st, ast.Expr) and isinstance(st.value, ast.Call):
            return self.call_stmt(st, rest, env, ind, fn, ctx)
        fail(st, f"statement {ast.unparse(st)[:60]}")

    def if_stmt(self, st, rest, env, ind, fn, ctx):
        B = lambda ss, i: self.block(ss, env, i, fn, ctx)
        test = st.test
        # `if not self.<event>.wait(timeout=t): …`
        if isinstance(test, ast.UnaryOp) and isinstance(test.op, ast.Not) and self.wait_call(test.operand):
            ev, tmo = self.wait_call(test.operand)
            if tmo is None:
                fail(st, "wait() without a time-out never returns False")
            fn["expired"] = True
            t = self.typed(tmo, env, ctx, "Rat")
            return ([f"{ind}match Ev.waitT self.{ev} {t} expired with   -- self.{ev}.wait(timeout=…) (line {st.lineno}): one poll",
                     f"{ind}| none => (self, .blocked)", f"{ind}| some woke ="+">", f"{ind}  if (!woke) then"]
                    + B(st.body + rest, ind + "    ") + [f"{ind}  else"] + B(st.orelse + rest, ind + "    "))
        # `if <c>: self.connect()`
        if len(st.body) == 1 and not st.orelse and self.own_call(st.body[0], ctx) in ENTERS:
            call = st.body[0].value
            if call.args or call.keywords:
                fail(st, "arguments of connect()")
            c = self.truth(test, env, ctx)
            m = self.own_call(st.body[0], ctx)
            return ([f"{ind}if {c} then", f'{ind}  (self, .enters "{m}")   -- self.{m}() (line {st.body[0].lineno}): blocking, not translated; the section ends',
                     f"{ind}else"] + B(rest, ind + "  "))
        label = OUTSIDE.get((fn["name"], ast.unparse(test)))
        body = None if label is None else [f'{ind}    (self, .outside "{label}")   -- body (lines {st.body[0].lineno}-{st.body[-1].end_lineno}) not translated']
        # a raising last operand (`… and self.mainqueue.has_index(i)`) is evaluated after the operands before it
        last = test.values[-1] if isinstance(test, ast.BoolOp) and isinstance(test.op, ast.And) else test
        if (ctx.key == "PC" and isinstance(last, ast.Call) and isinstance(last.func, ast.Attribute) and last.func.attr == "has_index"
                and self_attr(last.func.value) == "mainqueue" and len(last.args) == 1 and not last.keywords):
            i = self.typed(last.args[0], env, ctx, "Int")
            pre = [self.truth(v, env, ctx) for v in test.values[:-1]] if last is not test else []
            then_ = body if body is not None else B(st.body + rest, ind + "    ")
            else_ = B(st.orelse + rest, ind + "    ")
            inner = ([f"{ind}  match GCode.has_index self.mainqueue {i} with", f"{ind}  | .error e => (self, .raised e)", f"{ind}  | .ok has =" + ">",
                      f"{ind}    if has then"] + ["  " + l for l in then_] + [f"{ind}    else"] + ["  " + l for l in else_])
            if not pre:
                return [l[2:] if l.startswith(ind + "  ") else l for l in inner]
            return [f"{ind}if {' && '.join(pre)} then"] + inner + [f"{ind}else"] + B(st.orelse + rest, ind + "  ")
        if label is not None:
            fail(st, "the `outside` branch no longer has the expected test")
        c = self.truth(test, env, ctx)
        return [f"{ind}if {c} then"] + B(st.body + rest, ind + "  ") + [f"{ind}else"] + B(st.orelse + rest, ind + "  ")

    def try_stmt(self, st, rest, env, ind, fn, ctx):
        if any(isinstance(n, ast.Return) for b in st.body for n in ast.walk(b)):
            fail(st, "return inside try")
        inner = dict(fn, in_try=True)
        if self.simple_try(st):
            h = st.handlers[0]
            henv = dict(env)
            if h.name:
                henv[h.name] = "Exc"
            body = self.block(st.body, env, ind + "    ", inner, ctx)
            fn["expired"] = fn["expired"] or inner["expired"]
            out = ([f"{ind}match Sx.tryExcept (   -- try: (line {st.lineno})"] + body
                   + [f"{ind}  ) (fun self {h.name or '_'} => (self, {self.raise_text(h.body[0], henv, ctx)})) with   -- except Exception: raise (line {h.body[0].lineno})",
                      f"{ind}| (self, .done) =>"] + self.block(rest, env, ind + "  ", fn, ctx) + [f"{ind}| r => r"])
            return out
        if st.finalbody and not st.handlers and not st.orelse:
            body = self.block(st.body, env, ind + "    ", inner, ctx)
            fin = self.block(st.finalbody, env, ind + "    ", inner, ctx)
            fn["expired"] = fn["expired"] or inner["expired"]
            rst = self.block(rest, env, ind + "    ", fn, ctx)
            return ([f"{ind}Sx.tryFinally (   -- try: (line {st.lineno})"] + body + [f"{ind}  ) (fun self =>   -- finally: (line {st.finalbody[0].lineno})"] + fin
                    + [f"{ind}  ) (fun self =>   -- after the try statement"] + rst[:-1] + [rst[-1] + ")"])
        fail(st, "try statement of an unsupported form")

    def call_stmt(self, st, rest, env, ind, fn, ctx):
        c = st.value
        f = c.func
        ty = ctx.ty
        B = lambda ss, i=ind: self.block(ss, env, i, fn, ctx)
        if self.wait_call(c) and self.wait_call(c)[1] is not None:
            fail(st, "the result of wait(timeout=…) is discarded: a time-out would go unnoticed")
        if c.keywords:
            fail(st, "keyword arguments")
        if not isinstance(f, ast.Attribute):
            fail(st, f"call {ast.unparse(st)[:60]}")
        owner = self_attr(f.value)
        # events
        if ctx.key == "W" and owner in ("_ack_event", "_online_event"):
            if f.attr in ("set", "clear") and not c.args:
                return [f"{ind}let self : {ty} := {{ self with {owner} := Ev.{f.attr} self.{owner} }}"] + B(rest)
            if self.wait_call(c):
                ev, tmo = self.wait_call(c)
                if tmo is not None:
                    fail(st, "the result of wait(timeout=…) is discarded")
                return ([f"{ind}if Ev.wait self.{ev} then   -- self.{ev}.wait() (line {st.lineno}): one poll"] + B(rest, ind + "  ")
                        + [f"{ind}else", f"{ind}  (self, .blocked)"])
        # calls of own procedures
        m = self_attr(f)
        if m is not None and m in ctx.sigs:
            sig = ctx.sigs[m]
            if sig["sections"] != 1 or sig["expired"]:
                fail(st, f"call of self.{m}, which is cut into sections / takes a time-out input")
            args = self.call_args(c, sig, env, ctx)
            return self.cont_call(" ".join([m, "self"] + args), B(rest, ind + "  "), ind)
        if ctx.key == "PC":
            if m == "_send":
                if not 1 <= len(c.args) <= 3:
                    fail(st, "arguments of _send")
                out, ind2 = [], ind
                a0 = c.args[0]
                cmd = None
                if isinstance(a0, ast.Call) and ast.unparse(a0) == "self.priqueue.get_nowait()":
                    out += [f"{ind}match Queue.get_nowait self.priqueue with", f"{ind}| .error e => (self, .raised e)", f"{ind}| .ok got =" + ">",
                            f"{ind}  let self : PC := {{ self with priqueue := got.2 }}"]
                    ind2, cmd = ind + "  ", "got.1"
                elif isinstance(a0, ast.Subscript) and self_attr(a0.value) == "sentlines":
                    k = self.typed(a0.slice, env, ctx, "Int")
                    out += [f"{ind}match Dict.getItem self.sentlines {k} with", f"{ind}| .error e => (self, .raised e)", f"{ind}| .ok got =" + ">"]
                    ind2, cmd = ind + "  ", "got"
                else:
                    cmd = self.typed(a0, env, ctx, "Str")
                more = [self.typed(a, env, ctx, want) for a, want in zip(c.args[1:], ["Int", "Bool"])]
                more += self.send_defaults[len(more):]
                return (out + [f"{ind2}match PC._send self {cmd} {' '.join(more)} with   -- (line {st.lineno})", f"{ind2}| .error e => (self, .raised e)",
                               f"{ind2}| .ok self =" + ">"] + self.block(rest, env, ind2 + "  ", fn, ctx))
            if m == "logError" and len(c.args) == 1:
                a = c.args[0]
                if isinstance(a, ast.Call) and isinstance(a.func, ast.Name) and a.func.id == "_" and len(a.args) == 1 and not a.keywords:
                    a = a.args[0]
                if not (isinstance(a, ast.Constant) and isinstance(a.value, str)):
                    fail(st, "logError(<not a literal>)")
                return [f"{ind}let self : PC := PC.logError self {lean_str(a.value)}"] + B(rest)
            if owner == "priqueue" and f.attr == "put_nowait" and len(c.args) == 1:
                return [f"{ind}let self : PC := {{ self with priqueue := Queue.put_nowait self.priqueue {self.typed(c.args[0], env, ctx, 'Str')} }}"] + B(rest)
            if owner == "priqueue" and f.attr == "task_done" and not c.args:
                return [f"{ind}-- self.priqueue.task_done() (line {st.lineno}): dropped"] + B(rest)
            if owner == "mainqueue" and f.attr == "append" and len(c.args) == 1:
                return ([f"{ind}match GCode.append self.mainqueue {self.typed(c.args[0], env, ctx, 'Str')} with", f"{ind}| .error e => (self, .raised e)",
                         f"{ind}| .ok q =" + ">", f"{ind}  let self : PC := {{ self with mainqueue := q }}"] + B(rest, ind + "  "))
            if owner == "print_thread" and f.attr == "start" and not c.args:
                return [f"{ind}-- self.print_thread.start() (line {st.lineno}): the thread's steps are the passes of _sendnext"] + B(rest)
        if ctx.key == "W" and owner == "_device":
            name = f.attr
            fn["tmp"] += 1
            d = f"d{fn['tmp']}"
            head = [f"{ind}match self._device with   -- self._device.{name}(…) (line {st.lineno})", f"{ind}| none => (self, .raised .attributeError)",
                    f"{ind}| some {d} =" + ">"]
            i2 = ind + "  "
            if name in PRIMS and not c.args:
                return head + [f"{i2}let self : Writer := _dispatch {{ self with _device := some ({PRIMS[name]} {d}) }}"] + B(rest, i2)
            if name in self.P.sigs:
                sig = self.P.sigs[name]
                if sig["blocking"] or sig["sections"] != 1:
                    fail(st, f"printcore.{name} is blocking")
                args = self.call_args(c, sig, env, ctx)
                r = f"r{fn['tmp']}"
                return (head + [f"{i2}let {r} := printcore.{name} {' '.join([d] + args)}",
                                f"{i2}let self : Writer := _dispatch {{ self with _device := some {r}.1 }}",
                                f"{i2}match {r}.2 with", f"{i2}| .done =" + ">"] + B(rest, i2 + "  ") + [f"{i2}| o => (self, o)"])
        fail(st, f"call statement {ast.unparse(st)[:60]}")

    def call_args(self, c, sig, env, ctx):
        params = sig["params"]
        if len(c.args) > len(params):
            fail(c, "number of arguments")
        if ctx.key == "W" and any(self.unguarded(a) for a in c.args):
            fail(c, "an attribute of self._device is read without a test for None")
        args = [self.typed(a, env, ctx, ty) for a, (_, ty, _) in zip(c.args, params)]
        for name, ty, dflt in params[len(c.args):]:
            if dflt is None:
                fail(c, f"argument {name} missing")
            args.append(dflt)
        return args

    # ------------------------------------------------------------------ methods
    def signature(self, m, ctx):
        a = m.args
        if a.vararg or a.kwarg or a.kwonlyargs or a.posonlyargs or not a.args or a.args[0].arg != "self":
            fail(m, f"signature of {m.name}")
        ps = a.args[1:]
        dflts = [None] * (len(ps) - len(a.defaults)) + list(a.defaults)
        out = []
        if ctx.key == "PC":
            want = P_PARAMS[m.name]
            if [p.arg for p in ps] != [n for n, _ in want]:
                fail(m, f"parameters of printcore.{m.name} are {[p.arg for p in ps]}, expected {[n for n, _ in want]}")
            types = [t for _, t in want]
        else:
            types = []
            for p in ps:
                ann = ast.unparse(p.annotation) if p.annotation else ""
                if ann not in ANNOT:
                    fail(m, f"parameter {p.arg}: annotation {ann or 'missing'}")
                types.append(ANNOT[ann])
        for p, ty, d in zip(ps, types, dflts):
            dt = None
            if d is not None:
                dt = self.typed(d, {}, ctx, ty)
            out.append((p.arg, ty, dt))
        return out

    def prop(self, name, ctx):
        m = ctx.methods.get(name)
        if m is None:
            raise Unsupported(f"PrintrunWriter.{name} not found")
        if [ast.unparse(d) for d in m.decorator_list] != ["property"] or len(m.args.args) != 1:
            fail(m, f"{name} is not a property")
        body = [s for s in m.body if not is_doc(s)]
        if len(body) != 1 or not isinstance(body[0], ast.Return) or body[0].value is None:
            fail(m, f"{name}: body is not a single return")
        if self.unguarded(body[0].value):
            fail(m, f"{name} reads an attribute of self._device without a test for None")
        t = self.truth(body[0].value, {}, ctx)
        ctx.props[name] = "Bool"
        self.defs.append(f"/-- property `PrintrunWriter.{name}` (source line {m.lineno}) -/\ndef {name} (self : Writer) : Bool :=\n  {t}\n")

    def mutates(self, stmts, ctx):
        return any(not self.pure(s, ctx) for s in stmts if not is_doc(s))

    def method(self, name, ctx):
        cname = "PrintrunWriter" if ctx.key == "W" else "printcore"
        m = ctx.methods.get(name)
        if m is None:
            raise Unsupported(f"{cname}.{name} not found")
        if m.decorator_list:
            fail(m, f"{name} is decorated")
        params = self.signature(m, ctx)
        env = {p: ty for p, ty, _ in params}
        sig_txt = "".join(f" ({p} : {ty})" for p, ty, _ in params)
        body = [s for s in m.body if not is_doc(s)]
        secs = self.sections(body, ctx)
        blocking = any(self.blocks(s, ctx) for s in body)
        info = {"params": params, "blocking": blocking, "sections": len(secs), "expired": False}
        for k, sec in enumerate(secs):
            self.check_prefix(sec, ctx)
            fn = {"name": name, "tmp": 0, "in_try": False, "expired": False, "bool_return": ctx.key == "PC"}
            # the locals of earlier sections are not available in later ones
            lines = self.block(sec, env if k == 0 else {p: t for p, t in env.items()}, "  ", fn, ctx)
            lname = name if len(secs) == 1 else f"{name}_{k}"
            extra = " (expired : Bool)" if fn["expired"] else ""
            info["expired"] = info["expired"] or fn["expired"]
            first = next((s.lineno for s in sec if hasattr(s, "lineno")), m.lineno)
            what = f"`{cname}.{name}`" if len(secs) == 1 else f"`{cname}.{name}`, section {k} of {len(secs)} (from source line {first})"
            used = sig_txt if k == 0 else "".join(f" ({p} : {ty})" for p, ty, _ in params
                                                  if any(isinstance(n, ast.Name) and n.id == p for s in sec for n in ast.walk(s)))
            self.defs.append(f"/-- {what} (source line {m.lineno}) -/\ndef {lname} (self : {ctx.ty}){used}{extra} : Res {ctx.ty} :=\n" + "\n".join(lines) + "\n")
        ctx.sigs[name] = info
        if name in STEPWISE:
            self.stepwise(m, name, params, ctx)

    def stepwise(self, m, name, params, ctx):
        """the statements with an effect, one definition each, and the method as their chain"""
        if len(ctx.sigs[name]["params"]) != len(params) or ctx.sigs[name]["sections"] != 1:
            fail(m, "stepwise method cut into sections")
        env = {p: ty for p, ty, _ in params}
        sig_txt = "".join(f" ({p} : {ty})" for p, ty, _ in params)
        body = [s for s in m.body if not is_doc(s)]
        prefix, k, names = [], 0, []
        for st in body:
            if isinstance(st, (ast.If, ast.While, ast.Try, ast.Return, ast.Raise)):
                fail(st, f"{name}: control flow in a method that is emitted effect by effect")
            if self.pure(st, ctx):
                prefix.append(st)
                continue
            k += 1
            fn = {"name": name, "tmp": 0, "in_try": False, "expired": False, "bool_return": False}
            lines = self.block(prefix + [st], env, "  ", fn, ctx)
            self.defs.append(f"/-- `PrintrunWriter.{name}`: effect {k}, `{ast.unparse(st)}` (source line {st.lineno}), with the local "
                             f"assignments before it -/\ndef {name}_{k} (self : {ctx.ty}){sig_txt} : Res {ctx.ty} :=\n" + "\n".join(lines) + "\n")
            names.append(f"{name}_{k}")
        args = " ".join(p for p, _, _ in params)

        def chain_from(i, ind):
            if i == len(names):
                return [f"{ind}(self, .done)"]
            return [f"{ind}match {names[i]} self {args} with", f"{ind}| (self, .done) =>"] + chain_from(i + 1, ind + "  ") + [f"{ind}| r => r"]
        chain = chain_from(0, "  ")
        self.defs.append(f"/-- `PrintrunWriter.{name}` as the chain of its effects, in source order -/\ndef {name}_chain (self : {ctx.ty}){sig_txt} : Res {ctx.ty} :=\n"
                         + "\n".join(chain) + "\n")
        self.defs.append(f"def {name}_effects : Nat := {len(names)}\n")

    def create_device(self):
        m = self.W.methods.get("_create_device")
        if m is None:
            raise Unsupported("PrintrunWriter._create_device not found")
        body = [s for s in m.body if not is_doc(s)]
        if not body or ast.unparse(body[0]) != "device = printcore()" or ast.unparse(body[-1]) != "return device":
            fail(m, "_create_device does not start with `device = printcore()` and end with `return device`")
        wired = {}
        for st in body[1:-1]:
            ok = (isinstance(st, ast.Assign) and len(st.targets) == 1 and isinstance(st.targets[0], ast.Attribute)
                  and isinstance(st.targets[0].value, ast.Name) and st.targets[0].value.id == "device")
            if not ok:
                fail(st, "_create_device: statement that is not `device.<attr> = …`")
            attr = st.targets[0].attr
            if attr in wired or attr in P_FIELDS:
                fail(st, f"_create_device assigns device.{attr}")
            if self_attr(st.value) is not None:
                wired[attr] = self_attr(st.value)
            elif isinstance(st.value, ast.Constant) and attr == "loud":
                continue
            else:
                fail(st, f"_create_device: device.{attr} = {ast.unparse(st.value)}")
        if wired != CALLBACKS:
            fail(m, f"_create_device wires {wired}, expected {CALLBACKS}")
        # the callbacks must not touch the printcore object (see Dev.drain)
        for cb in CALLBACKS.values():
            for n in ast.walk(self.W.methods[cb]) if cb in self.W.methods else []:
                if self_attr(n) == "_device":
                    fail(n, f"the callback {cb} mentions self._device")
        rows = ", ".join(f'("{k}", "{v}")' for k, v in sorted(wired.items()))
        self.defs.append(f"/-- callbacks wired by `PrintrunWriter._create_device` (source line {m.lineno}): `device.<attr> = self.<method>` -/\n"
                         f"def callbacks : List (String × String) :=\n  [{rows}]\n")
        self.defs.append("/-- deliver the `errorcb` calls recorded by a printcore method to `_on_printrun_error` -/\n"
                         "def _dispatch (self : Writer) : Writer :=\n  Dev.drain self (fun self message => (_on_printrun_error self message).1)\n")

    def delegation(self):
        rows = []
        for rel, cname in DELEGATES:
            tree = self.parse(rel)
            _, methods = find_class(tree, cname, rel)
            for name in DELEGATED:
                m = methods.get(name)
                if m is None:
                    raise Unsupported(f"{cname}.{name} not found")
                body = [s for s in m.body if not is_doc(s)]
                if len(body) != 1 or not isinstance(body[0], (ast.Expr, ast.Return)) or not isinstance(body[0].value, ast.Call):
                    fail(m, f"{cname}.{name} is not a single call")
                call = body[0].value
                if not (isinstance(call.func, ast.Attribute) and self_attr(call.func.value) == "_writer_delegate"):
                    fail(m, f"{cname}.{name} does not call the delegate")
                params = [a.arg for a in m.args.args[1:]]
                for a in call.args:
                    if not (isinstance(a, ast.Name) and a.id in params):
                        fail(m, f"{cname}.{name}: argument {ast.unparse(a)}")
                if call.keywords:
                    fail(m, f"{cname}.{name}: keyword arguments")
                rows.append((cname, name + "(" + ", ".join(params) + ")", ast.unparse(call)[len("self._writer_delegate."):], m.lineno))
        text = ",\n   ".join(f'("{c}", "{a}", "{b}")' for c, a, b, _ in rows)
        self.defs.append("/-- `SerialWriter` / `SocketWriter`: the method is one call of the `PrintrunWriter` delegate (class, method(parameters), call) -/\n"
                         f"def delegation : List (String × String × String) :=\n  [{text}]\n")

    def render(self):
        srcs = ", ".join([W_SRC, P_SRC] + [r for r, _ in DELEGATES])
        out = [f"/- GENERATED by tools/gen_dwrite.py from {srcs} (source text, by AST). Do not edit.",
               "   Assumptions of the translation: see the header of Model/DirectWritePrelude.lean (one atomic section per function; a blocking",
               "   primitive is one poll; callbacks of printcore are delivered when its method returns; `_send`, `cancelprint`, `disconnect`,",
               "   threads and queues are primitives; exceptions by class; logger calls dropped). -/",
               "import GscribModel.Model.DirectWritePrelude", "namespace GscribModel.Gen.DirectWriteSrc",
               "open GscribModel.Report (Str)", "open GscribModel.ReportPy (ErrObj Event)", "open GscribModel.DWPy",
               "set_option linter.unusedVariables false", ""]
        for name in CONSTS:
            ty, text, doc = self.consts[name]
            out.append(f"/-- {doc} -/\ndef {name} : {ty} :=\n  {text}\n")
        for ctx, cname in ((self.P, "printcore"), (self.W, "PrintrunWriter")):
            doc = ", ".join(f"`{f} = {ctx.init_vals[f][1]}`" for f in ctx.fields)
            vals = [f"{f} := {ctx.init_vals[f][0]}" for f in ctx.fields]
            if ctx.key == "PC":
                vals += [f"{f} := {v}" for f, (_, v) in P_ENV.items()]
            out.append(f"/-- the attributes as `{cname}.__init__` leaves them: {doc} -/\ndef {ctx.ty}.init : {ctx.ty} :=\n  {{ " + ", ".join(vals) + " }\n")
        # printcore
        self.defs.append("namespace printcore\n")
        for name in P_ORDER:
            self.method(name, self.P)
        self.defs.append("end printcore\n")
        # the writer
        for name in W_PROPS:
            self.prop(name, self.W)
        for name in W_ORDER:
            if name == "_abort_on_device_error":
                self.create_device()      # `_dispatch` needs `_on_printrun_error`, translated just before
            self.method(name, self.W)
        self.delegation()
        out += self.defs
        out.append("def translated : List String := [" + ", ".join(f'"printcore.{n}"' for n in P_ORDER) + ", "
                   + ", ".join(f'"{n}"' for n in W_PROPS + W_ORDER) + "]\n")
        out.append("end GscribModel.Gen.DirectWriteSrc")
        return "\n".join(out) + "\n"


def main():
    args = [a for i, a in enumerate(sys.argv[1:], 1) if not a.startswith("--") and sys.argv[i - 1] != "--out"]
    repo = Path(args[0] if args else os.environ.get("GSCRIB_REPO", "/repo"))
    try:
        text = T(repo).render()
    except Unsupported as e:
        print("gen_dwrite: the source is outside the translated subset:", e, file=sys.stderr)
        raise SystemExit(3)
    except (SyntaxError, OSError) as e:
        print("gen_dwrite: cannot read the source:", e, file=sys.stderr)
        raise SystemExit(3)
    if "--stdout" in sys.argv:
        sys.stdout.write(text)
        return
    out = Path(sys.argv[sys.argv.index("--out") + 1]) if "--out" in sys.argv else OUT
    out.parent.mkdir(parents=True, exist_ok=True)
    if not out.exists() or out.read_text() != text:
        out.write_text(text)
        print("gen_dwrite: rewrote", out)


if __name__ == "__main__":
    main()

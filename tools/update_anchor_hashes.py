#!/venv/bin/python
"""Record the AST fingerprints of every property's anchor files in /repo (run after the checks were validated on that tree)."""
import json, sys
from pathlib import Path
sys.path.insert(0, str(Path(__file__).resolve().parent.parent))
from harness import core
props = [json.loads(l)["id"] for l in (core.VERIF / "properties.jsonl").read_text().splitlines() if l.strip()]
core.ANCHOR_HASHES.write_text(json.dumps({p: core.source_fingerprints(p) for p in props}, indent=1) + "\n")
print("recorded", len(props))

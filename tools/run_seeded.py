#!/usr/bin/env python3
"""Import, confirm and evaluate seeded property-breaking changes.

  run_seeded.py import <Cxx> <A|B> [--from /tmp/seed]   copy a sub-agent's deliverable to /verif/seeded/<Cxx>-<A|B>/
  run_seeded.py confirm <id>                            scratch worktree: demo passes clean, suite passes + demo fails with the patch
  run_seeded.py check <id> [props…]                     run the quick checks against the patched scratch tree (never /repo itself)
  run_seeded.py all                                     confirm + check every seeded change, print the table

Scratch worktrees live under /tmp/seedrun and are removed afterwards; /repo's working tree is never modified.
"""
import json
import os
import re
import shutil
import subprocess
import sys
import time
from pathlib import Path

V = Path(__file__).resolve().parent.parent
SEEDED = V / "seeded"
PY = "/venv/bin/python"


def sh(cmd, cwd=None, env=None, timeout=3600):
    p = subprocess.run(cmd, shell=True, cwd=cwd, env=env, capture_output=True, text=True, timeout=timeout)
    return p.returncode, (p.stdout + p.stderr)


def worktree(name):
    d = Path("/tmp/seedrun") / name
    sh(f"git -C /repo worktree remove --force {d}")
    shutil.rmtree(d, ignore_errors=True)
    d.parent.mkdir(parents=True, exist_ok=True)
    rc, out = sh(f"git -C /repo worktree add -q --detach {d} HEAD")
    if rc:
        raise SystemExit(out)
    return d


def drop(d):
    sh(f"git -C /repo worktree remove --force {d}")
    shutil.rmtree(d, ignore_errors=True)


def cmd_import(prop, which, src="/tmp/seed", as_=None):
    s = Path(src) / prop / "_seed" / which
    t = SEEDED / f"{prop}-{as_ or which}"
    t.mkdir(parents=True, exist_ok=True)
    shutil.copy(s / "patch.diff", t / "patch.diff")
    demo = (s / "demo.py").read_text()
    demo = re.sub(r'["\']/tmp/seed\d?/C\d+(/?)["\']',
                  lambda m: '(__import__("os").environ.get("GSCRIB_REPO", "/repo") + "%s")' % m.group(1), demo)
    (t / "demo.py").write_text(demo)
    if (s / "notes.md").exists():
        shutil.copy(s / "notes.md", t / "notes.md")
    meta = {"id": t.name, "breaks_property": prop, "origin": "fresh sub-agent given only the property text and a scratch worktree",
            "needs_to_manifest": "", "confirmed": None, "checks": {}}
    if not (t / "meta.json").exists():
        (t / "meta.json").write_text(json.dumps(meta, indent=1))
    print("imported", t)


def confirm(sid):
    t = SEEDED / sid
    meta = json.loads((t / "meta.json").read_text())
    d = worktree(sid)
    env = dict(os.environ, GSCRIB_REPO=str(d))
    try:
        rc0, out0 = sh(f"{PY} {t/'demo.py'}", cwd=d, env=env, timeout=300)
        rca, outa = sh(f"git apply {t/'patch.diff'}", cwd=d)
        if rca:
            meta["confirmed"] = False
            meta["confirm_log"] = "patch does not apply: " + outa[-300:]
        else:
            rc1, out1 = sh(f"{PY} {t/'demo.py'}", cwd=d, env=env, timeout=300)
            rcs, outs = sh(f"{PY} -m pytest -q -p no:cacheprovider 2>&1 | tail -3", cwd=d, timeout=1800)
            m = re.search(r"(\d+) failed", outs)
            failed = int(m.group(1)) if m else 0
            only_known = failed == 0 or (failed == 1 and "test_write_to_invalid_path" in outs)
            meta["confirmed"] = bool(rc0 == 0 and rc1 != 0 and only_known)
            meta["confirm_log"] = {"demo_clean_exit": rc0, "demo_patched_exit": rc1, "suite_tail": outs.strip().splitlines()[-1:],
                                   "demo_patched_tail": out1.strip().splitlines()[-2:]}
    finally:
        drop(d)
    (t / "meta.json").write_text(json.dumps(meta, indent=1))
    print(sid, "confirmed" if meta["confirmed"] else "NOT CONFIRMED", meta.get("confirm_log"))
    return meta["confirmed"]


def check(sid, props=None):
    t = SEEDED / sid
    meta = json.loads((t / "meta.json").read_text())
    props = props or [meta["breaks_property"]]
    d = worktree(sid)
    try:
        rca, outa = sh(f"git apply {t/'patch.diff'}", cwd=d)
        if rca:
            print("patch does not apply", outa)
            return
        for p in props:
            t0 = time.time()
            env = dict(os.environ, GSCRIB_REPO=str(d), VERIF_SEED=os.environ.get("VERIF_SEED", "0"))
            rc, out = sh(f"{PY} run.py check {p} --no-proof", cwd=V, env=env, timeout=3600)
            lines = [l for l in out.splitlines() if l.startswith("VIOLATION")]
            verdict = ("caught" if lines and "no-failing-input-found" not in lines[0] else
                       "caught(no-failing-input-found)" if lines else ("infra-error" if rc == 2 else "MISSED"))
            meta["checks"][p] = {"verdict": verdict, "exit": rc, "wall_s": round(time.time() - t0, 1),
                                 "ran": f"GSCRIB_REPO=<scratch worktree with patch> run.py check {p} --no-proof"}
            print(f"{sid:10s} {p}: {verdict} ({meta['checks'][p]['wall_s']} s)")
    finally:
        drop(d)
    (t / "meta.json").write_text(json.dumps(meta, indent=1))


def readme():
    """write seeded/README.md: which check catches which independently written change"""
    lines = ["# Independent property-breaking changes\n",
             "Written by fresh sub-agents that were given only the text of one property and a scratch git worktree of the",
             "repository (nothing from /verif). Each was kept only after `tools/run_seeded.py confirm <id>` showed, in a scratch",
             "worktree: demo passes on the clean tree; with the patch the repository's suite still passes and the demo fails.",
             "`tools/run_seeded.py check <id> [props]` applies the patch to a scratch worktree (never to /repo) and runs the quick",
             "checks against it (`GSCRIB_REPO=<worktree> run.py check <prop> --no-proof`).\n",
             "| id | breaks | needs, in order to manifest | confirmed | verdict of the checks |", "|---|---|---|---|---|"]
    for t in sorted(SEEDED.glob("*/meta.json")):
        m = json.loads(t.read_text())
        v = "; ".join(f"{k}: {x['verdict']}" for k, x in m.get("checks", {}).items())
        lines.append(f"| {m['id']} | {m['breaks_property']} | {m.get('needs_to_manifest','').replace('|', '¦')} | {m.get('confirmed')} | {v} |")
    lines += ["", "`caught` = exit 1 with `VIOLATION property=… replay=…` and a failing input; `caught(no-failing-input-found)` = the",
              "correspondence broke but the oracle found no input on which the property itself fails.",
              "History: the first run of this table missed C03-B, C04-A, C07-B, C10-A, C11-A, C11-B, C12-A, C16-B, C17-A and C19-B;",
              "round 3 (-E/-F) first missed C01-E, C03-E, C03-F, C04-E, C04-F, C10-E, C13-E, C14-F, C16-F, C18-E, C20-E;",
              "round 4 (-G/-H) first missed 11 and had 2 without an input; round 5 (-I/-J) first missed C11-J, C15-J, C18-J and had 16",
              "flagged by a translator tie only; round 6 (-K/-L) first missed C01-K, C01-L, C08-K, C09-K, C11-L, C17-L, C18-L and had 15",
              "with a broken correspondence only; the generators/oracles/models were strengthened after each round (DESIGN.md",
              "section 10).  The verdict column is the last run of each change; `seeded/tie_verdicts.json` has the verdict of the",
              "translator ties alone for all of them.  C07-L stays `caught(no-failing-input-found)` on purpose (DESIGN.md section 10)."]
    (SEEDED / "README.md").write_text("\n".join(lines) + "\n")


def table():
    rows = []
    for t in sorted(SEEDED.glob("*/meta.json")):
        m = json.loads(t.read_text())
        rows.append((m["id"], m["breaks_property"], m.get("confirmed"), {k: v["verdict"] for k, v in m.get("checks", {}).items()}))
    for r in rows:
        print(*r, sep=" | ")


if __name__ == "__main__":
    a = sys.argv[1:]
    if a[0] == "import":
        kw = {}
        if "--from" in a:
            kw["src"] = a[a.index("--from") + 1]
        if "--as" in a:
            kw["as_"] = a[a.index("--as") + 1]
        cmd_import(a[1], a[2], **kw)
    elif a[0] == "confirm":
        confirm(a[1])
    elif a[0] == "check":
        check(a[1], a[2:] or None)
    elif a[0] == "all":
        for t in sorted(SEEDED.glob("*/meta.json")):
            sid = t.parent.name
            if confirm(sid):
                check(sid)
        table()
    elif a[0] == "table":
        table()
    elif a[0] == "readme":
        readme()

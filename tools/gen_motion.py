#!/usr/bin/env python3
"""Translator: the motion commands of GCodeBuilder / GCodeCore  ->  GscribModel/Gen/MotionSrc.lean

Source: `gscrib/gcode_builder.py` (class GCodeBuilder) and `gscrib/gcode_core.py` (class GCodeCore), read as text by
AST - nothing is imported or executed.  Translated, statement by statement and in source order:

  GCodeCore      to_absolute, _transform_move, _prepare_move, _prepare_rapid, move, rapid, move_absolute, rapid_absolute,
                 absolute_mode (the context manager the bypass moves run in; inlined at the `with`), comment
  GCodeBuilder   _transform_move, _prepare_move, _prepare_rapid, _track_move_params, _validate_absolute_move,
                 move_absolute, rapid_absolute, set_axis, auto_home, probe, emergency_halt, halt, wait, pause, stop

`self.m(...)` resolves as Python does for a GCodeBuilder instance (GCodeBuilder first, then GCodeCore); `super().m(...)`
inside a GCodeBuilder method is GCodeCore's.  A method that returns nothing becomes

    <Class>.<m> (self : BSt) (args…) (h : Rat) : BSt × Option Err          -- the builder when it returned or raised

and one that returns a value `BSt × Except Err α`.  `h` is the value of `math.hypot(dx, dy)` the caller's extrusion hook
computes for the move at hand (hooks are caller code, described as data: `Hook` in `Model/Builder.lean`).

Subset (anything else: the translator refuses, exit 3):
  statements   `a, b = self.m(...)` / `x = self.m(...)` / `self.m(...)` on translated methods; `with self.<contextmanager>():`
               where the manager is `pre; try: yield; finally: post` (pre, body, post translated; post runs whatever the
               body did); `if`/`else`; `if x is not None:` on an optional number; `raise ValueError`; `return`;
               `for hook in self._hooks: params = hook(origin, target, params, self.state)` (the hook loop);
               `self.state._setter(...)`, `self.state._user_bounds.validate(name, v)`, `self.format.parameters(params)`,
               `self.write(s)`; `self._logger.*` (skipped)
  expressions  `self._current_axes`, `self.position`, `self.distance_mode`, `self._distance_mode`, `.is_relative`,
               `Point(*p)`, `Point.zero()`, `Point.unknown()`, `p.resolve()`, `p.replace(*q)`, `p.mask(q.x, q.y, q.z)`,
               `p.combine(o, t, m)` (the translated methods of `Gen/PointSrc.lean`), `p + q`, `p - q`, `p == q`,
               `self.transform.apply_transform(p)` (identity: the builder model has no transformer - recorded assumption),
               `{**params, "X": p.x, "Y": p.y, "Z": p.z}`, `self.format.command("G1", args, comment)`,
               `self._get_statement(member, args, comment)`, `params.get("F")`, `len(self._hooks) > 0`, `Enum(x)`,
               `Enum.MEMBER`, conditionals, comparisons of enum values
Primitives (hand-written, `Model/GenPrelude.lean`): `processMoveParams` (`_process_move_params`: argument handling),
`fmtCommand` / `getStatementMP` / `fmtParamsOk` (formatter: a value that is no finite number raises `ValueError`),
`runHooks` / `hookApplyEnv` (the data-described hooks), `validatePt` (`BoundManager.validate`), `ptAdd` / `ptSub`.
Coordinates are finite or `None` (`Pt`); other parameters are `Val` (finite, NaN, +-inf).  Comment texts are not modelled.

usage: gen_motion.py [repo_root] [--out FILE | --stdout]
"""
import ast
import os
import sys
from pathlib import Path

sys.path.insert(0, str(Path(__file__).resolve().parent))
import gen_builder  # noqa: E402
import gen_state  # noqa: E402
from gen_builder import Unsupported, fail  # noqa: E402

V = Path(__file__).resolve().parent.parent
OUT = V / "lean" / "GscribModel" / "Gen" / "MotionSrc.lean"

# (class, method) in dependency order
METHODS = [("GCodeCore", "to_absolute"), ("GCodeCore", "_transform_move"), ("GCodeBuilder", "_transform_move"),
           ("GCodeBuilder", "_track_move_params"),
           ("GCodeCore", "_prepare_move"), ("GCodeCore", "_prepare_rapid"), ("GCodeBuilder", "_prepare_move"),
           ("GCodeBuilder", "_prepare_rapid"), ("GCodeCore", "move"), ("GCodeCore", "rapid"),
           ("GCodeBuilder", "_validate_absolute_move"), ("GCodeCore", "move_absolute"), ("GCodeCore", "rapid_absolute"),
           ("GCodeBuilder", "move_absolute"), ("GCodeBuilder", "rapid_absolute"),
           ("GCodeBuilder", "set_axis"), ("GCodeBuilder", "auto_home"), ("GCodeBuilder", "probe"),
           ("GCodeCore", "comment"), ("GCodeBuilder", "halt"), ("GCodeBuilder", "wait"), ("GCodeBuilder", "pause"),
           ("GCodeBuilder", "stop"), ("GCodeBuilder", "emergency_halt"), ("GCodeBuilder", "add_hook"), ("GCodeBuilder", "remove_hook"),
           ("GCodeBuilder", "set_length_units")]
CONTEXTS = [("GCodeCore", "absolute_mode"), ("GCodeCore", "relative_mode"), ("GCodeBuilder", "move_hook")]     # translated as an enter / exit pair
ALREADY = {"write", "set_distance_mode", "_update_axes", "tool_off", "coolant_off", "set_resolution"}    # translated by gen_builder.py (Gen/BuilderSrc.lean)
TYPES = {"PointLike": "Pt", "Point": "Pt", "ParamsDict": "MP"}
RET = {"None": None, "Point": "Pt", "Tuple[str, ParamsDict]": "SStmt × MP", "Tuple[Point, Point]": "Pt × Pt"}
ERR = {"ValueError": "valueError", "ToolStateError": "toolState", "CoolantStateError": "coolantState"}


class M(gen_builder.T):
    def __init__(self, repo: Path):
        super().__init__(repo)
        tree = ast.parse((repo / "gscrib" / "gcode_core.py").read_text())
        cls = [n for n in tree.body if isinstance(n, ast.ClassDef) and n.name == "GCodeCore"]
        if len(cls) != 1:
            raise Unsupported("class GCodeCore not found")
        self.core = {n.name: n for n in cls[0].body if isinstance(n, ast.FunctionDef)}
        self.klass = {"GCodeBuilder": self.methods, "GCodeCore": self.core}
        self.repo = repo
        self.check_properties(repo)
        self.sigs = {}            # (class, name) -> (param list [(name, type)], ret type or None)

    # ------------------------------------------------------------ facts the translation of expressions relies on
    def check_properties(self, repo):
        def ret_of(fn, want):
            body = [b for b in fn.body if not (isinstance(b, ast.Expr) and isinstance(b.value, ast.Constant))]
            if not (len(body) == 1 and isinstance(body[0], ast.Return) and ast.unparse(body[0].value) == want
                    and any(getattr(d, "id", None) == "property" for d in fn.decorator_list)):
                fail(fn, f"property {fn.name} is expected to be `return {want}`")
        ret_of(self.core["position"], "self._current_axes")
        ret_of(self.core["distance_mode"], "self._distance_mode")
        f = repo / "gscrib" / "enums" / "types" / "distance_mode.py"
        dm = [n for n in ast.parse(f.read_text()).body if isinstance(n, ast.ClassDef) and n.name == "DistanceMode"][0]
        props = {n.name: n for n in dm.body if isinstance(n, ast.FunctionDef)}
        ret_of(props["is_relative"], "self == DistanceMode.RELATIVE")

    def resolve(self, cls, name, sup=False):
        """the class whose definition `self.name` (or `super().name` inside `cls`) refers to"""
        order = ["GCodeCore"] if sup else ["GCodeBuilder", "GCodeCore"]
        for c in order:
            if name in self.klass[c]:
                return c
        raise Unsupported(f"method {name} not found")

    # ------------------------------------------------------------ expressions
    def mexpr(self, e, env):
        """-> (lean text, type)"""
        key = ast.unparse(e)
        if key in env.get("$subst", {}):
            return env["$subst"][key]
        cur = env["$self"]
        if isinstance(e, ast.Name):
            if e.id in env:
                if env[e.id] in ("Comment", "Texts"):
                    return '""', env[e.id]
                return e.id, env[e.id]
            fail(e, f"unknown name {e.id}")
        if isinstance(e, ast.Constant) and e.value is None:
            return "none", "None"
        if isinstance(e, ast.Constant) and isinstance(e.value, bool):
            return ("true" if e.value else "false"), "Bool"
        if isinstance(e, ast.Constant) and isinstance(e.value, int):
            return f"({e.value} : Int)", "Int"
        if isinstance(e, ast.Constant) and isinstance(e.value, str):
            return '""', "String"                       # message / comment texts are not modelled
        if isinstance(e, ast.JoinedStr):
            # a text assembled from texts: the interpolated expressions must be names of text parameters / locals or constants -
            # anything that is evaluated (a call, an attribute, arithmetic) could raise or read state and is refused
            for v in e.values:
                if isinstance(v, ast.FormattedValue):
                    bound = {t.id for n in ast.walk(v.value) if isinstance(n, ast.comprehension) for t in ast.walk(n.target) if isinstance(t, ast.Name)}
                    for n in ast.walk(v.value):
                        ok = True
                        if isinstance(n, ast.Name):
                            ok = env.get(n.id) in ("Comment", "Texts", "String") or n.id == "str" or n.id in bound
                        elif isinstance(n, ast.Attribute):
                            ok = isinstance(n.value, ast.Constant) and isinstance(n.value.value, str) and n.attr == "join"
                        if not ok or v.format_spec is not None or v.conversion != -1:
                            fail(e, f"f-string interpolates {ast.unparse(v.value)!r}: only text parameters (str(), ' '.join of them) are expected in message texts")
            return '""', "String"
        if isinstance(e, ast.List) and e.elts and all(isinstance(x, ast.Constant) and isinstance(x.value, str) for x in e.elts):
            return "[" + ", ".join(f'"{x.value}"' for x in e.elts) + "]", "Keys"
        if key == "self._hooks":
            return f"{cur}._hooks", "Hooks"
        if key in ("self._current_axes", "self.position"):
            return f"{cur}._current_axes", "Pt"
        if key in ("self._distance_mode", "self.distance_mode"):
            return f"{cur}._distance_mode", "DistanceMode"
        if key == "self.distance_mode.is_relative" or key == "self._distance_mode.is_relative":
            return f"decide ({cur}._distance_mode = DistanceMode.RELATIVE)", "Bool"
        if key == "self.state":
            return f"{cur}.state", "GState"
        if isinstance(e, ast.Attribute) and ast.unparse(e.value) == "self.state" and e.attr in self.st.props:
            f_ = self.st.props[e.attr]
            return f"{cur}.state.{f_}", self.st.ftype[f_]
        if isinstance(e, ast.Attribute) and isinstance(e.value, ast.Name) and e.value.id in self.enums:
            if e.attr not in [m for m, _ in self.enums[e.value.id]]:
                fail(e, f"{e.value.id} has no member {e.attr}")
            self.need_enum(e.value.id)
            return f"{e.value.id}.{e.attr}", e.value.id
        if isinstance(e, ast.Attribute) and e.attr in ("x", "y", "z") and isinstance(e.value, ast.Name) and env.get(e.value.id) == "Pt":
            return f"{e.value.id}.{e.attr}", "OQ"
        if isinstance(e, ast.Call):
            f = e.func
            fs = ast.unparse(f)
            if fs == "Point" and len(e.args) == 1 and isinstance(e.args[0], ast.Starred):
                t, ty = self.mexpr(e.args[0].value, env)
                if ty != "Pt":
                    fail(e, "Point(*x) of a " + ty)
                return t, "Pt"
            if fs == "Point.zero" and not e.args:
                return "Pt.zero", "Pt"
            if fs == "Point.unknown" and not e.args:
                return "Pt.unknown", "Pt"
            if fs == "self.transform.apply_transform" and len(e.args) == 1:
                t, ty = self.mexpr(e.args[0], env)
                if ty != "Pt":
                    fail(e, "apply_transform of a " + ty)
                return f"({getattr(self, 'xf_fn', 'applyTransformId')} {t})", "Pt"
            if isinstance(f, ast.Attribute) and f.attr in ("scale", "to_pixels") and len(e.args) == 1:
                u, uty = self.mexpr(f.value, env)
                v, vty = self.mexpr(e.args[0], env)
                if uty == "LengthUnits" and vty == "Val":
                    self.check_length_units()
                    return f"(LengthUnits.{f.attr} {u} {v})", "Val"
            if fs == "len" and len(e.args) == 1 and ast.unparse(e.args[0]) == "self._hooks":
                return f"({cur}._hooks.length : Int)", "Int"
            if fs == "len" and len(e.args) == 1 and isinstance(e.args[0], ast.Name) and env.get(e.args[0].id) == "Texts":
                return "(0 : Int)", "Int"               # the extra values of a comment: texts, not modelled
            if fs == "self.format.comment" and len(e.args) == 1:
                t, ty = self.mexpr(e.args[0], env)
                if ty not in ("String", "Comment"):
                    fail(e, "format.comment of a " + ty)
                return "[Part.comment]", "SStmt"
            if fs == "self._get_user_param" and len(e.args) == 2:
                self.check_get_user_param()
                k, kty = self.mexpr(e.args[0], env)
                p, pty = self.mexpr(e.args[1], env)
                if (kty, pty) != ("Keys", "VParams"):
                    fail(e, f"_get_user_param({kty}, {pty})")
                return f"(userParam {k} {p})", "OV"
            # { Enum.A: "text", ... }.get(x)
            if isinstance(f, ast.Attribute) and f.attr == "get" and isinstance(f.value, ast.Dict) and len(e.args) == 1:
                x, xty = self.mexpr(e.args[0], env)
                if xty not in self.enums:
                    fail(e, "dict.get of a " + xty)
                arms = []
                for dk, dv in zip(f.value.keys, f.value.values):
                    kt, kty2 = self.mexpr(dk, env)
                    if kty2 != xty or not (isinstance(dv, ast.Constant) and isinstance(dv.value, str)):
                        fail(e, "dict literal")
                    arms.append(f'| .{kt.split(".")[1]} => some "{dv.value}"')
                return f"(match {x} with " + " ".join(arms) + " | _ => none)", "OS"
            if isinstance(f, ast.Attribute):
                obj, oty = None, None
                try:
                    obj, oty = self.mexpr(f.value, env)
                except Unsupported:
                    pass
                if oty == "Pt":
                    if f.attr == "resolve" and not e.args:
                        return f"(PointSrc.resolve {obj})", "Pt"
                    if f.attr in ("replace", "mask"):
                        if len(e.args) == 1 and isinstance(e.args[0], ast.Starred):
                            q, qty = self.mexpr(e.args[0].value, env)
                            if qty != "Pt":
                                fail(e, f"{f.attr}(*x) of a {qty}")
                            return f"(PointSrc.{f.attr} {obj} {q}.x {q}.y {q}.z)", "Pt"
                        if len(e.args) == 3:
                            parts = [self.mexpr(a, env) for a in e.args]
                            if any(ty != "OQ" for _, ty in parts):
                                fail(e, f"{f.attr} of non-coordinates")
                            return f"(PointSrc.{f.attr} {obj} " + " ".join(t for t, _ in parts) + ")", "Pt"
                    if f.attr == "combine" and len(e.args) == 3:
                        parts = [self.mexpr(a, env) for a in e.args]
                        if any(ty != "Pt" for _, ty in parts):
                            fail(e, "combine of non-points")
                        return f"(PointSrc.combine {obj} " + " ".join(t for t, _ in parts) + ")", "Pt"
                if oty == "MP" and f.attr == "get" and len(e.args) == 1 and isinstance(e.args[0], ast.Constant) \
                        and isinstance(e.args[0].value, str) and e.args[0].value.upper() not in ("X", "Y", "Z"):
                    return f'(MP.get {obj} "{e.args[0].value.upper()}")', "OV"
        if isinstance(e, ast.BinOp) and isinstance(e.op, (ast.Add, ast.Sub)):
            a, aty = self.mexpr(e.left, env)
            b, bty = self.mexpr(e.right, env)
            if aty == bty == "Pt":
                return f"({'ptAdd' if isinstance(e.op, ast.Add) else 'ptSub'} {a} {b})", "Pt"
            fail(e, f"arithmetic on {aty}, {bty}")
        if isinstance(e, ast.IfExp):
            c, cty = self.mexpr(e.test, env)
            a, aty = self.mexpr(e.body, env)
            b, bty = self.mexpr(e.orelse, env)
            if cty == "Bool" and {aty, bty} <= {"String", "Comment"}:
                return '""', "String"
            if cty != "Bool" or aty != bty:
                fail(e, f"conditional of types {cty}, {aty}, {bty}")
            return f"(if {c} then {a} else {b})", aty
        if isinstance(e, ast.Compare) and len(e.ops) == 1:
            a, aty = self.mexpr(e.left, env)
            b, bty = self.mexpr(e.comparators[0], env)
            op = e.ops[0]
            if isinstance(op, (ast.Eq, ast.NotEq)) and aty == bty and (aty in self.enums or aty == "Pt"):
                t = f"decide ({a} = {b})"
                return (t if isinstance(op, ast.Eq) else f"(!{t})"), "Bool"
            if isinstance(op, (ast.Eq, ast.NotEq)) and aty.startswith("Arg:") and bty == aty[4:]:
                t = f"decide ({a} = Arg.val {b})"
                return (t if isinstance(op, ast.Eq) else f"(!{t})"), "Bool"
            if isinstance(op, (ast.Eq, ast.NotEq)) and aty == bty == "Int":
                t = f"decide ({a} = {b})"
                return (t if isinstance(op, ast.Eq) else f"(!{t})"), "Bool"
            if isinstance(op, ast.Gt) and aty == "Int" and isinstance(e.comparators[0], ast.Constant):
                return f"decide ({a} > {int(e.comparators[0].value)})", "Bool"
            if isinstance(op, (ast.In, ast.NotIn)) and bty == "Hooks" and aty == "Hook":
                t = f"decide ({a} ∈ {b})"
                return (t if isinstance(op, ast.In) else f"(!{t})"), "Bool"
            if isinstance(op, (ast.Is, ast.IsNot)) and bty == "None" and aty in ("OV", "OQ", "OS"):
                return (f"{a}.isNone" if isinstance(op, ast.Is) else f"{a}.isSome"), "Bool"
            if isinstance(op, ast.Is) and isinstance(e.comparators[0], ast.Constant) and e.comparators[0].value is True and aty == "Bool":
                return a, "Bool"
        if isinstance(e, ast.Dict):
            # { **params, "X": p.x, "Y": p.y, "Z": p.z }
            if len(e.keys) == 4 and e.keys[0] is None and [getattr(k, "value", None) for k in e.keys[1:]] == ["X", "Y", "Z"]:
                base, bty = self.mexpr(e.values[0], env)
                vs = e.values[1:]
                if bty == "MP" and all(isinstance(v, ast.Attribute) and isinstance(v.value, ast.Name) and env.get(v.value.id) == "Pt" for v in vs) \
                        and len({v.value.id for v in vs}) == 1 and [v.attr for v in vs] == ["x", "y", "z"]:
                    return f"(MP.withXYZ {base} {vs[0].value.id})", "MP"
        fail(e, f"expression {key}")

    # ------------------------------------------------------------ calls of translated methods
    def call(self, c, env, cls):
        """a call `self.m(args)` / `super().m(args)` of a translated method -> (lean application text, returns value type or None)"""
        f = c.func
        if not isinstance(f, ast.Attribute):
            fail(c, "call")
        recv = ast.unparse(f.value)
        if recv not in ("self", "super()"):
            fail(c, f"call on {recv}")
        owner = self.resolve(cls, f.attr, sup=(recv == "super()"))
        cur = env["$self"]
        if (owner, f.attr) in self.sigs:
            params, ret = self.sigs[(owner, f.attr)]
            fn = f"{owner}.{f.attr}"
            extra = " h"
        elif owner == "GCodeBuilder" and f.attr in ALREADY:
            m = self.methods[f.attr]
            params, ret, fn, extra = [], None, f"GCodeBuilder.{f.attr}", ""
            for a in m.args.args[1:]:
                if f.attr == "write":
                    params.append((a.arg, "SStmt"))
                elif (f.attr, a.arg) in gen_builder.PARAM_TYPES:
                    params.append((a.arg, gen_builder.PARAM_TYPES[(f.attr, a.arg)]))
                else:
                    params.append((a.arg, self.param_type(a.annotation, m)))
        else:
            fail(c, f"call of untranslated method {owner}.{f.attr}")
        args = []
        given = list(c.args)
        kw = {k.arg: k.value for k in c.keywords if k.arg}
        star = [k.value for k in c.keywords if k.arg is None]
        i = 0
        for (pn, pty) in params:
            if pn == "kwargs":
                if len(star) > 1:
                    fail(c, "**kwargs expected")
                t, ty = self.mexpr(star[0], env) if star else ("[]", "VParams")
            elif i < len(given):
                t, ty = self.mexpr(given[i], env)
                i += 1
                while ty in ("String", "Comment") and pty != "String" and i < len(given):
                    t, ty = self.mexpr(given[i], env)       # a text argument in front: dropped on both sides
                    i += 1
            elif pn in kw:
                t, ty = self.mexpr(kw[pn], env)
            elif pn in getattr(self, "defaults", {}).get((owner, f.attr), {}):
                t, ty = self.mexpr(self.defaults[(owner, f.attr)][pn], env)
            else:
                fail(c, f"argument {pn} of {f.attr} missing")
            if pty == "Params" and ty == "MP":
                t, ty = f"(MP.toParams {t})", "Params"
            if pty.startswith("Arg:") and ty == pty[4:]:
                t, ty = f"(Arg.val {t})", pty
            if ty != pty:
                fail(c, f"argument {pn} of {f.attr}: expected {pty}, got {ty}")
            args.append(t)
        # positional arguments that were comments are dropped on both sides - after checking that they are texts built from texts
        for g in given[i:]:
            if isinstance(g, ast.Starred):
                g = g.value
            t, ty = self.mexpr(g, env)
            if ty not in ("String", "Comment", "Texts"):
                fail(c, f"extra argument of {f.attr}: expected a text, got {ty}")
        return f"{fn} {cur} " + " ".join(args) + extra, ret

    # ------------------------------------------------------------ statements
    def ret_ok(self, env, value=None):
        cur = env["$self"]
        if env["$ret"] is None:
            return f"({cur}, none)"
        return f"({cur}, .ok {value})"

    def ret_err(self, env, e):
        cur = env["$self"]
        return f"({cur}, some {e})" if env["$ret"] is None else f"({cur}, .error {e})"

    def mblock(self, stmts, env, depth, cls):
        ind = "  " * depth
        cur = env["$self"]
        if not stmts:
            if env["$ret"] is not None:
                raise Unsupported("a value-returning method falls off its end")
            return f"{ind}({cur}, none)\n"
        st, rest = stmts[0], stmts[1:]
        go = lambda more, env2=env, d=depth: self.mblock(more, env2, d, cls)
        # docstrings, logging
        if isinstance(st, ast.Expr) and isinstance(st.value, ast.Constant):
            return go(rest)
        if isinstance(st, ast.Expr) and isinstance(st.value, ast.Call) and ast.unparse(st.value.func).startswith("self._logger."):
            return go(rest)
        if isinstance(st, tuple) and st[0] == "$rebindS":
            x = st[1]
            return f"{ind}let {x} : Option String := some {x}\n" + go(rest, dict(env, **{x: "OS"}))
        if isinstance(st, tuple) and st[0] == "$rebind":
            x = st[1]
            return f"{ind}let {x} : Option Val := some {x}\n" + go(rest, dict(env, **{x: "OV"}))
        if isinstance(st, ast.Raise):
            name = st.exc.func.id if isinstance(st.exc, ast.Call) and isinstance(st.exc.func, ast.Name) else None
            if name not in ERR:
                fail(st, f"raise {ast.unparse(st)}")
            return f"{ind}{self.ret_err(env, '.' + ERR[name])}\n"
        if isinstance(st, ast.Return):
            if st.value is None:
                return f"{ind}{self.ret_ok(env)}\n"
            if isinstance(st.value, ast.Tuple):
                parts = [self.mexpr(v, env) for v in st.value.elts]
                ty = " × ".join(t for _, t in parts)
                if ty != env["$ret"]:
                    fail(st, f"returns {ty}, declared {env['$ret']}")
                return f"{ind}{self.ret_ok(env, '(' + ', '.join(t for t, _ in parts) + ')')}\n"
            t, ty = self.mexpr(st.value, env)
            if ty != env["$ret"]:
                fail(st, f"returns {ty}, declared {env['$ret']}")
            return f"{ind}{self.ret_ok(env, t)}\n"
        # if x is not None: (x an optional number held in a name, or an expression such as params.get("F"))
        if isinstance(st, ast.If) and not st.orelse and isinstance(st.test, ast.Compare) and len(st.test.ops) == 1 \
                and isinstance(st.test.ops[0], ast.IsNot) and isinstance(st.test.comparators[0], ast.Constant) \
                and st.test.comparators[0].value is None:
            t, ty = self.mexpr(st.test.left, env)
            if ty == "OS" and isinstance(st.test.left, ast.Name):
                x = st.test.left.id
                return (f"{ind}match {x} with\n{ind}| some {x}_v =>\n{ind}  let {x} : String := {x}_v\n"
                        + self.mblock(list(st.body) + [("$rebindS", x)] + rest, dict(env, **{x: "String*"}), depth + 1, cls)
                        + f"{ind}| none =>\n" + self.mblock(rest, env, depth + 1, cls))
            if ty == "OV":
                if isinstance(st.test.left, ast.Name):
                    x = st.test.left.id
                    envs = dict(env, **{x: "Val"})
                    return (f"{ind}match {x} with\n{ind}| some {x}_v =>\n{ind}  let {x} : Val := {x}_v\n"
                            + self.mblock(list(st.body) + [("$rebind", x)] + rest, envs, depth + 1, cls)
                            + f"{ind}| none =>\n" + self.mblock(rest, env, depth + 1, cls))
                n = self.fresh(env).replace("s", "v")
                sub = dict(env.get("$subst", {}))
                sub[ast.unparse(st.test.left)] = (n, "Val")
                envs = dict(env, **{"$subst": sub})
                # the body sees the number; afterwards the expression is optional again
                return (f"{ind}match {t} with\n{ind}| some {n} =>\n" + self.mblock(list(st.body) + [("$unsubst", ast.unparse(st.test.left))] + rest, envs, depth + 1, cls)
                        + f"{ind}| none =>\n" + self.mblock(rest, env, depth + 1, cls))
        if isinstance(st, tuple) and st[0] == "$unsubst":
            sub = dict(env.get("$subst", {}))
            sub.pop(st[1], None)
            return go(rest, dict(env, **{"$subst": sub}))
        if isinstance(st, ast.If):
            c, cty = self.mexpr(st.test, env)
            if cty != "Bool":
                fail(st, "condition of type " + cty)
            return (f"{ind}if {c} then\n" + self.mblock(list(st.body) + rest, env, depth + 1, cls) + f"{ind}else\n"
                    + self.mblock(list(st.orelse) + rest, env, depth + 1, cls))
        # for key, value in kwargs.items(): if key.upper() in keys and value is not None: self.state._user_bounds.validate(name, value)
        if isinstance(st, ast.For) and ast.unparse(st.iter).endswith(".items()") and isinstance(st.target, ast.Tuple):
            d = st.iter.func.value
            dt, dty = self.mexpr(d, env)
            kn, vn = [x.id for x in st.target.elts]
            b0 = st.body[0] if len(st.body) == 1 else None
            ok = (dty == "VParams" and isinstance(b0, ast.If) and not b0.orelse and len(b0.body) == 1
                  and ast.unparse(b0.test).replace("'", '"') in (f"{kn}.upper() in keys and {vn} is not None",)
                  and env.get("keys") == "Keys" and isinstance(b0.body[0], ast.Expr)
                  and ast.unparse(b0.body[0].value.func) == "self.state._user_bounds.validate" and len(b0.body[0].value.args) == 2
                  and ast.unparse(b0.body[0].value.args[1]) == vn)
            if not ok:
                fail(st, "loop over the keyword parameters")
            nm, nty = self.mexpr(b0.body[0].value.args[0], env)
            if nty != "String*":
                fail(st, "bounds name of type " + nty)
            return (f"{ind}match validateEach {cur}.state._user_bounds {nm} keys {dt} with\n{ind}| some e => {self.ret_err(env, 'e')}\n{ind}| none =>\n"
                    + self.mblock(rest, env, depth + 1, cls))
        # the hook loop
        if isinstance(st, ast.For):
            if ast.unparse(st.iter) == "self._hooks" and isinstance(st.target, ast.Name) and len(st.body) == 1 and not st.orelse:
                b = st.body[0]
                hk = st.target.id
                if isinstance(b, ast.Assign) and len(b.targets) == 1 and isinstance(b.targets[0], ast.Name) and isinstance(b.value, ast.Call) \
                        and isinstance(b.value.func, ast.Name) and b.value.func.id == hk and len(b.value.args) == 4 and not b.value.keywords:
                    o, oty = self.mexpr(b.value.args[0], env)
                    t, tty = self.mexpr(b.value.args[1], env)
                    p, pty = self.mexpr(b.value.args[2], env)
                    s_, sty = self.mexpr(b.value.args[3], env)
                    if (oty, tty, pty, sty) != ("Pt", "Pt", "MP", "GState") or b.targets[0].id != ast.unparse(b.value.args[2]):
                        fail(st, "hook call shape")
                    n = self.fresh(env)
                    name = b.targets[0].id
                    return (f"{ind}let {name} : MP := runHooks (hookEnv {s_}) h {cur}._hooks {p}\n"
                            f"{ind}let {n} : BSt := {{ {cur} with calls := {cur}.calls ++ {cur}._hooks.map (fun _ => HookCall.mk {o} {t}) }}\n"
                            + go(rest, dict(env, **{"$self": n, name: "MP"})))
            fail(st, "for loop")
        # with self.<contextmanager>():
        if isinstance(st, ast.With):
            if len(st.items) != 1 or st.items[0].optional_vars is not None or rest:
                fail(st, "with statement (one manager, no `as`, last statement of the method)")
            c = st.items[0].context_expr
            if not (isinstance(c, ast.Call) and isinstance(c.func, ast.Attribute) and ast.unparse(c.func.value) == "self" and not c.args and not c.keywords):
                fail(st, "context manager")
            owner = self.resolve(cls, c.func.attr)
            gen = self.klass[owner][c.func.attr]
            if not any(getattr(d, "id", None) == "contextmanager" for d in gen.decorator_list):
                fail(st, f"{c.func.attr} is no @contextmanager")
            body = [b for b in gen.body if not (isinstance(b, ast.Expr) and isinstance(b.value, ast.Constant))]
            if not (body and isinstance(body[-1], ast.Try) and not body[-1].handlers and not body[-1].orelse and len(body[-1].body) == 1
                    and isinstance(body[-1].body[0], ast.Expr) and isinstance(body[-1].body[0].value, ast.Yield) and body[-1].body[0].value.value is None):
                fail(gen, f"{c.func.attr}: expected `pre; try: yield; finally: post`")
            pre, post = body[:-1], body[-1].finalbody
            clash = {n.id for b in pre + post for n in ast.walk(b) if isinstance(n, ast.Name) and isinstance(n.ctx, ast.Store)} & set(env)
            if clash:
                fail(st, f"names of the context manager shadow the method's: {clash}")
            return self.mblock(pre + [("$with", st.body, post)], env, depth, owner if False else cls)
        if isinstance(st, tuple) and st[0] == "$with":
            _, wbody, post = st
            envb = dict(env, **{"$ret": None})
            n = self.fresh(env)
            txt = f"{ind}let body : BSt × Option Err :=\n" + self.mblock(list(wbody), envb, depth + 1, cls)
            txt += f"{ind}match body with\n{ind}| ({n}, raised) =>\n"
            envp = dict(env, **{"$self": n})
            txt += self.mblock(list(post) + [("$reraise",)], envp, depth + 1, cls)
            return txt
        if isinstance(st, tuple) and st[0] == "$reraise":
            return (f"{ind}match raised with\n{ind}| some e => {self.ret_err(env, 'e')}\n{ind}| none => {self.ret_ok(env)}\n")
        # expression statements
        if isinstance(st, ast.Expr) and isinstance(st.value, ast.Call):
            c = st.value
            src = ast.unparse(c.func)
            if src in ("self._hooks.append", "self._hooks.remove") and len(c.args) == 1:
                t, ty = self.mexpr(c.args[0], env)
                if ty != "Hook":
                    fail(st, "hook list of a " + ty)
                n = self.fresh(env)
                new = f"{cur}._hooks ++ [{t}]" if src.endswith("append") else f"{cur}._hooks.erase {t}"
                return f"{ind}let {n} : BSt := {{ {cur} with _hooks := {new} }}\n" + go(rest, dict(env, **{"$self": n}))
            if src == "self.state._user_bounds.validate" and len(c.args) == 2 and isinstance(c.args[0], ast.Constant):
                t, ty = self.mexpr(c.args[1], env)
                if ty != "Pt":
                    fail(st, "validate of a " + ty)
                return (f"{ind}match validatePt {cur}.state._user_bounds \"{c.args[0].value}\" {t} with\n"
                        f"{ind}| .error e => {self.ret_err(env, 'e')}\n{ind}| .ok _ =>\n" + self.mblock(rest, env, depth + 1, cls))
            if src == "self.format.parameters" and len(c.args) == 1:
                t, ty = self.mexpr(c.args[0], env)
                if ty != "MP":
                    fail(st, "format.parameters of a " + ty)
                return (f"{ind}if !(fmtParamsOk {t}) then\n{ind}  {self.ret_err(env, '.valueError')}\n{ind}else\n" + self.mblock(rest, env, depth + 1, cls))
            if src.startswith("self.state.") and c.func.attr in self.st.methods:
                m = self.st.methods[c.func.attr]
                params = m.args.args[1:]
                args = ""
                for i, p in enumerate(params):
                    ty = self.st.lean_type(p.annotation, c)
                    if i >= len(c.args):
                        fail(c, f"missing argument {p.arg}")
                    t, got = self.mexpr(c.args[i], env)
                    if got != ty:
                        fail(c, f"argument {p.arg} of {c.func.attr}: expected {ty}, got {got}")
                    args += f" {t}"
                n = self.fresh(env)
                return (f"{ind}match GState.{c.func.attr} {cur}.state{args} with\n"
                        f"{ind}| (g, some e) => {self.ret_err(dict(env, **{'$self': '{ ' + cur + ' with state := g }'}), 'e')}\n"
                        f"{ind}| (g, none) =>\n{ind}  let {n} : BSt := {{ {cur} with state := g }}\n"
                        + self.mblock(rest, dict(env, **{"$self": n}), depth + 1, cls))
            if isinstance(c.func, ast.Attribute) and ast.unparse(c.func.value) in ("self", "super()"):
                app, ret = self.call(c, env, cls)
                n = self.fresh(env)
                envn = dict(env, **{"$self": n})
                if ret is None:
                    return (f"{ind}match {app} with\n{ind}| ({n}, some e) => {self.ret_err(envn, 'e')}\n{ind}| ({n}, none) =>\n"
                            + self.mblock(rest, envn, depth + 1, cls))
                return (f"{ind}match {app} with\n{ind}| ({n}, .error e) => {self.ret_err(envn, 'e')}\n{ind}| ({n}, .ok _) =>\n"
                        + self.mblock(rest, envn, depth + 1, cls))
            fail(st, f"statement {ast.unparse(st)[:70]}")
        if isinstance(st, ast.Assign) and len(st.targets) == 1:
            tgt, v = st.targets[0], st.value
            # a, b[, c] = self.m(...)
            if isinstance(tgt, ast.Tuple) and isinstance(v, ast.Call):
                names = [e.id if isinstance(e, ast.Name) else None for e in tgt.elts]
                if None in names:
                    fail(st, "tuple target")
                if ast.unparse(v.func) == "self._process_move_params" and len(names) == 3:
                    if not (len(v.args) == 1 and len(v.keywords) == 1 and v.keywords[0].arg is None):
                        fail(st, "_process_move_params(point, **kwargs) expected")
                    self.check_process_move_params()
                    p, pty = self.mexpr(v.args[0], env)
                    k, kty = self.mexpr(v.keywords[0].value, env)
                    if (pty, kty) != ("Pt", "VParams"):
                        fail(st, f"_process_move_params({pty}, **{kty})")
                    env2 = dict(env, **{names[0]: "Pt", names[1]: "MP", names[2]: "Comment"})
                    return (f"{ind}let {names[0]} : Pt := (processMoveParams {p} {k}).1\n{ind}let {names[1]} : MP := (processMoveParams {p} {k}).2\n"
                            + go(rest, env2))
                app, ret = self.call(v, env, cls)
                if ret is None or len(ret.split(" × ")) != len(names):
                    fail(st, f"tuple assignment from a call returning {ret}")
                n = self.fresh(env)
                env2 = dict(env, **{"$self": n})
                for nm, ty in zip(names, ret.split(" × ")):
                    env2[nm] = ty
                return (f"{ind}match {app} with\n{ind}| ({n}, .error e) => {self.ret_err(env2, 'e')}\n"
                        f"{ind}| ({n}, .ok ({', '.join(names)})) =>\n" + self.mblock(rest, env2, depth + 1, cls))
            if not isinstance(tgt, ast.Name):
                fail(st, f"assignment target {ast.unparse(tgt)}")
            name = tgt.id
            if ast.unparse(v) == "kwargs.pop('comment', None)" and env.get("kwargs") == "VParams":
                return go(rest, dict(env, **{name: "Comment"}))          # the comment entry is not part of the model's parameters
            if isinstance(v, ast.Call):
                fs = ast.unparse(v.func)
                # x = Enum(x)
                if isinstance(v.func, ast.Name) and v.func.id in self.enums and len(v.args) == 1 and isinstance(v.args[0], ast.Name) \
                        and env.get(v.args[0].id) == f"Arg:{v.func.id}":
                    self.need_enum(v.func.id)
                    return (f"{ind}match {v.args[0].id} with\n{ind}| Arg.bogus => {self.ret_err(env, '.valueError')}\n{ind}| Arg.val {name} =>\n"
                            + self.mblock(rest, dict(env, **{name: v.func.id}), depth + 1, cls))
                # statement = self.format.command("G1", args, comment)
                if fs == "self.format.command" and 2 <= len(v.args) <= 3 and isinstance(v.args[0], ast.Constant) and isinstance(v.args[0].value, str):
                    a, aty = self.mexpr(v.args[1], env)
                    if aty != "MP":
                        fail(st, "format.command of a " + aty)
                    return (f"{ind}match fmtCommand \"{v.args[0].value}\" {a} with\n{ind}| none => {self.ret_err(env, '.valueError')}\n"
                            f"{ind}| some {name} =>\n" + self.mblock(rest, dict(env, **{name: "SStmt"}), depth + 1, cls))
                # statement = self._get_statement(mode, params, comment)
                if fs == "self._get_statement" and len(v.args) == 1 and not v.keywords:
                    cls_, mem = self.enum_ref_m(v.args[0], env)
                    return (f"{ind}match getStatement {cls_} {mem} [] with\n{ind}| none => {self.ret_err(env, '.valueError')}\n"
                            f"{ind}| some {name} =>\n" + self.mblock(rest, dict(env, **{name: "SStmt"}), depth + 1, cls))
                if fs == "self._get_statement" and 2 <= len(v.args) <= 3:
                    cls_, mem = self.enum_ref_m(v.args[0], env)
                    a, aty = self.mexpr(v.args[1], env)
                    if aty == "VParams":
                        return (f"{ind}match getStatement {cls_} {mem} {a} with\n{ind}| none => {self.ret_err(env, '.valueError')}\n"
                                f"{ind}| some {name} =>\n" + self.mblock(rest, dict(env, **{name: "SStmt"}), depth + 1, cls))
                    if aty != "MP":
                        fail(st, "_get_statement with a " + aty)
                    return (f"{ind}match getStatementMP {cls_} {mem} {a} with\n{ind}| none => {self.ret_err(env, '.valueError')}\n"
                            f"{ind}| some {name} =>\n" + self.mblock(rest, dict(env, **{name: "SStmt"}), depth + 1, cls))
                if isinstance(v.func, ast.Attribute) and ast.unparse(v.func.value) in ("self", "super()") and fs != "self._get_user_param":
                    app, ret = self.call(v, env, cls)
                    if ret is None or " × " in ret:
                        fail(st, f"assignment from a call returning {ret}")
                    n = self.fresh(env)
                    env2 = dict(env, **{"$self": n, name: ret})
                    return (f"{ind}match {app} with\n{ind}| ({n}, .error e) => {self.ret_err(env2, 'e')}\n{ind}| ({n}, .ok {name}) =>\n"
                            + self.mblock(rest, env2, depth + 1, cls))
            t, ty = self.mexpr(v, env)
            if ty in ("String", "Comment"):
                return go(rest, dict(env, **{name: "Comment"}))              # a text: not modelled
            lty = {"OV": "Option Val", "OQ": "OQ", "OS": "Option String", "Keys": "List String"}.get(ty, ty)
            if ty == "None":
                fail(st, "assignment of None")
            return f"{ind}let {name} : {lty} := {t}\n" + go(rest, dict(env, **{name: ty}))
        fail(st, f"statement {ast.unparse(st)[:70]}")

    def enum_ref_m(self, e, env):
        t, ty = self.mexpr(e, env)
        if ty not in self.enums:
            fail(e, f"_get_statement of a {ty}")
        self.need_enum(ty)
        return f'"{ty}"', f"({ty}.memberName {t})"

    def check_length_units(self):
        """the two conversions of `LengthUnits` and its table of factors, read from the enum's source"""
        if getattr(self, "unit_factors", None):
            return
        f = self.repo / "gscrib" / "enums" / "units" / "length_units.py"
        tree = ast.parse(f.read_text())
        table = {}
        for n in tree.body:
            if isinstance(n, ast.Assign) and getattr(n.targets[0], "id", None) == "CONVERSIONS_FACTORS" and isinstance(n.value, ast.Dict):
                for k, v in zip(n.value.keys, n.value.values):
                    if not (isinstance(v, ast.BinOp) and isinstance(v.op, ast.Div) and isinstance(v.left, ast.Constant) and isinstance(v.right, ast.Constant)):
                        raise Unsupported("CONVERSIONS_FACTORS entry " + ast.unparse(v))
                    from fractions import Fraction
                    table[k.value] = Fraction(repr(v.left.value)) / Fraction(repr(v.right.value))
        cls = [n for n in tree.body if isinstance(n, ast.ClassDef) and n.name == "LengthUnits"][0]
        meth = {n.name: [ast.unparse(b) for b in n.body if not (isinstance(b, ast.Expr) and isinstance(b.value, ast.Constant))]
                for n in cls.body if isinstance(n, ast.FunctionDef)}
        if meth.get("__init__") != ["self.scale_factor = CONVERSIONS_FACTORS[value]"] or meth.get("scale") != ["return value_in_px * self.scale_factor"] \
                or meth.get("to_pixels") != ["return value_in_units / self.scale_factor"]:
            raise Unsupported("LengthUnits.scale / to_pixels / __init__ are not the conversions the translation stands for: " + repr(meth))
        members = dict((v, m) for m, v in self.enums["LengthUnits"])
        if set(table) != set(members):
            raise Unsupported("CONVERSIONS_FACTORS does not cover exactly the members of LengthUnits")
        self.unit_factors = {members[v]: q for v, q in table.items()}

    def check_get_user_param(self):
        """`_get_user_param` is a primitive (`userParam`); make sure it still is what the primitive stands for"""
        m = self.methods["_get_user_param"]
        body = [ast.unparse(b) for b in m.body if not (isinstance(b, ast.Expr) and isinstance(b.value, ast.Constant))]
        want = ["values = {key.upper(): value for key, value in params.items()}",
                "return next((values[key] for key in keys if key in values), None)"]
        if body != want:
            raise Unsupported("GCodeBuilder._get_user_param is no longer the lookup the primitive `userParam` transcribes: " + repr(body))

    def check_process_move_params(self):
        """`_process_move_params` is a primitive (argument handling); make sure it still is what the primitive stands for"""
        m = self.core["_process_move_params"]
        body = [ast.unparse(b) for b in m.body if not (isinstance(b, ast.Expr) and isinstance(b.value, ast.Constant))]
        want = ["comment = kwargs.pop('comment', None)", "params = ParamsDict(kwargs)",
                "point = Point(*point[:3]) if point is not None else Point.from_params(params)",
                "params['X'] = point.x", "params['Y'] = point.y", "params['Z'] = point.z", "return (point, params, comment)"]
        if body != want:
            raise Unsupported("GCodeCore._process_move_params is no longer the argument handling the primitive `processMoveParams` transcribes: " + repr(body))

    # ------------------------------------------------------------ methods
    def signature(self, cls, name):
        m = self.klass[cls][name]
        if m.args.vararg and not (cls, name) == ("GCodeCore", "comment"):
            fail(m, f"{name} takes *args")
        params = []
        args = m.args.args[1:]
        defaults = dict(zip([a.arg for a in args][len(args) - len(m.args.defaults):], m.args.defaults))
        if not hasattr(self, "defaults"):
            self.defaults = {}
        self.defaults[(cls, name)] = defaults
        for a in args:
            if a.arg == "comment":
                continue
            src = ast.unparse(a.annotation) if a.annotation is not None else None
            if src == "str":
                continue                                   # message texts are not modelled
            if src == "Callable":
                params.append((a.arg, "Hook"))
                continue
            if src in TYPES:
                params.append((a.arg, TYPES[src]))
            elif src is None:
                fail(m, f"parameter {a.arg} of {name} has no annotation")
            else:
                params.append((a.arg, self.param_type(a.annotation, m)))
        if m.args.kwarg:
            params.append(("kwargs", "VParams"))
        rs = ast.unparse(m.returns) if m.returns is not None else "None"
        if rs not in RET:
            fail(m, f"return annotation {rs} of {name}")
        return params, RET[rs]

    XF_CHAIN = [("GCodeCore", "_transform_move"), ("GCodeBuilder", "_transform_move"), ("GCodeCore", "move"), ("GCodeCore", "rapid"),
                ("GCodeBuilder", "probe")]

    def motion_method_T(self, cls, name):
        """the same method once more, with `self.transform.apply_transform` an arbitrary function `T` (the transformer in effect);
        calls to the other methods of the chain go to their `_T` forms"""
        self.xf_fn = "T"
        try:
            text = self.motion_method(cls, name)
        finally:
            self.xf_fn = "applyTransformId"
        for c, n in self.XF_CHAIN:
            if (c, n) != (cls, name):
                text = text.replace(f"{c}.{n} ", f"{c}.{n}_T T ")
        if "(T " not in text and "_T T " not in text:
            raise Unsupported(f"{cls}.{name} does not apply the transform")
        return (text.replace(f"def {cls}.{name} (self : BSt)", f"def {cls}.{name}_T (T : Pt → Pt) (self : BSt)", 1)
                    .replace(f"/-- `{cls}.{name}` (source line", f"/-- `{cls}.{name}` under an arbitrary transform `T = self.transform.apply_transform` (source line", 1))

    def motion_method(self, cls, name):
        m = self.klass[cls][name]
        params, ret = self.signature(cls, name)
        env = {"$self": "self", "$n": [0], "$ret": ret, "comment": "Comment"}
        for a in m.args.args[1:]:
            if a.annotation is not None and ast.unparse(a.annotation) == "str":
                env[a.arg] = "Comment"
        if m.args.vararg:
            env[m.args.vararg.arg] = "Texts"
        sig = ""
        for pn, pty in params:
            env[pn] = pty
            sig += f" ({pn} : {self.lean_ty_m(pty)})"
        body = self.mblock(list(m.body), env, 1, cls)
        self.sigs[(cls, name)] = (params, ret)
        rty = "BSt × Option Err" if ret is None else f"BSt × Except Err ({ret})"
        return (f"/-- `{cls}.{name}` (source line {m.lineno}) -/\ndef {cls}.{name} (self : BSt){sig} (h : Rat) : {rty} :=\n{body}")

    def context_pair(self, cls, name):
        """a `@contextmanager` generator `pre; try: yield; finally: post` as the pair (enter: pre, returns what post needs; exit: post)"""
        gen = self.klass[cls][name]
        if not any(getattr(d, "id", None) == "contextmanager" for d in gen.decorator_list):
            fail(gen, f"{name} is not a @contextmanager")
        if gen.args.args[1:]:
            return self.context_pair_args(cls, name, gen)
        body = [b for b in gen.body if not (isinstance(b, ast.Expr) and isinstance(b.value, ast.Constant))]
        if not (body and isinstance(body[-1], ast.Try) and not body[-1].handlers and not body[-1].orelse and len(body[-1].body) == 1
                and isinstance(body[-1].body[0], ast.Expr) and isinstance(body[-1].body[0].value, ast.Yield) and body[-1].body[0].value.value is None):
            fail(gen, f"{name}: expected `pre; try: yield; finally: post`")
        pre, post = body[:-1], body[-1].finalbody
        stored = [n.id for b in pre for n in ast.walk(b) if isinstance(n, ast.Name) and isinstance(n.ctx, ast.Store)]
        used = [n.id for b in post for n in ast.walk(b) if isinstance(n, ast.Name) and isinstance(n.ctx, ast.Load) and n.id in stored]
        if sorted(set(used)) != ["previous"]:
            fail(gen, f"{name}: the finally block is expected to use exactly the saved `previous` (uses {sorted(set(used))})")
        env = {"$self": "self", "$n": [0], "$ret": "DistanceMode"}
        enter = self.mblock(pre + [ast.Return(value=ast.Name(id="previous", ctx=ast.Load()))], env, 1, cls)
        env2 = {"$self": "self", "$n": [0], "$ret": None, "previous": "DistanceMode"}
        exit_ = self.mblock(list(post), env2, 1, cls)
        return [f"/-- `{cls}.{name}` (source line {gen.lineno}): entering the context - everything before the `yield`; returns the saved mode -/\n"
                f"def {cls}.{name}_enter (self : BSt) (h : Rat) : BSt × Except Err (DistanceMode) :=\n{enter}",
                f"/-- `{cls}.{name}`: leaving the context - the `finally` block, whatever the body did -/\n"
                f"def {cls}.{name}_exit (self : BSt) (previous : DistanceMode) (h : Rat) : BSt × Option Err :=\n{exit_}"]

    def context_pair_args(self, cls, name, gen):
        """a `@contextmanager` with arguments that saves nothing: `pre; try: yield; finally: post`, both halves over the arguments"""
        if gen.returns is None:
            gen.returns = ast.Constant(value=None)
        params, _ = self.signature(cls, name)
        body = [b for b in gen.body if not (isinstance(b, ast.Expr) and isinstance(b.value, ast.Constant))]
        if not (body and isinstance(body[-1], ast.Try) and not body[-1].handlers and not body[-1].orelse and len(body[-1].body) == 1
                and isinstance(body[-1].body[0], ast.Expr) and isinstance(body[-1].body[0].value, ast.Yield) and body[-1].body[0].value.value is None):
            fail(gen, f"{name}: expected `pre; try: yield; finally: post`")
        pre, post = body[:-1], body[-1].finalbody
        if any(isinstance(n, ast.Name) and isinstance(n.ctx, ast.Store) for b in pre + list(post) for n in ast.walk(b)):
            fail(gen, f"{name}: a context manager with arguments is expected to save nothing in local variables")
        sig, halves = "", []
        for pn, pty in params:
            sig += f" ({pn} : {self.lean_ty_m(pty)})"
        for blk in (pre, list(post)):
            env = {"$self": "self", "$n": [0], "$ret": None}
            for pn, pty in params:
                env[pn] = pty
            halves.append(self.mblock(list(blk), env, 1, cls))
        return [f"/-- `{cls}.{name}` (source line {gen.lineno}): entering the context - everything before the `yield` -/\n"
                f"def {cls}.{name}_enter (self : BSt){sig} (h : Rat) : BSt × Option Err :=\n{halves[0]}",
                f"/-- `{cls}.{name}`: leaving the context - the `finally` block, whatever the body did -/\n"
                f"def {cls}.{name}_exit (self : BSt){sig} (h : Rat) : BSt × Option Err :=\n{halves[1]}"]

    # ------------------------------------------------------------ the constructors
    INIT_CORE = {"_current_axes": ("Point.unknown()", "Pt.unknown"), "_current_params": ("ParamsDict()", "([] : Builder.Params)"),
                 "_distance_mode": ("DistanceMode.ABSOLUTE", "DistanceMode.ABSOLUTE")}
    INIT_BUILDER = {"_state": ("GState()", None), "_hooks": ("[]", "([] : List Hook)")}

    def init_def(self):
        """`GCodeCore.__init__` / `GCodeBuilder.__init__`: every tracked field is assigned once, in the constructor, to a fresh
        value of its own (`Point.unknown()`, `ParamsDict()`, `[]`, `GState()` are calls / displays evaluated per object); a tracked
        field declared on the class - shared by all objects until first assigned - is refused."""
        tracked = set(self.INIT_CORE) | set(self.INIT_BUILDER)
        for cname, table in (("GCodeCore", self.core), ("GCodeBuilder", self.methods)):
            tree = ast.parse((self.repo / "gscrib" / ("gcode_core.py" if cname == "GCodeCore" else "gcode_builder.py")).read_text())
            cls = [n for n in tree.body if isinstance(n, ast.ClassDef) and n.name == cname][0]
            for n in cls.body:
                tg = ([t for t in n.targets] if isinstance(n, ast.Assign) else [n.target] if isinstance(n, ast.AnnAssign) else [])
                for t in tg:
                    if isinstance(t, ast.Name) and t.id in tracked:
                        fail(n, f"class-level `{t.id}` in {cname}: tracked fields are expected to be assigned per object in __init__")
        got = {}
        for cname, table, want in (("GCodeCore", self.core, self.INIT_CORE), ("GCodeBuilder", self.methods, self.INIT_BUILDER)):
            init = table.get("__init__")
            if init is None:
                raise Unsupported(f"{cname}.__init__ not found")
            if cname == "GCodeBuilder":
                first = [b for b in init.body if not (isinstance(b, ast.Expr) and isinstance(b.value, ast.Constant))][0]
                if ast.unparse(first) != "super().__init__(*args, **kwargs)":
                    fail(init, "GCodeBuilder.__init__ is expected to start with super().__init__(*args, **kwargs)")
            for n in ast.walk(init):
                if isinstance(n, (ast.Assign, ast.AnnAssign, ast.AugAssign)):
                    tg = n.targets if isinstance(n, ast.Assign) else [n.target]
                    for t in tg:
                        if isinstance(t, ast.Attribute) and isinstance(t.value, ast.Name) and t.value.id == "self" and t.attr in tracked:
                            if t.attr not in want or t.attr in got or isinstance(n, ast.AugAssign) or n not in init.body:
                                fail(n, f"{cname}.__init__: unexpected assignment to self.{t.attr}")
                            src = ast.unparse(n.value)
                            if src != want[t.attr][0]:
                                fail(n, f"{cname}.__init__: self.{t.attr} = {src} (expected {want[t.attr][0]})")
                            got[t.attr] = want[t.attr][1]
                if isinstance(n, ast.Call) and isinstance(n.func, ast.Name) and n.func.id in ("setattr", "vars"):
                    fail(n, f"{cname}.__init__: {n.func.id}()")
        missing = tracked - set(got)
        if missing:
            raise Unsupported(f"__init__ does not assign {sorted(missing)}")
        lit = (f"{{ state := g, _distance_mode := {got['_distance_mode']}, _current_axes := {got['_current_axes']}, "
               f"_current_params := {got['_current_params']}, _hooks := {got['_hooks']}, out := [], calls := [] }}")
        return ("/-- `GCodeCore.__init__` then `GCodeBuilder.__init__`: the tracked fields of a new builder, each assigned in the constructor to a\n"
                "    fresh value of its own (no tracked field is declared on the class); `GState()` is `GState.init` of Gen/StateSrc.lean -/\n"
                "def GCodeBuilder.init : BSt × Option Err :=\n"
                "  match GState.init with\n"
                f"  | (g, some e) => ({lit}, some e)\n"
                f"  | (g, none) => ({lit}, none)\n")

    def lean_ty_m(self, ty):
        return {"VParams": "VParams", "MP": "MP", "Pt": "Pt", "Hook": "Hook"}.get(ty) or self.lean_ty(ty)

    def render_motion(self):
        # enums the builder translation declares must be known before ours
        for n in gen_builder.METHODS:
            self.method(n)
        have = set(self.extra_enums) | set(self.st.used_enums)
        meths = [self.motion_method(c, n) for c, n in METHODS]
        for c, n in CONTEXTS:
            meths += self.context_pair(c, n)
        new = [e for e in self.extra_enums if e not in have]
        out = ["/- GENERATED by tools/gen_motion.py from gscrib/gcode_builder.py and gscrib/gcode_core.py (source text, by AST). Do not edit. -/",
               "import GscribModel.Gen.BuilderSrc", "import GscribModel.Gen.PointSrc", "namespace GscribModel.Gen.MotionSrc",
               "open GscribModel.Builder GscribModel.GenPrelude GscribModel.Gen.StateSrc GscribModel.Gen.BuilderSrc GscribModel.Gen",
               "set_option linter.unusedVariables false", ""]
        for en in new:
            ms = self.enums[en]
            out.append(f"/-- `gscrib.enums.{en}` -/")
            out.append(f"inductive {en} where " + " ".join(f"| {m}" for m, _ in ms))
            out.append("deriving DecidableEq, Repr, Inhabited")
            out.append(f"def {en}.value : {en} → String")
            out += [f"  | .{m} => \"{v}\"" for m, v in ms]
            out.append(f"def {en}.memberName : {en} → String")
            out += [f"  | .{m} => \"{m}\"" for m, _ in ms]
            out.append("")
        if getattr(self, "unit_factors", None):
            out.append("/-- `CONVERSIONS_FACTORS` / `LengthUnits.scale` / `LengthUnits.to_pixels` (gscrib/enums/units/length_units.py) -/")
            out.append("def LengthUnits.scale_factor : LengthUnits → Rat")
            for m, _ in self.enums["LengthUnits"]:
                q = self.unit_factors[m]
                out.append(f"  | .{m} => (({q.numerator} : Rat) / {q.denominator})")
            out.append("def LengthUnits.scale (u : LengthUnits) (value_in_px : Val) : Val := Val.mulQ value_in_px (LengthUnits.scale_factor u)")
            out.append("def LengthUnits.to_pixels (u : LengthUnits) (value_in_units : Val) : Val := Val.divQ value_in_units (LengthUnits.scale_factor u)\n")
        out.append("/-- what a hook reads off the state object it is handed: `state.extrusion_mode`, `state.get_parameter(\"E\")` -/")
        out.append("def hookEnv (g : GState) : HookEnv :=\n  ⟨decide (g._current_extrusion_mode = ExtrusionMode.RELATIVE), (g._current_params.get \"E\").getD 0⟩\n")
        out += meths
        for c, n in self.XF_CHAIN:
            out.append(self.motion_method_T(c, n))
        out.append(self.init_def())
        out.append("def translated : List String := [" + ", ".join(f'"{c}.{n}"' for c, n in METHODS) + "]\n")
        out.append("end GscribModel.Gen.MotionSrc")
        return "\n".join(out) + "\n"


def main():
    args = [a for a in sys.argv[1:] if not a.startswith("--")]
    repo = Path(args[0] if args else os.environ.get("GSCRIB_REPO", "/repo"))
    try:
        text = M(repo).render_motion()
    except (Unsupported, gen_state.Unsupported) as e:
        print("gen_motion: the source is outside the translated subset:", e, file=sys.stderr)
        raise SystemExit(3)
    if "--stdout" in sys.argv:
        sys.stdout.write(text)
        return
    out = Path(sys.argv[sys.argv.index("--out") + 1]) if "--out" in sys.argv else OUT
    out.parent.mkdir(parents=True, exist_ok=True)
    if not out.exists() or out.read_text() != text:
        out.write_text(text)
        print("gen_motion: rewrote", out)


if __name__ == "__main__":
    main()

#!/usr/bin/env python3
"""Translator: the writer list of `GCodeCore` and the `FileWriter` class  ->  GscribModel/Gen/WritersSrc.lean

Sources (read as *text*, by AST; nothing is imported or executed):
  gscrib/gcode_core.py            class GCodeCore: `add_writer`, `remove_writer`, `write`, `teardown`, `flush`, `__exit__`
                                  (and the statement `self._writers: List[BaseWriter] = []` of `__init__`)
  gscrib/writers/file_writer.py   class FileWriter: `__slots__`, `__init__`, `connect`, `disconnect`, `write`, `flush`
  gscrib/writers/base_writer.py   class BaseWriter: which methods are abstract, the body of the concrete `flush`

These methods carry property C14 (every registered writer receives every line, once, in order, byte for byte; what a
`FileWriter` does with the file it opened / the file object it was given).  Each method becomes a Lean function that follows
the source statement by statement, in source order:

    FileWriter.<m> (self : FileWriter) (args…) : FileWriter               -- the object (and the file objects it refers to) when the method returned
    GCodeCore.<m>  (self : GCodeCore)  (args…) : GCodeCore                -- `_writers` and every writer object when the method returned
    GCodeCore.write (self) (statement)         : GCodeCore × Option Exc   -- … or raised, and the class of the exception that left it

`Props/WritersTie.lean` proves the hand-written model (`Model/Writers.lean`) equal to them.

The subset understood (anything else makes the translator REFUSE with exit status 3 - it never guesses):
  statements   docstring; `pass`; `self._f = e`; `name = e`; `if / elif / else`; `return` / `return None` / `return self`
               (the rest of the body is continued in both branches of an `if`, so an early return ends the method there);
               `self.<m>(args)` for a method of the same class translated before; `self._logger.<level>(...)` (no effect:
               comment); FileWriter: `<file>.write(e)` `<file>.flush()` `<file>.close()`, `self._f = <path>.open("<mode>")`,
               `<path>.parent.mkdir(...)` (directories are not modelled: comment); GCodeCore: `self._writers.append(w)`
               `.remove(w)` `.clear()`, `for <w> in self._writers: …` (a left fold over the list, in order; no `return`,
               `break`, `continue`, `else`), `<w>.write(e)` `<w>.flush()` `<w>.disconnect(e)` (dynamic dispatch on the class
               of the object), and one `try: … except C: raise | raise C(...) [from e]` as the last statement, with
               `name = bytes(e, "utf-8")` the only raising statement (it must be inside the `try`).
  expressions  parameters, locals, `self._f`, `True` `False` `None`; `x is None`, `x is not None`; `not` `and` `or`;
               `w in self._writers`, `w not in self._writers`; `isinstance(x, str)`; `hasattr(x, "encoding"|"isatty"|"closed")`;
               `getattr(x, "closed", <bool>)`; `x.isatty()`; `b.decode("utf-8")`; `Path(x)`; `self.format.line(s)`.
  decorators   `@typechecked` (GCodeCore), `@abstractmethod` (BaseWriter); parameters are taken to have their annotated types.
Types: `bool` -> `Bool`; `bytes` -> `Bytes`; `str` -> `Str` (code points); `BaseWriter` -> `Nat` (object identity);
`Union[str, TextIO, BinaryIO]`, `None`, file objects -> `PyVal` (None | a str | a reference into the two-cell `Heap`);
`List[BaseWriter]` -> `List Nat`.  The primitives (`pyOpen`, `pyWrite`, `pyFlush`, `pyClose`, `pyIsatty`, `pyHasattr`, `pyGetattr`,
`pyBytes`, `pyDecode`, `pyIn`, `pyAppend`, `pyRemove`, `pyRemoveFaults`, `pyClear`, `OtherWriter`) are the hand-written prelude
`Model/WritersPrelude.lean`, which lists what they assume.

Assumptions of the translation itself: log calls have no effect on the state; `self.connect()` inside `FileWriter.write` is
`FileWriter.connect` (the object is exactly a `FileWriter`; `ConsoleWriter` overrides `connect`); return values are
dropped (`connect` returns `self`); `self.format.line` is an arbitrary function `format_line` carried by the state; an
`except` clause has no effect on the state beyond choosing the class of the exception that leaves.

usage: gen_writers.py [repo_root] [--out FILE | --stdout]
"""
import ast
import os
import sys
from pathlib import Path as _P

V = _P(__file__).resolve().parent.parent
OUT = V / "lean" / "GscribModel" / "Gen" / "WritersSrc.lean"

CORE_METHODS = ["add_writer", "remove_writer", "write", "teardown", "flush", "__exit__"]
FILE_METHODS = ["__init__", "connect", "disconnect", "write", "flush"]
BASE_METHODS = {"connect": [], "disconnect": [("wait", "Bool")], "write": [("statement", "Bytes")], "flush": []}
LEAN_NAME = {"__init__": "init", "__exit__": "exit"}
ANNOT = {"bool": "Bool", "bytes": "Bytes", "str": "Str", "BaseWriter": "Nat", "Union[str, TextIO, BinaryIO]": "PyVal"}
ATTRS = ("encoding", "isatty", "closed")
OPEN_MODES = ("wb", "wb+", "w+b", "ab", "ab+", "a+b")
WRITER_CALLS = {"write": ["Bytes"], "flush": [], "disconnect": ["Bool"]}


# Python names that cannot be used as they are in the generated Lean text (keywords, or binders the templates use)
RESERVED = set("""o r e fun let if then else match with do at from in end open def theorem structure where have show by
    default none some true false heap objs fault""".split())


class Unsupported(Exception):
    pass


def check_name(node, name):
    if name in RESERVED or not name.isidentifier() or not name.isascii():
        fail(node, f"the name {name} cannot be used in the generated Lean text")
    return name


def fail(node, what):
    raise Unsupported(f"line {getattr(node, 'lineno', '?')}: {what}")


def is_doc(st):
    return isinstance(st, ast.Expr) and isinstance(st.value, ast.Constant) and isinstance(st.value.value, str)


def lean_str(s):
    if not all(32 <= ord(c) < 127 and c not in '"\\' for c in s):
        raise Unsupported(f"string literal {s!r}")
    return '"' + s + '"'


def find_class(repo, rel, name):
    path = repo / rel
    if not path.exists():
        raise Unsupported(f"{rel} not found")
    tree = ast.parse(path.read_text())
    cls = [n for n in tree.body if isinstance(n, ast.ClassDef) and n.name == name]
    if len(cls) != 1:
        raise Unsupported(f"class {name} not found in {rel}")
    methods = {}
    for n in cls[0].body:
        if isinstance(n, (ast.FunctionDef, ast.AsyncFunctionDef)):
            if n.name in methods:
                fail(n, f"{name}.{n.name} defined twice")
            methods[n.name] = n
    return cls[0], methods


class Method:
    """Translation of one method body.  `self.t` is the Lean type of `self`, `fields` its attributes."""

    def __init__(self, owner, cls, fn, fields, done, raising=False):
        self.owner, self.cls, self.fn, self.fields, self.done, self.raising = owner, cls, fn, fields, done, raising
        self.handler = None          # name of the generated handler function while inside `try`
        self.in_try = False

    # ------------------------------------------------------------ expressions
    def expr(self, e, env):
        """-> (lean text, type)"""
        if isinstance(e, ast.Constant):
            if e.value is True:
                return "true", "Bool"
            if e.value is False:
                return "false", "Bool"
            if e.value is None:
                return "PyVal.none", "PyVal"
            fail(e, f"constant {e.value!r}")
        if isinstance(e, ast.Name):
            if e.id in env:
                return e.id, env[e.id]
            fail(e, f"unknown name {e.id}")
        if isinstance(e, ast.Attribute) and isinstance(e.value, ast.Name) and e.value.id == "self":
            if e.attr in self.fields:
                return f"self.{e.attr}", self.fields[e.attr]
            fail(e, f"unknown attribute self.{e.attr}")
        if isinstance(e, ast.UnaryOp) and isinstance(e.op, ast.Not):
            t, ty = self.expr(e.operand, env)
            if ty != "Bool":
                fail(e, f"`not` on a value of type {ty} (truthiness is not translated)")
            return f"(!{t})", "Bool"
        if isinstance(e, ast.BoolOp):
            parts = []
            for v in e.values:
                t, ty = self.expr(v, env)
                if ty != "Bool":
                    fail(e, f"and/or on a value of type {ty} (truthiness is not translated)")
                parts.append(t)
            return "(" + (" && " if isinstance(e.op, ast.And) else " || ").join(parts) + ")", "Bool"
        if isinstance(e, ast.Compare) and len(e.ops) == 1:
            op, a, b = e.ops[0], e.left, e.comparators[0]
            if isinstance(op, (ast.Is, ast.IsNot)) and isinstance(b, ast.Constant) and b.value is None:
                t, ty = self.expr(a, env)
                if ty != "PyVal":
                    fail(e, f"`is None` on a value of type {ty}")
                return f"({t} {'==' if isinstance(op, ast.Is) else '!='} PyVal.none)", "Bool"
            if isinstance(op, (ast.In, ast.NotIn)):
                ta, tya = self.expr(a, env)
                tb, tyb = self.expr(b, env)
                if (tya, tyb) != ("Nat", "List Nat"):
                    fail(e, f"`in` between {tya} and {tyb}")
                t = f"(pyIn {ta} {tb})"
                return (t if isinstance(op, ast.In) else f"(!{t})"), "Bool"
            fail(e, f"comparison {ast.unparse(e)}")
        if isinstance(e, ast.Call):
            return self.call_expr(e, env)
        fail(e, f"expression {ast.unparse(e)}")

    def need_heap(self, e):
        if "heap" not in self.fields:
            fail(e, f"{ast.unparse(e)}: file objects are only modelled inside FileWriter")

    def call_expr(self, e, env):
        fn = e.func
        if e.keywords:
            fail(e, f"keyword arguments in {ast.unparse(e)}")
        if isinstance(fn, ast.Name):
            if fn.id == "isinstance" and len(e.args) == 2 and isinstance(e.args[1], ast.Name) and e.args[1].id == "str":
                t, ty = self.expr(e.args[0], env)
                if ty != "PyVal":
                    fail(e, f"isinstance on a value of type {ty}")
                return f"(pyIsStr {t})", "Bool"
            if fn.id == "hasattr" and len(e.args) == 2 and isinstance(e.args[1], ast.Constant) and e.args[1].value in ATTRS:
                self.need_heap(e)
                t, ty = self.expr(e.args[0], env)
                if ty != "PyVal":
                    fail(e, f"hasattr on a value of type {ty}")
                return f"(pyHasattr self.heap {t} Attr.{e.args[1].value})", "Bool"
            if fn.id == "getattr" and len(e.args) == 3 and isinstance(e.args[1], ast.Constant) and e.args[1].value == "closed":
                self.need_heap(e)
                t, ty = self.expr(e.args[0], env)
                d, dty = self.expr(e.args[2], env)
                if ty != "PyVal" or dty != "Bool":
                    fail(e, f"getattr({ty}, 'closed', {dty})")
                return f"(pyGetattr self.heap {t} Attr.closed {d})", "Bool"
            if fn.id == "Path" and len(e.args) == 1:
                self.need_heap(e)
                t, ty = self.expr(e.args[0], env)
                if ty != "PyVal":
                    fail(e, f"Path() of a value of type {ty}")
                return f"(pyPath {t})", "Path"
            fail(e, f"call {ast.unparse(e)}")
        if isinstance(fn, ast.Attribute):
            # self.format.line(s)
            if (fn.attr == "line" and isinstance(fn.value, ast.Attribute) and fn.value.attr == "format"
                    and isinstance(fn.value.value, ast.Name) and fn.value.value.id == "self" and "format_line" in self.fields
                    and len(e.args) == 1):
                t, ty = self.expr(e.args[0], env)
                if ty != "Str":
                    fail(e, f"format.line of a value of type {ty}")
                return f"(self.format_line {t})", "Str"
            if fn.attr == "isatty" and not e.args:
                self.need_heap(e)
                t, ty = self.expr(fn.value, env)
                if ty != "PyVal":
                    fail(e, f"isatty() on a value of type {ty}")
                return f"(pyIsatty self.heap {t})", "Bool"
            if fn.attr == "decode" and len(e.args) == 1 and isinstance(e.args[0], ast.Constant) and e.args[0].value == "utf-8":
                t, ty = self.expr(fn.value, env)
                if ty != "Bytes":
                    fail(e, f"decode() on a value of type {ty}")
                return f"(pyDecode {t} \"utf-8\")", "Str"
        fail(e, f"call {ast.unparse(e)}")

    # ------------------------------------------------------------ statements
    def ret(self, ind):
        return [ind + ("(self, none)" if self.raising else "self")]

    def seq(self, stmts, env, ind, k):
        """Lean lines for `stmts` followed by the continuation `k(env, ind)`."""
        if not stmts:
            return k(env, ind)
        st, rest = stmts[0], stmts[1:]
        nxt = lambda env2, ind2: self.seq(rest, env2, ind2, k)
        src = f"  -- line {st.lineno}"
        if is_doc(st) or isinstance(st, ast.Pass):
            return nxt(env, ind)
        if isinstance(st, ast.Return):
            if self.in_loop:
                fail(st, "return inside a loop")
            if st.value is None or (isinstance(st.value, ast.Constant) and st.value.value is None) \
                    or (isinstance(st.value, ast.Name) and st.value.id == "self"):
                return self.ret(ind)
            fail(st, f"return value {ast.unparse(st.value)}")
        if isinstance(st, ast.If):
            c, cty = self.expr(st.test, env)
            if cty != "Bool":
                fail(st, f"condition of type {cty} (truthiness is not translated)")
            return ([f"{ind}if {c} then{src}"] + self.seq(st.body, dict(env), ind + "  ", nxt)
                    + [f"{ind}else"] + self.seq(st.orelse, dict(env), ind + "  ", nxt))
        if isinstance(st, (ast.Assign, ast.AnnAssign)):
            if isinstance(st, ast.Assign):
                if len(st.targets) != 1:
                    fail(st, "multiple assignment")
                target, value = st.targets[0], st.value
            else:
                target, value = st.target, st.value
                if value is None:
                    fail(st, "annotation without value")
            return self.assign(st, target, value, env, ind, nxt, src)
        if isinstance(st, ast.Expr) and isinstance(st.value, ast.Call):
            return self.call_stmt(st, st.value, env, ind, nxt, src)
        if isinstance(st, ast.For):
            return self.loop(st, env, ind, nxt, src)
        if isinstance(st, ast.Try):
            if rest:
                fail(st, "statements after try")
            return self.try_(st, env, ind, k, src)
        fail(st, f"statement {ast.unparse(st).splitlines()[0][:60]}")

    def assign(self, st, target, value, env, ind, nxt, src):
        # self._f = <path>.open("mode")
        if (isinstance(value, ast.Call) and isinstance(value.func, ast.Attribute) and value.func.attr == "open"):
            self.need_heap(value)
            p, pty = self.expr(value.func.value, env)
            if pty != "Path" or len(value.args) != 1 or value.keywords or not isinstance(value.args[0], ast.Constant) \
                    or value.args[0].value not in OPEN_MODES:
                fail(st, f"{ast.unparse(value)}: only <Path>.open(mode) with mode in {OPEN_MODES}")
            if not (isinstance(target, ast.Attribute) and isinstance(target.value, ast.Name) and target.value.id == "self"
                    and self.fields.get(target.attr) == "PyVal"):
                fail(st, "an opened file must be assigned to a file attribute of self")
            return [f"{ind}let self := (fun (r : Heap × PyVal) => {{ self with heap := r.1, {target.attr} := r.2 }}) "
                    f"(pyOpen self.heap {p} {lean_str(value.args[0].value)}){src}"] + nxt(env, ind)
        # name = bytes(e, "utf-8")   (raises UnicodeEncodeError)
        if isinstance(value, ast.Call) and isinstance(value.func, ast.Name) and value.func.id == "bytes":
            if not (len(value.args) == 2 and not value.keywords and isinstance(value.args[1], ast.Constant) and value.args[1].value == "utf-8"):
                fail(st, f"{ast.unparse(value)}: only bytes(<str>, \"utf-8\")")
            if not (self.in_try and self.raising and not self.in_loop):
                fail(st, "bytes(...) may raise: only translated inside the try block, outside loops")
            if not isinstance(target, ast.Name):
                fail(st, "bytes(...) must be assigned to a local name")
            t, ty = self.expr(value.args[0], env)
            if ty != "Str":
                fail(st, f"bytes() of a value of type {ty}")
            env2 = dict(env)
            env2[check_name(st, target.id)] = "Bytes"
            return ([f"{ind}match (pyBytes {t} \"utf-8\") with{src}", f"{ind}| .error e => (self, some ({self.handler} e))",
                     f"{ind}| .ok {target.id} =>"] + nxt(env2, ind + "  "))
        t, ty = self.expr(value, env)
        if isinstance(target, ast.Attribute) and isinstance(target.value, ast.Name) and target.value.id == "self":
            fty = self.fields.get(target.attr)
            if fty is None or target.attr in ("heap", "objs", "format_line", "fault"):
                fail(st, f"assignment to unknown attribute self.{target.attr}")
            if fty != ty:
                fail(st, f"self.{target.attr} : {fty} assigned a value of type {ty}")
            return [f"{ind}let self := {{ self with {target.attr} := {t} }}{src}"] + nxt(env, ind)
        if isinstance(target, ast.Name):
            if target.id == "self" or target.id in self.params:
                fail(st, f"assignment to parameter {target.id}")
            check_name(st, target.id)
            env2 = dict(env)
            env2[target.id] = ty
            lty = "PyVal" if ty == "Path" else ty
            return [f"{ind}let {target.id} : {lty} := {t}{src}"] + nxt(env2, ind)
        fail(st, f"assignment target {ast.unparse(target)}")

    def call_stmt(self, st, call, env, ind, nxt, src):
        fn = call.func
        if not isinstance(fn, ast.Attribute):
            fail(st, f"call {ast.unparse(call)}")
        recv = fn.value
        # self._logger.<level>(...)
        if (isinstance(recv, ast.Attribute) and recv.attr == "_logger" and isinstance(recv.value, ast.Name) and recv.value.id == "self"
                and fn.attr in ("debug", "info", "warning", "error", "exception", "critical")):
            return [f"{ind}-- self._logger.{fn.attr}(...): no effect on the state{src}"] + nxt(env, ind)
        # <path>.parent.mkdir(...)
        if fn.attr == "mkdir" and isinstance(recv, ast.Attribute) and recv.attr == "parent":
            p, pty = self.expr(recv.value, env)
            if pty != "Path":
                fail(st, f"mkdir on a value of type {pty}")
            return [f"{ind}-- {p}.parent.mkdir(...): directories are not modelled{src}"] + nxt(env, ind)
        # self.<method>(args)
        if isinstance(recv, ast.Name) and recv.id == "self":
            if fn.attr not in self.done:
                fail(st, f"call of self.{fn.attr}, which is not translated (before this method)")
            sig, raising = self.done[fn.attr]
            if raising:
                fail(st, f"call of self.{fn.attr}, which may raise")
            if self.in_loop:
                fail(st, "method call on self inside a loop")
            if call.keywords or len(call.args) > len(sig):
                fail(st, f"arguments of {ast.unparse(call)}")
            args = []
            for i, (pname, pty, default) in enumerate(sig):
                if i < len(call.args):
                    t, ty = self.expr(call.args[i], env)
                    if ty != pty:
                        fail(st, f"argument {pname} of type {ty}, expected {pty}")
                    args.append(t)
                elif default is not None:
                    args.append(default)
                else:
                    fail(st, f"missing argument {pname}")
            lname = LEAN_NAME.get(fn.attr, fn.attr)
            return [f"{ind}let self := {self.cls}.{lname} self" + "".join(" " + a for a in args) + src] + nxt(env, ind)
        if call.keywords:
            fail(st, f"keyword arguments in {ast.unparse(call)}")
        # self._writers.append(w) / remove(w) / clear()
        if isinstance(recv, ast.Attribute) and isinstance(recv.value, ast.Name) and recv.value.id == "self" \
                and self.fields.get(recv.attr) == "List Nat" and recv.attr != "objs":
            if self.in_loop:
                fail(st, "the list is changed inside a loop over it")
            if fn.attr in ("append", "remove") and len(call.args) == 1:
                t, ty = self.expr(call.args[0], env)
                if ty != "Nat":
                    fail(st, f"{fn.attr} of a value of type {ty}")
                if fn.attr == "append":
                    return [f"{ind}let self := {{ self with {recv.attr} := pyAppend self.{recv.attr} {t} }}{src}"] + nxt(env, ind)
                return [f"{ind}let self := {{ self with {recv.attr} := pyRemove self.{recv.attr} {t}, "
                        f"fault := self.fault || pyRemoveFaults self.{recv.attr} {t} }}{src}"] + nxt(env, ind)
            if fn.attr == "clear" and not call.args:
                return [f"{ind}let self := {{ self with {recv.attr} := pyClear self.{recv.attr} }}{src}"] + nxt(env, ind)
            fail(st, f"list operation {ast.unparse(call)}")
        t, ty = self.expr(recv, env)
        # <writer>.write(b) / .flush() / .disconnect(wait)
        if ty == "Nat" and "objs" in self.fields and fn.attr in WRITER_CALLS:
            want = WRITER_CALLS[fn.attr]
            if len(call.args) != len(want):
                fail(st, f"arguments of {ast.unparse(call)} (all arguments must be given positionally)")
            args = []
            for a, w in zip(call.args, want):
                ta, tya = self.expr(a, env)
                if tya != w:
                    fail(st, f"argument of type {tya}, expected {w}")
                args.append(ta)
            return [f"{ind}let self := self.call {t} (fun o => Writer.{fn.attr} o" + "".join(" " + a for a in args) + f"){src}"] + nxt(env, ind)
        # <file>.write(x) / .flush() / .close()
        if ty == "PyVal" and "heap" in self.fields:
            if fn.attr == "write" and len(call.args) == 1:
                ta, tya = self.expr(call.args[0], env)
                if tya not in ("Bytes", "Str"):
                    fail(st, f"write() of a value of type {tya}")
                pl = "Payload.bytes" if tya == "Bytes" else "Payload.str"
                return [f"{ind}let self := {{ self with heap := pyWrite self.heap {t} ({pl} {ta}) }}{src}"] + nxt(env, ind)
            if fn.attr in ("flush", "close") and not call.args:
                prim = "pyFlush" if fn.attr == "flush" else "pyClose"
                return [f"{ind}let self := {{ self with heap := {prim} self.heap {t} }}{src}"] + nxt(env, ind)
        fail(st, f"call {ast.unparse(call)}")

    def loop(self, st, env, ind, nxt, src):
        if st.orelse or self.in_loop:
            fail(st, "for … else / nested loop")
        it, ity = self.expr(st.iter, env)
        if ity != "List Nat" or not isinstance(st.target, ast.Name):
            fail(st, f"loop over {ast.unparse(st.iter)}")
        for n in ast.walk(st):
            if isinstance(n, (ast.Break, ast.Continue, ast.Return, ast.Raise, ast.Try)):
                fail(n, f"{type(n).__name__.lower()} inside a loop")
        v = check_name(st, st.target.id)
        if v == "self" or v in env:
            fail(st, f"loop variable {v} shadows another name")
        env2 = dict(env)
        env2[v] = "Nat"
        self.in_loop = True
        body = self.seq(st.body, env2, ind + "  ", lambda e, i: [i + "self"])
        self.in_loop = False
        return ([f"{ind}let self := {it}.foldl (fun (self : {self.cls}) ({v} : Nat) =>{src}"] + body[:-1] + [body[-1] + ") self"]
                + nxt(env, ind))      # the loop variable stays bound in Python; it is not used afterwards (checked: unknown name)

    def try_(self, st, env, ind, k, src):
        if not self.raising or self.in_try or self.in_loop or st.orelse or st.finalbody or not st.handlers:
            fail(st, "try statement (only one try/except, as the last statement of a method)")
        self.in_try = True
        lines = [f"{ind}-- try:{src}"] + self.seq(st.body, env, ind, k)
        self.in_try = False
        return lines

    def handler_def(self, st):
        """The `except` clauses as a function on exception classes; every clause must end in `raise`."""
        name = f"{self.cls}.{LEAN_NAME.get(self.fn.name, self.fn.name)}_handler"
        out = [f"/-- the `except` clauses of `{self.cls}.{self.fn.name}` ({self.owner} line {st.lineno}): the class of the exception that leaves the method -/",
               f"def {name} (e : Exc) : Exc :="]
        for h in st.handlers:
            if not isinstance(h.type, ast.Name):
                fail(h, "except clause without a single class name")
            body = [b for b in h.body if not is_doc(b)]
            while body and isinstance(body[0], ast.Expr) and isinstance(body[0].value, ast.Call) \
                    and ast.unparse(body[0].value.func).startswith("self._logger."):
                body = body[1:]
            if len(body) != 1 or not isinstance(body[0], ast.Raise):
                fail(h, "an except clause must be log calls followed by one raise")
            r = body[0]
            if r.exc is None:
                res = "e"
            elif isinstance(r.exc, ast.Call) and isinstance(r.exc.func, ast.Name):
                if r.cause is not None and not (isinstance(r.cause, ast.Name) and r.cause.id == h.name):
                    fail(r, "raise … from something else than the caught exception")
                res = f"Exc.ofName {lean_str(r.exc.func.id)}"
            else:
                fail(r, f"raise {ast.unparse(r.exc)}")
            out.append(f"  if e.isA {lean_str(h.type.id)} then {res}  -- line {h.lineno}")
            out.append("  else")
        out[-1] = "  else e"
        return name, out

    # ------------------------------------------------------------ the method
    def translate(self, self_type, extra_params=()):
        fn = self.fn
        allowed = {"typechecked"}
        for d in fn.decorator_list:
            if not (isinstance(d, ast.Name) and d.id in allowed):
                fail(fn, f"decorator {ast.unparse(d)} on {self.cls}.{fn.name}")
        a = fn.args
        if a.vararg or a.kwarg or a.kwonlyargs or a.posonlyargs or not a.args or a.args[0].arg != "self":
            fail(fn, f"signature of {fn.name}")
        defaults = [None] * (len(a.args) - len(a.defaults)) + list(a.defaults)
        env, sig, params = {}, [], []
        used = {n.id for n in ast.walk(fn) if isinstance(n, ast.Name)}
        for p, d in list(zip(a.args, defaults))[1:]:
            if p.annotation is None:
                if p.arg in used:
                    fail(fn, f"parameter {p.arg} has no annotation and is used")
                continue            # an unused, untyped parameter (`__exit__`) is dropped
            ann = ast.unparse(p.annotation)
            if ann not in ANNOT:
                fail(fn, f"parameter {p.arg}: {ann}")
            dflt = None
            if d is not None:
                if not (isinstance(d, ast.Constant) and isinstance(d.value, bool) and ANNOT[ann] == "Bool"):
                    fail(fn, f"default of parameter {p.arg}")
                dflt = "true" if d.value else "false"
            env[check_name(fn, p.arg)] = ANNOT[ann]
            sig.append((p.arg, ANNOT[ann], dflt))
            params.append(p.arg)
        self.params, self.in_loop = params, False
        lname = LEAN_NAME.get(fn.name, fn.name)
        head = []
        tries = [s for s in ast.walk(fn) if isinstance(s, ast.Try)]
        if tries:
            if len(tries) != 1 or not self.raising:
                fail(fn, "try statements")
            self.handler, hlines = self.handler_def(tries[0])
            head = hlines + [""]
        # `__init__` builds the object (extra_params: what it is built from); every other method takes it
        binders = "".join(f" ({n} : {t})" for n, t in extra_params) if extra_params else f" (self : {self_type})"
        binders += "".join(f" ({n} : {t})" for n, t, _ in sig)
        rty = f"{self.cls} × Option Exc" if self.raising else self.cls
        body = self.seq(fn.body, env, "  ", lambda e, i: self.ret(i))
        text = head + [f"/-- `{self.cls}.{fn.name}` ({self.owner} line {fn.lineno}) -/", f"def {self.cls}.{lname}{binders} : {rty} :="]
        return text, body, sig


def file_writer(repo):
    cls, methods = find_class(repo, "gscrib/writers/file_writer.py", "FileWriter")
    if [ast.unparse(b) for b in cls.bases] != ["BaseWriter"]:
        fail(cls, f"bases of FileWriter: {[ast.unparse(b) for b in cls.bases]}")
    slots = None
    for st in cls.body:
        if isinstance(st, ast.Assign) and len(st.targets) == 1 and isinstance(st.targets[0], ast.Name) and st.targets[0].id == "__slots__":
            if not isinstance(st.value, (ast.Tuple, ast.List)) or not all(isinstance(x, ast.Constant) and isinstance(x.value, str) for x in st.value.elts):
                fail(st, "__slots__")
            slots = [x.value for x in st.value.elts]
        elif not (is_doc(st) or isinstance(st, ast.FunctionDef)):
            fail(st, f"class-level statement {ast.unparse(st)[:40]}")
    if slots is None:
        fail(cls, "FileWriter has no __slots__")
    for m in FILE_METHODS:
        if m not in methods:
            fail(cls, f"FileWriter.{m} not found")
    extra = sorted(set(methods) - set(FILE_METHODS) - {"__enter__", "__exit__"})
    if extra:
        fail(cls, f"FileWriter has methods the translation does not know: {extra}")
    # field types from __init__: every slot is assigned exactly a constant or a parameter there
    init = methods["__init__"]
    ptypes = {}
    for p in init.args.args[1:]:
        ann = ast.unparse(p.annotation) if p.annotation else None
        if ann not in ANNOT:
            fail(init, f"parameter {p.arg}: {ann}")
        ptypes[p.arg] = ANNOT[ann]
    ftypes = {}
    for st in init.body:
        if isinstance(st, ast.Assign) and len(st.targets) == 1 and isinstance(st.targets[0], ast.Attribute):
            v = st.value
            if isinstance(v, ast.Constant) and isinstance(v.value, bool):
                ty = "Bool"
            elif isinstance(v, ast.Constant) and v.value is None:
                ty = "PyVal"
            elif isinstance(v, ast.Name) and v.id in ptypes:
                ty = ptypes[v.id]
            else:
                fail(st, f"cannot type {ast.unparse(st)}")
            if ftypes.setdefault(st.targets[0].attr, ty) != ty:
                fail(st, f"self.{st.targets[0].attr} has two types")
    if sorted(ftypes) != sorted(slots):
        raise Unsupported(f"FileWriter.__slots__ {sorted(slots)} differ from the attributes assigned in __init__ {sorted(ftypes)}")
    fields = {s: ftypes[s] for s in slots}
    fields["heap"] = "Heap"
    out = ["/-- one field per `FileWriter.__slots__` entry (file_writer.py line %d), and the file objects they can refer to -/" % cls.lineno,
           "structure FileWriter where"] + [f"  {s} : {fields[s]}" for s in slots] + ["  heap : Heap", "deriving DecidableEq, Repr", ""]
    done = {}
    for m in FILE_METHODS:
        tr = Method("file_writer.py", "FileWriter", methods[m], fields, done)
        if m == "__init__":
            head, body, sig = tr.translate("FileWriter", extra_params=[("heap", "Heap")])
            blank = "  let self : FileWriter := { " + ", ".join(f"{s} := default" for s in slots) + ", heap := heap }"
            out += head + [blank] + body + [""]
        else:
            head, body, sig = tr.translate("FileWriter")
            out += head + body + [""]
            done[m] = (sig, False)
    return out, set(methods)


def base_writer(repo):
    """-> lines, {method: abstract?}"""
    cls, methods = find_class(repo, "gscrib/writers/base_writer.py", "BaseWriter")
    if set(methods) != set(BASE_METHODS):
        fail(cls, f"BaseWriter methods {sorted(methods)}, expected {sorted(BASE_METHODS)}")
    out, abstract = [], {}
    for name in sorted(methods, key=lambda n: methods[n].lineno):
        fn = methods[name]
        decos = [ast.unparse(d) for d in fn.decorator_list]
        if decos not in ([], ["abstractmethod"]):
            fail(fn, f"decorators {decos}")
        params = []
        for p in fn.args.args[1:]:
            ann = ast.unparse(p.annotation) if p.annotation else None
            if ann not in ANNOT:
                fail(fn, f"parameter {p.arg}: {ann}")
            params.append((p.arg, ANNOT[ann]))
        if params != BASE_METHODS[name]:
            fail(fn, f"BaseWriter.{name}{params}, expected {BASE_METHODS[name]}")
        abstract[name] = bool(decos)
        body = [b for b in fn.body if not (is_doc(b) or isinstance(b, ast.Pass))]
        if body:
            fail(body[0], f"BaseWriter.{name} has a body (only a docstring is translated)")
        if not decos:
            binders = "".join(f" ({n} : {t})" for n, t in params)
            out += [f"/-- `BaseWriter.{name}` (base_writer.py line {fn.lineno}): concrete, empty body -/",
                    f"def BaseWriter.{name} {{α : Type}} (self : α){binders} : α :=", "  self", ""]
    return out, abstract


def dispatch(abstract, file_methods):
    out = ["/-- a registered writer object: a `FileWriter`, or an object of another `BaseWriter` subclass -/",
           "inductive Writer where", "  | file (w : FileWriter)", "  | other (w : OtherWriter)", "",
           "/-! dynamic dispatch of `writer.<m>(...)`: `FileWriter` overrides " + ", ".join(m for m in BASE_METHODS if m in file_methods)
           + "; `BaseWriter` declares " + ", ".join(m for m in BASE_METHODS if abstract[m]) + " abstract (`OtherWriter`: prelude) -/"]
    for m in WRITER_CALLS:
        params = BASE_METHODS[m]
        tys = "".join(f" → {t}" for _, t in params)
        names = "".join(f", {n}" for n, _ in params)
        args = "".join(f" {n}" for n, _ in params)
        f_impl = f"FileWriter.{m}" if m in file_methods else (None if abstract[m] else f"BaseWriter.{m}")
        o_impl = f"OtherWriter.{m}" if abstract[m] else f"BaseWriter.{m}"
        if f_impl is None:
            raise Unsupported(f"FileWriter does not implement the abstract method {m}")
        out += [f"def Writer.{m} : Writer{tys} → Writer", f"  | .file w{names} => .file ({f_impl} w{args})",
                f"  | .other w{names} => .other ({o_impl} w{args})"]
    out.append("")
    return out


def gcode_core(repo):
    cls, methods = find_class(repo, "gscrib/gcode_core.py", "GCodeCore")
    for m in CORE_METHODS + ["__init__"]:
        if m not in methods:
            fail(cls, f"GCodeCore.{m} not found")
    # the writer list: exactly one assignment to self._writers in the class, in __init__, of the empty list
    assigns = []
    for n in ast.walk(cls):
        tgts = n.targets if isinstance(n, ast.Assign) else [n.target] if isinstance(n, (ast.AnnAssign, ast.AugAssign)) else []
        for t in tgts:
            if isinstance(t, ast.Attribute) and t.attr == "_writers":
                assigns.append(n)
    init_assigns = [n for n in ast.walk(methods["__init__"]) if n in assigns]
    if len(assigns) != 1 or len(init_assigns) != 1:
        raise Unsupported(f"self._writers is assigned {len(assigns)} times in GCodeCore ({len(init_assigns)} in __init__), expected once, in __init__")
    a = assigns[0]
    if not (isinstance(a, ast.AnnAssign) and ast.unparse(a.annotation) == "List[BaseWriter]" and isinstance(a.value, ast.List) and not a.value.elts) \
            and not (isinstance(a, ast.Assign) and isinstance(a.value, ast.List) and not a.value.elts):
        fail(a, f"{ast.unparse(a)}: expected `self._writers: List[BaseWriter] = []`")
    # … and it is touched by no other method than the translated ones (reads by get_writer are harmless)
    for name, fn in methods.items():
        if name in CORE_METHODS or name in ("__init__", "get_writer"):
            continue
        for n in ast.walk(fn):
            if isinstance(n, ast.Attribute) and n.attr == "_writers":
                fail(n, f"GCodeCore.{name} uses self._writers and is not translated")
    fields = {"_writers": "List Nat", "objs": "Nat → Writer", "format_line": "Str → Str", "fault": "Bool"}
    out = ["/-- `GCodeCore`: the writer list (object identities, in registration order), every writer object, and the formatter's `line` -/",
           "structure GCodeCore where", "  _writers : List Nat", "  objs : Nat → Writer", "  format_line : Str → Str",
           "  fault : Bool := false   -- sticky: `list.remove` of an absent element (ValueError)", "",
           "/-- `writer.<m>(...)` on the object with identity `i` -/",
           "def GCodeCore.call (self : GCodeCore) (i : Nat) (f : Writer → Writer) : GCodeCore :=",
           "  { self with objs := fun j => if j = i then f (self.objs j) else self.objs j }", "",
           f"/-- `GCodeCore.__init__` (gcode_core.py line {a.lineno}): `{ast.unparse(a)}` -/",
           "def GCodeCore.init (objs : Nat → Writer) (format_line : Str → Str) : GCodeCore :=",
           "  { _writers := [], objs := objs, format_line := format_line }", ""]
    done = {}
    for m in CORE_METHODS:
        raising = any(isinstance(s, ast.Try) for s in ast.walk(methods[m]))
        tr = Method("gcode_core.py", "GCodeCore", methods[m], fields, done, raising=raising)
        head, body, sig = tr.translate("GCodeCore")
        out += head + body + [""]
        done[m] = (sig, raising)
    return out


def render(repo):
    fw, fw_methods = file_writer(repo)
    bw, abstract = base_writer(repo)
    out = ["/- GENERATED by tools/gen_writers.py from gscrib/gcode_core.py, gscrib/writers/file_writer.py, gscrib/writers/base_writer.py (source text, by AST). Do not edit.",
           "   Assumptions of the translation: log calls have no effect; `self.connect()` in `FileWriter.write` is `FileWriter.connect`;",
           "   return values are dropped; an `except` clause only chooses the class of the exception that leaves; parameters have",
           "   their annotated types.  File objects, `bytes`/`decode`, list operations: prelude `Model/WritersPrelude.lean`. -/",
           "import GscribModel.Model.WritersPrelude", "namespace GscribModel.Gen.WritersSrc",
           "open GscribModel.Writers GscribModel.WritersPrelude", "set_option linter.unusedVariables false", ""]
    out += fw + bw + dispatch(abstract, fw_methods) + gcode_core(repo)
    out.append("end GscribModel.Gen.WritersSrc")
    return "\n".join(out) + "\n"


def main():
    argv = sys.argv[1:]
    out, stdout, pos = OUT, False, []
    i = 0
    while i < len(argv):
        if argv[i] == "--stdout":
            stdout = True
        elif argv[i] == "--out" and i + 1 < len(argv):
            out = _P(argv[i + 1])
            i += 1
        elif argv[i].startswith("--"):
            print(__doc__.strip().splitlines()[-1], file=sys.stderr)
            raise SystemExit(2)
        else:
            pos.append(argv[i])
        i += 1
    repo = _P(pos[0] if pos else os.environ.get("GSCRIB_REPO", "/repo"))
    try:
        text = render(repo)
    except Unsupported as e:
        print("gen_writers: the source is outside the translated subset:", e, file=sys.stderr)
        raise SystemExit(3)
    except SyntaxError as e:
        print("gen_writers: the source does not parse:", e, file=sys.stderr)
        raise SystemExit(3)
    if stdout:
        sys.stdout.write(text)
        return
    out.parent.mkdir(parents=True, exist_ok=True)
    if not out.exists() or out.read_text() != text:
        out.write_text(text)
        print("gen_writers: rewrote", out)


if __name__ == "__main__":
    main()

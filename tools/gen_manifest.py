#!/usr/bin/env python3
"""Regenerates /verif/MANIFEST.json from the table below (keeps it schema-valid at all times)."""
import json
from pathlib import Path

VERIF = Path(__file__).resolve().parent.parent
BASELINE = ("cd /repo && env -u GSCRIB_VERIF /venv/bin/python -m pytest -ra -q -p no:cacheprovider --timeout=900 "
            "--continue-on-collection-errors")

# id -> (technique, level text, level note, design ref)
CLAIMED = {
    "C10": (
        "Lean 4 theorems: curve formulas written once over a scalar type with a Trig record and proved at the reals (Mathlib "
        "Real.cos/sin, Complex.arg), filter/emission proved over Q for any sample list + two-stage differential correspondence "
        "(Float instance of the same formulas at the thetas the real tracer used; exact filter/emit stage)",
        "Proof: C10_arc_on_circle/_start/_end/_sweep/_z_linear, C10_arc_radius_choice/_minor_major, C10_helix, "
        "C10_thread_radius (reals); C10_filter_subseq/_last, C10_cover, C10_emit_exact, C10_polyline_exact (rationals, any curve). "
        "Oracle: geometric predicates on vertices reconstructed from the emitted G-code by an independent interpreter.",
        "Trusted: Lean kernel, Mathlib analysis modules in proof files, libm/numpy trig and sqrt (the Float instance is compared "
        "within 1e-9), scipy CubicSpline (trusted to interpolate), model tied by correspondence, harness.",
        "DESIGN.md section 7 / C10",
    ),
    "C12": (
        "Lean 4 theorems about _filter_segments over Q for any list of sample distances (structural induction) and a real-analysis "
        "chord bound + differential correspondence on the real tracer's own samples at res and res/2",
        "Proof: C12_seg_bounds, C12_count_bounds, C12_halving_partial (two explicit sampling hypotheses), C12_units, "
        "C12_chord_error. Oracle: measured segment lengths, counts, monotone count under halving, sagitta bound, both unit systems.",
        "Trusted: as C10. The lower bound is on accumulated sample length (the chord is shorter by the curvature term).",
        "DESIGN.md section 7 / C12",
    ),
    "C08": (
        "Lean 4 theorems over a hand-written model of DefaultFormatter (own digit printer/parser, round-half-even, parameters, "
        "command, comment, line) and of every way the builder assembles a statement, with an independent block lexer "
        "+ differential correspondence (string equality of number() on >= 60k doubles per run, every text-producing command)",
        "Proof: C08_number_error (printed string read back is within half a unit of the last place, all rationals, all dp), "
        "C08_number_grammar, C08_nonfinite(_stmt), C08_line_roundtrip, C08_word_values, C08_styles_supported; "
        "C08_number_partial covers the large-magnitude branch where numpy prints shortest round-trip digits (trusted parameter, "
        "checked by string equality on every sample).",
        "Trusted: Lean kernel, Mathlib tactics in lemma files, numpy Dragon4 / CPython float<->decimal conversion (modelled by "
        "specification), model tied by correspondence, harness lexer.",
        "DESIGN.md section 7 / C08",
    ),
    "C09": (
        "Lean 4 theorems over the formatter model: sanitiser with Python re.sub/str.replace semantics and an independent comment "
        "stripper, for ALL text, every supported comment style and every text-taking entry point + differential correspondence "
        "on adversarial strings",
        "Proof: C09_sanitize_safe, C09_comment_confined, C09_inert, C09_exec_is_code: stripping comments from what any "
        "text-taking call writes leaves exactly the executable words of the same call with empty text, and the same number of lines.",
        "Trusted: as C08. Comment symbols containing '{}' and string-valued non-comment parameters are outside the model.",
        "DESIGN.md section 7 / C09",
    ),
    "C11": (
        "Lean 4 theorems over the Builder model + position machine (absolute parameters equal in both modes, every traced vertex "
        "reached in both modes by induction over the vertex list) + paired executions of the real builder/tracer in both modes",
        "Proof: C11_to_absolute, C11_to_absolute_list, C11_circle_target, C11_path_positions, C11_mode_independent, "
        "C11_move_same, C11_bypass_same. Each logical toolpath (moves, rapids, bypass moves, mode contexts, every tracer shape) is "
        "run in absolute and in relative mode on the real code; an independent interpreter compares machine positions vertex by vertex.",
        "Trusted: as C01. The curve formulas are C10's; equality of vertex lists in floats is sampled (grid waypoints), rounding "
        "of relative words accumulates within the stated tolerance.",
        "DESIGN.md section 7 / C11",
    ),
    "C04": (
        "Lean 4 theorems over a hand-written model of Transform/CoordinateTransformer/GCodeCore's move path for an ARBITRARY "
        "4x4 current matrix (algebra over Q by grind, induction over op lists) + differential correspondence with scipy's "
        "rotation blocks passed as exact data",
        "Proof: C04_abs_word, C04_rel_word, C04_mentions, C04_invariant, C04_bypass_word, C04_bypass_machine, "
        "C04_setaxis_machine, C04_bypass_agree_iff, C04_setaxis_agree_iff, C04_invariant_run: for every affine map reachable or "
        "not, every partial-axis move/rapid in both modes, the emitted words are the image of the target (absolute) or the "
        "linear image of the displacement (relative), every axis that has to change is mentioned, and machine = A.tracked is "
        "preserved along any op list that leaves A unchanged - including absolute-bypass moves and axis resets exactly when "
        "they resync (replacing the requested coordinates commutes with the map at the tracked position).",
        "Trusted: Lean kernel, model tied by correspondence, harness; exact arithmetic over Q: float rounding and LAPACK's inverse "
        "are sampled with the tie-guarded tolerance, not proved; scipy Rotation enters as data.",
        "DESIGN.md section 7 / C04",
    ),
    "C13": (
        "Lean 4 refinement proof: the transformer (4x4 matrices, pivot matrices, stack, name dict, context-manager frames) "
        "refines a tiny spec of immutable affine values for every op list incl. nested with-blocks and exits by exception "
        "+ differential correspondence against an independent numpy stack machine",
        "Proof: C13_refines_spec(_init), C13_affine_inv(_step), C13_reverse, C13_reverse_reachable, C13_pivot_fixed(_calls), "
        "C13_named_immutable, C13_context_restores, C13_save_restore.",
        "Trusted: as C04. Rotation blocks are data (theorems hold for every invertible block).",
        "DESIGN.md section 7 / C13",
    ),
    "C20": (
        "Lean 4 theorems over the Builder model with data-described hooks (hook calls as an output of step, E-axis machine) "
        "+ differential correspondence with wrappers around the real hooks incl. the bundled extrusion_hook",
        "Proof: C20_hook_calls_move (each registered hook called once per linear move with origin = tracked position and "
        "target = position reached, both modes), C20_no_calls, C20_params (emitted and remembered = hook output), "
        "C20_extrusion_word, C20_extrusion_amount_partial (filament = k x XY length per move / as increase of the running total "
        "under ESync), C20_reset_resyncs; the running-total clause fails after an M83->M82 switch: recorded finding with a "
        "Lean witness replayed every run.",
        "Trusted: as C02; hypot(dx,dy) is an uninterpreted parameter of the model (the oracle checks it against dx, dy); "
        "arbitrary user hooks are not modelled.",
        "DESIGN.md section 7 / C20",
    ),
    "C14": (
        "Lean 4 theorems over a hand-written model of the writer list and FileWriter sessions (induction over every history of "
        "add/remove/write/flush/teardown/disconnect, explicit UTF-8 encoder/decoder) + differential correspondence on real "
        "files and streams",
        "Proof: C14_no_duplicates, C14_registered, C14_same_bytes, C14_delivery(_from), C14_session, C14_content_invariant, "
        "C14_file_content, C14_utf8_roundtrip, C14_teardown(_run) for every history and every mix of writer kinds; "
        "after flush() or teardown() no file kind has anything unflushed (a caller's file object is flushed before it is detached); "
        "correspondence on path files, caller-opened text/binary real files read back from disk, BytesIO/StringIO, buffered and tty "
        "doubles, custom writers, all line endings, non-ASCII text.",
        "Trusted: Lean kernel (propext, Classical.choice, Quot.sound), model tied by correspondence, Python harness; OS file "
        "buffering below flush() and non-UTF-8 text streams are outside the model.",
        "DESIGN.md section 7 / C14",
    ),
    "C15": (
        "Lean 4 invariant proofs over a labelled transition system (sender = printcore._sendnext/_listen/_send, FIFO channels, "
        "Marlin-style firmware) for ALL schedules and fault patterns + differential correspondence against the real threaded "
        "printcore on a step-controlled fake serial port",
        "Proof: C15_frame, C15_frame_run, C15_accept_prefix_partial (safety: accepted log always a prefix of the job, every "
        "schedule, every fault pattern sparing the reset or e0 = 0), C15_resend(_continue), C15_complete_nofault, "
        "C15_complete_partial (completeness under no SplitTriple); the full completeness claim is false on the real code: two "
        "recorded findings with Lean decide witnesses replayed on the implementation every run.",
        "Trusted: Lean kernel, model tied by correspondence at the granularity of two atomic steps per thread (races inside a "
        "step, e.g. non-atomic resendfrom += 1, are not represented), Python firmware twin, pyserial replaced by a fake port.",
        "DESIGN.md section 7 / C15",
    ),
    "C16": (
        "Lean 4 invariant proofs over a transition system of caller / print thread / sender thread / reader thread / device (14 "
        "actions, write() split into its real steps; Marlin-style line-number handshake and Grbl-style greeting handshake) for every interleaving + differential correspondence against the real "
        "threaded SerialWriter/SocketWriter with harness-controlled replies and injected delays",
        "Proof: C16_order_once, C16_sync_partial, C16_sync, C16_single_probe_clean, C16_sync_single_probe, "
        "C16_error_surfaces, C16_unsolicited_error_surfaces, C16_error_line_is_due, C16_no_spurious_error, C16_connect_clean, "
        "C16_disconnect_wait, C16_grbl_single_probe_clean, C16_sync_grbl_single_probe for every action list (sync theorems under the ghost flags backlog = false and surplusHit = false); "
        "the two residual defects (handshake backlog, surplus flag-setting line read inside a write) are recorded findings "
        "with decide witnesses replayed every run.",
        "Trusted: as C15. Out of scope: Resend lines mid-session, writes after a socket loss, a connect() that never returns (liveness).",
        "DESIGN.md section 7 / C16",
    ),
    "C18": (
        "Lean 4 theorems over a hand-written scanner automaton equivalent to VALUE_PATTERN.findall, _parse_message and "
        "_on_device_message, with a renderer for the four report families (induction over report fields and report sequences) "
        "+ differential correspondence (scanner vs Python re on >= 1e5 strings per run, reports through a real PrintrunWriter)",
        "Proof: C18_scan_report, C18_deliver_report, C18_first_wins, C18_report_ack, C18_sequence, C18_error_keeps, "
        "C18_dispatch_parse for every well-formed report of the Marlin position / temperature (with or without ok), Grbl status "
        "and probe families, every prior reading table and every letter.",
        "Trusted: Lean kernel, the regex model (validated against re on every run, not proved), model tied by correspondence, "
        "harness; reports are ASCII.",
        "DESIGN.md section 7 / C18",
    ),
    "C19": (
        "Lean 4 theorems over a hand-written model of the heightmap logic (range test and orientation, barycentric "
        "interpolation over Q, Bresenham line, linspace, _filter_points by induction) with the spline and the triangulation "
        "as parameters + differential correspondence against scipy-backed maps",
        "Proof: C19_raster_sample/_range, C19_sparse_vertex/_between/_outside, C19_convex_between, C19_filter, "
        "C19_path_ends_order, C19_raster_line, C19_raster_path, C19_flat for all grids, point sets, queries, scales and "
        "tolerances; FITPACK and Qhull enter as parameters with their defining property as an explicit hypothesis. "
        "Correspondence on random images and point sets; the one stored-point hypothesis scipy violates is a recorded finding.",
        "Trusted: Lean kernel (propext, Classical.choice, Quot.sound), Mathlib Linarith/Ring in lemma files, model tied by "
        "correspondence, Python harness; RectBivariateSpline, LinearNDInterpolator/Qhull and skimage.draw.line are modelled "
        "(Bresenham is transcribed and checked pixel for pixel), float rounding sampled with 1e-9 margins.",
        "DESIGN.md section 7 / C19",
    ),
    "C07": (
        "Lean 4 invariant proof (Mirror between the Builder model and an independent modal interpreter, 17 clauses, per command "
        "and by induction over every prefix of every history) + differential correspondence over the full API",
        "Proof: C07_mirror_init, C07_mirror_step, C07_mirror_run: after every call of every history, tool flag / start code / "
        "power, coolant, tool number, feed rate, distance/extrusion/feed modes, units, plane, the three target temperatures and "
        "the last value of every move parameter reported by the state equal what a modal interpreter derives from the emitted "
        "statements. Correspondence compares every public state property after every call; a Python modal interpreter replays "
        "the real output. The enum->instruction table is *translated* from the source text of gscrib/codes/gcode_mappings.py into Lean on every run (tools/gen_code_table.py -> Gen/CodeTable.lean) and Tables_step_emits_table / Tables_rows_cover / Tables_emergency_codes re-proved: the codes the model writes are exactly the source table's.",
        "Trusted: as C02. F/S modal on motion, probe, tool-start and bare-word statements; power compared while the tool runs "
        "(the builder zeroes its figure on M05); X/Y/Z excluded from move parameters (C01).",
        "DESIGN.md section 7 / C07",
    ),
    "C01": (
        "Lean 4 invariant proof (Agree between the Builder model and an independent position machine, per command and by "
        "induction over every prefix of every history) + differential correspondence incl. all tracer shapes driven through "
        "the real PathTracer",
        "Proof: C01_agree_init, C01_agree_step, C01_agree_run (after every call of every history the machine driven by the "
        "emitted statements is where g.position and g.state.position say, on every known axis, in the reported mode), "
        "C01_trace_vertex (every vertex of every interpolated path is reached in either mode). Correspondence compares "
        "emitted motion statements, both positions and both modes after every call; an independent Python interpreter "
        "replays the real output.",
        "Trusted: as C02. Exact arithmetic: float rounding inside to_absolute and the 5-decimal output rounding are sampled "
        "(tolerance half a unit of the last decimal per word), not proved.",
        "DESIGN.md section 7 / C01",
    ),
    "C03": (
        "Lean 4 theorems over the Builder model (case analysis per command on the validation conjuncts, induction over "
        "interpolated paths) + differential correspondence with boundary-biased generation",
        "Proof: C03_axes_after_motion / C03_probe_target / C03_path_inside (every accepted motion, every segment of any path, "
        "lands inside the box in force), C03_words (F, S, T and temperature words inside their inclusive ranges on every "
        "statement any command writes), C03_nan, C03_accepts_inclusive; tied to the source by thousands of bounded histories "
        "per run, the implementation's output being re-interpreted by an independent oracle.",
        "Trusted: as C02. Bounds are finite; 'ulp' neighbours are sampled one grid step away; identity transform.",
        "DESIGN.md section 7 / C03",
    ),
    "C02": (
        "Lean 4 theorems over the hand-written Builder model (case analysis per command, induction over histories, an independent "
        "2-flag controller reading only emitted codes) + differential correspondence against the real GCodeBuilder",
        "Proof: C02_step_safe/C02_run_safe show for every builder state and every call history that each emitted statement is safe "
        "at the moment it is executed and that the reported flags mirror the emitted codes; C02_error_class and "
        "C02_reject_only_documented characterise exactly when the interlock API rejects. The model is tied to the source by running "
        "thousands of random histories per run on both and comparing outcome class, emitted codes and flags after every call. The enum->instruction table is *translated* from the source text of gscrib/codes/gcode_mappings.py into Lean on every run (tools/gen_code_table.py -> Gen/CodeTable.lean) and Tables_step_emits_table / Tables_rows_cover / Tables_emergency_codes re-proved: the codes the model writes are exactly the source table's.",
        "Trusted: Lean kernel (propext, Classical.choice, Quot.sound), Lean compiler for the driver, the hand-written model "
        "(tied by correspondence), the Python adapter/lexer; exact arithmetic on the dyadic grid; typeguard type errors not modelled.",
        "DESIGN.md section 7 / C02",
    ),
    "C05": (
        "Lean 4 theorems over the Builder model (every command validates before it commits: case analysis over all commands "
        "and all failing branches) + differential correspondence comparing the complete observable state after every call, "
        "rejected ones included",
        "Proof: C05_reject_state (builder unchanged by any rejected call, all states, all commands), C05_reject_silent_partial "
        "(nothing written, everywhere except one named call site), C05_future, C05_reject_noop; the excluded call site is a "
        "recorded known finding with a Lean witness replayed on the implementation every run.",
        "Trusted: as C02. Hooks are data-described (record / F limiter / extrusion); arbitrary user hooks are not modelled.",
        "DESIGN.md section 7 / C05",
    ),
    "C06": (
        "Lean 4 theorems over the Builder model for every builder value (no reachability hypothesis) + differential "
        "correspondence on histories ending in a shutdown call",
        "Proof: C06_tool_off, C06_power_off, C06_coolant_off, C06_emergency hold for every state and bounds table: the call "
        "succeeds, writes exactly M05 / M09 / M05 M09 comment M00|M30, and leaves the flags down; C06_emergency_safe. The enum->instruction table is *translated* from the source text of gscrib/codes/gcode_mappings.py into Lean on every run (tools/gen_code_table.py -> Gen/CodeTable.lean) and Tables_step_emits_table / Tables_rows_cover / Tables_emergency_codes re-proved: the codes the model writes are exactly the source table's.",
        "Trusted: as C02.",
        "DESIGN.md section 7 / C06",
    ),
    "C17": (
        "Lean 4 theorems over a hand-written model of _readline_socket/_readline_buf (induction over the event script "
        "and over the number of calls) + differential correspondence against the real Device on scripted sockets",
        "Proof: C17_refines_split - for every script of socket events ending with the peer closing, any fragmentation and "
        "any placement of time-outs, the lines returned are exactly the stream cut after each newline; byte conservation, "
        "one-line results and the buffer invariant for every script and every number of readline() calls; the model is tied to the source by running both on thousands of "
        "random streams x fragmentations x time-out placements per run (exhaustive small scope in the thorough tier).",
        "Trusted: Lean kernel (axioms propext, Quot.sound), Lean compiler for the driver binary, the hand-written model "
        "(tied by correspondence only), the Python harness scripting `_socketfile`/`_selector`; the OS socket layer is not modelled.",
        "DESIGN.md section 7 / C17",
    ),
}

# translator ties (harness/core.py GEN_TIES is the registry: which properties a tie serves is read from there)
TIE_TEXT = {
    "table": " Translator tie: the enum -> instruction table of gscrib/codes/gcode_mappings.py is regenerated on every run "
             "(tools/gen_code_table.py -> Gen/CodeTable.lean) and Props/Tables.lean re-proved: step emits exactly the table's instructions.",
    "state": " Translator tie: gscrib/gcode_state.py (every GState setter / validator, the enums) is translated by AST into Lean on every "
             "run (tools/gen_state.py -> Gen/StateSrc.lean) and Props/StateTie.lean (17 theorems, for every state and argument) re-proved: "
             "the builder model's state transitions - which check comes first, what is assigned and when - are exactly the translated "
             "methods; the translator itself is validated against the real class through driver mode gstate.",
    "builder": " 26 methods of gscrib/gcode_builder.py (tool/power/coolant on and off, tool_change, feed, power, temperatures, modes, "
               "sleep, fan, query, write, _track_move_params, _update_axes) are translated too (tools/gen_builder.py -> Gen/BuilderSrc.lean) and "
               "Props/BuilderTie.lean (22 theorems) re-proved: step rejects exactly when the translated method raises - which then has changed and "
               "written nothing - and otherwise yields the same state and the same statement (instruction from the translated table, same words).",
    "motion": " The motion and halt commands are translated across both classes (tools/gen_motion.py -> Gen/MotionSrc.lean: move, rapid, "
              "move_absolute, rapid_absolute with the absolute_mode() context manager inlined, set_axis, auto_home, probe, halt, wait/pause/stop, "
              "emergency_halt, comment, add_hook/remove_hook, the move_hook() context manager and their helpers in gscrib/gcode_builder.py and gscrib/gcode_core.py) and "
              "Props/MotionTie.lean (29 theorems incl. MotionTie_go_xf / _probe_xf / _goabs_xf / _setaxis_xf: move() / rapid() / probe() under any transformer state, the bypass moves and set_axis write exactly the C04 model's statements and track its position; MotionTie_transform_move_xf: the translated _transform_move with self.transform.apply_transform an arbitrary function is the C04 model's transformMove for every transformer state, tracked position, request and both modes; MotionTie_init: the translated constructors yield the model's initial builder, every tracked field assigned per object; set_length_units, the mode context managers as enter / exit pairs, and MotionTie_run: for every history the translated source yields the builder and the statements the model yields) re-proved for every state, finite target, parameter list and hook list: same outcome, same builder "
              "afterwards (a rejected call leaves it untouched: MotionTie_reject_unchanged/_silent), same statements in the same order "
              "(instruction, axis words, other words, the G90/G91 bracket), same hook calls with the true origin and target; Props/SourceTie.lean "
              "(SourceTie_C04_abs/_rel/_mentions/_machine/_bypass/_setaxis/_probe - C04's word, invariant and bypass theorems for the translated move()/rapid()/move_absolute()/set_axis()/probe() under any transformer state, the controller reading texts and X/Y/Z words only -, SourceTie_C01, SourceTie_C02 and their _new forms for histories from a newly constructed builder, SourceTie_C05 - erasing the rejected calls changes neither the final builder nor, away from the listed site, the output of the translated source -, SourceTie_C03 - every statement a translated command writes carries F and S words inside their ranges wherever the controller reads them -, SourceTie_C06 - the translated emergency_halt() succeeds from every state under every bounds table and writes M05, M09, the comment, M00|M30 -, SourceTie_C07, SourceTie_C11 - the translated move() given the waypoint in absolute mode and the offset in relative mode has the same outcome and tracks the same position -, SourceTie_C20 - a translated move() hands every registered hook, once and in order, the true absolute origin and target -; same audit) restates C01 and C02 for the translated source with machines that read instruction texts.",
    "point": " Translator tie: Point.resolve/replace/mask/combine/within_bounds of gscrib/geometry/point.py are translated by AST into Lean on "
             "every run (tools/gen_point.py -> Gen/PointSrc.lean) and Props/PointTie.lean re-proved: the models' point operations equal the "
             "translated methods; the translator is validated against the real class through driver mode point.",
    "bounds": " Translator tie: all of gscrib/geometry/bounds.py (BoundManager.set_bounds/get_bounds/validate, the property table) and the "
              "Point comparison methods are translated (tools/gen_bounds.py -> Gen/BoundsSrc.lean); Props/BoundsTie.lean (17 theorems): the "
              "model's bounds table, its validation of numbers and points and its rejections (a rejected set_bounds changes nothing) are the "
              "translated methods; validated against the real class through driver mode bounds.",
    "hook": " Translator tie: gscrib/hooks/extrusion_hook.py (factory and hook) is translated (tools/gen_hook.py -> Gen/HookSrc.lean); "
            "Props/HookTie.lean (5 theorems): the model's extrusion hook with k = nozzle*layer/(pi*(d/2)^2) is the translated hook, in both "
            "extrusion modes; validated through driver mode hook.",
    "socket": " Translator tie: Device._readline_buf/_readline_socket of gscrib/printrun/device.py are translated by AST on every run "
              "(tools/gen_socket.py -> Gen/SocketSrc.lean, the while loop as recursion over scripted read/select answers); Props/SocketTie.lean "
              "(5 theorems, no hypotheses): the model's readlineBuf/readlineSocket equal the translated methods for every buffer and script; "
              "validated against the real Device through driver mode socketsrc.",
    "report": " Translator tie: the report side of PrintrunWriter (gscrib/writers/printrun_writer.py: _on_device_message, _parse_message, "
              "_update_param, get_parameter, the prefix/axes constants and the text of VALUE_PATTERN) is translated (tools/gen_report.py -> "
              "Gen/ReportSrc.lean); Props/ReportTie.lean (10 theorems): the report model equals the translated methods, which never raise; "
              "validated against a real writer through driver mode reportsrc.",
    "xform": " Translator tie: Transform and CoordinateTransformer (gscrib/geometry/transform.py, transformer.py: 22 methods) and the context managers current_transform() / named_transform() of gscrib/gcode_core.py (as enter / exit pairs) are translated "
             "(tools/gen_xform.py -> Gen/XformSrc.lean) under an ownership discipline that makes a missing deepcopy a refusal; "
             "Props/XformTie.lean (28 theorems): pivot conjugation and multiplication order, inverse recomputed on every change, stack / named "
             "states / context-manager frames equal the model's, a rejected call leaves the object unchanged; validated through driver mode xform.",
    "recv": " Translator tie (reception): printcore._readline whole (both except branches, handler loop, callbacks, log), Device.has_flow_control and "
            "Device.is_connected (gscrib/printrun/printcore.py, device.py) are translated (tools/gen_recv.py -> Gen/RecvSrc.lean); Props/RecvTie.lean "
            "(8 theorems): every line longer than one character that is read is logged, handed to every handler in registration order and to recvcb "
            "exactly once whether the link is online or not, nothing else is delivered, has_flow_control depends on the device type alone (a serial "
            "port is never flow-controlled whatever dtr: the value the sender tie assumes); validated through driver mode recvsrc.",
    "gcoder": " Translator tie (job indexing): GCode.__len__ / has_index / idxs, the index bookkeeping of GCode._preprocess (build_layers branch: "
              "all_layers, layer_idxs, line_idxs; when a batch starts a new layer is an arbitrary oracle) and GCode.append of gscrib/printrun/gcoder.py "
              "are translated (tools/gen_gcoder.py -> Gen/GcoderSrc.lean); Props/GcoderTie.lean (7 theorems, by induction over the batches, no size bound): "
              "all_layers[idxs(k)] is the k-th line handed over, for every k, after any sequence of batches and appends - the list view the sender "
              "prelude assumes (GcoderTie_sender_view); the analyzer's reading of G92 (C01's cross-oracle: an offset for exactly the linear axes the line names) is pinned; validated through driver mode gcodersrc.",
    "writers": " Translator tie: the writer list of GCodeCore (add_writer, remove_writer, write, flush, teardown, __exit__) and FileWriter "
               "(gscrib/writers/file_writer.py) are translated (tools/gen_writers.py -> Gen/WritersSrc.lean); Props/WritersTie.lean (15 theorems "
               "incl. WritersTie_run for every history): the writers model equals the translated source; validated through driver mode writerssrc.",
    "tracer": " Translator tie: Direction.enforce/full_turn, to_absolute(_list)/to_distance_mode, PathTracer._filter_segments, estimate_length, "
              "parametric and the set-up arithmetic of arc/circle/helix/thread/spiral are translated generically over the scalar type "
              "(tools/gen_tracer.py -> Gen/TracerSrc.lean); Props/TracerTie.lean: the tracer model's functions equal the translated ones for every "
              "scalar type with the model's operations; validated through driver mode tracersrc.",
    "format": " Translator tie: every method of DefaultFormatter (gscrib/formatters/default_formatter.py) incl. the regex, replacement, count and "
              "comment-symbol table as constants is translated (tools/gen_format.py -> Gen/FormatSrc.lean); Props/FormatTie.lean (16 theorems): "
              "number guards, parameters ordering, command, comment sanitising order, line and the setters equal the formatter model; validated "
              "through driver mode formatsrc.",
    "sender": " Translator tie: the atomic sections of the bundled sender (gscrib/printrun/printcore.py: _sendnext in all its branches, _send "
              "with framing and _checksum, _reset_line_numbers, startprint, one trip of the _listen / _listen_until_online loop bodies) and the "
              "line preparation of gcoder.py are translated as sequential functions that record the whole object at every write "
              "(tools/gen_sender.py -> Gen/SenderSrc.lean); Props/SenderTie.lean (15 theorems): the model's sendnext / listen / frame / checksum "
              "/ prepare equal the translated code, clear is down and the resend cursor already advanced at the moment of each write "
              "(SenderTie_resend_cursor_at_write pins the order repaired by fix 940214b); validated against a real printcore object through "
              "driver mode sendersrc.",
    "dwrite": " Translator tie: the caller-side sections of PrintrunWriter (write cut at its blocking point into clear-ack/enqueue and "
              "wait/re-raise, the wait loops as one poll, disconnect, the pending predicate, the callbacks) and the printcore methods they rely "
              "on (send, startprint, the priority-queue and end-of-job branches of _sendnext) are translated (tools/gen_dwrite.py -> "
              "Gen/DirectWriteSrc.lean); Props/DirectWriteTie.lean (22 theorems): the model's caller / print-thread / callback actions equal "
              "the translated sections - the ack flag is lowered before the statement is handed over and the stored error is read after the "
              "wait; validated through driver mode dwritesrc.",
    "height": " Translator tie: the raster, sparse and flat heightmap classes (gscrib/heightmaps/) are translated around their external "
              "interpolants (tools/gen_height.py -> Gen/HeightSrc.lean); Props/HeightTie.lean (21 theorems): range checks, argument order of the "
              "interpolant, rounding (pyRound = roundHalfEven proved), segment counts, filtering and the setters equal the heightmap model; "
              "validated through driver mode heightsrc.",
}


def ties():
    import sys
    sys.path.insert(0, str(VERIF))
    from harness import core
    return {k: (set(t["props"]), TIE_TEXT[k]) for k, t in core.GEN_TIES.items()}


PENDING_REASON = "machinery for this property is not finished yet (build in progress, see DESIGN.md section 12); not claimed"


def main():
    props = [json.loads(l)["id"] for l in (VERIF / "properties.jsonl").read_text().splitlines() if l.strip()]
    extra = {}
    ef = VERIF / "tools" / "manifest_extra.json"
    if ef.exists():
        extra = json.loads(ef.read_text())
    checks, na = [], []
    for pid in props:
        if pid in CLAIMED:
            tech, text, note, ref = CLAIMED[pid]
            for props_, note_ in ties().values():
                if pid in props_:
                    tech += note_
            checks.append({
                "property_id": pid,
                "quick_cmd": f"/venv/bin/python run.py check {pid} --tier quick",
                "thorough_cmd": f"/venv/bin/python run.py check {pid} --tier thorough",
                "evidence_file": f"evidence/{pid}.json",
                "replay_cmd_template": f"/venv/bin/python run.py check {pid} --replay {{path}}",
                "engine": "lean4-model+correspondence",
                "level_claimed": {"category": "proof", "text": text, "design_ref": ref},
                "level_note": note,
                "technique": tech,
            })
        else:
            na.append({"property_id": pid, "reason": extra.get("na", {}).get(pid, PENDING_REASON)})
    man = {
        "version": 1,
        "setup_cmd": "cd lean && lake build",
        "hooks": {
            "guard": "GSCRIB_VERIF",
            "enable": "none needed: checks import gscrib from /repo's working tree and observe it through public API, "
                      "instance-level wrapping and replaced serial/socket objects (no source hooks)",
            "baseline_off_cmd": BASELINE,
            "source_commits": [],
            "add_only": True,
        },
        "engines": [{
            "name": "lean4-model+correspondence",
            "path": "lean/ (lake project GscribModel, driver binary) + harness/ + run.py",
            "serves_properties": sorted(CLAIMED),
            "kind_free_text": "Lean 4.33 theorems over executable models - hand-written, with large parts of the code (state class, "
                              "builder commands incl. motion and halts, point algebra, bounds, instruction table, formatter, transformer, "
                              "writers, tracer set-up and filter, socket line splitting, report parsing, heightmaps, extrusion hook) "
                              "translated from the source text on every run and tied to the hand-written models by re-proved theorems; "
                              "every run re-builds, audits axioms, and runs the model driver and the real Python code on the same "
                              "generated cases",
        }],
        "checks": checks,
        "notes": "Exit codes: 0 held, 1 VIOLATION, 2 infrastructure. known_findings.json lists genuine defects (fixed / finding).",
        "not_applicable": na,
    }
    (VERIF / "MANIFEST.json").write_text(json.dumps(man, indent=1) + "\n")
    try:
        import jsonschema
        jsonschema.validate(man, json.loads(Path("/root/.vp/MANIFEST.schema.json").read_text()))
        print("MANIFEST.json valid;", len(checks), "claimed,", len(na), "not claimed")
    except ImportError:
        print("MANIFEST.json written (jsonschema not available to validate)")


if __name__ == "__main__":
    main()

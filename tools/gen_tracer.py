#!/usr/bin/env python3
"""Translator: gscrib/geometry/tracer.py (class PathTracer) + the helpers it rests on  ->  GscribModel/Gen/TracerSrc.lean

Reads the *source text* (by AST; nothing is imported or executed) of

  gscrib/enums/types/direction.py      Direction.enforce, Direction.full_turn
  gscrib/geometry/point.py             Point.__add__, Point.__sub__            (on resolved points)
  gscrib/gcode_core.py                 GCodeCore.to_absolute, to_absolute_list, to_distance_mode
  gscrib/geometry/tracer.py            PathTracer._filter_segments, estimate_length, parametric, polyline, arc, arc_radius,
                                       circle, helix, thread, spiral, spline   (every method of the class)

and writes each as a Lean function that follows the source statement by statement, generic over a scalar type `K`
and the record `Trig K` of `Model/Tracer.lean` (so the same text is proved about at every `K` and executed at
`Float`).  `Props/TracerTie.lean` proves the hand-written tracer model (C10, C11, C12) equal to these functions.

What a translated function is
  * `Direction.m (T) (self : Bool) …`          `self` is `self is Direction.CLOCKWISE` (the enum must have exactly the
                                               members CLOCKWISE and COUNTER, checked)
  * `GCodeCore.m (self_is_relative : Bool) (self_current_axes : PL K) …`
                                               the two attributes these methods read (`self.distance_mode.is_relative`,
                                               `self._current_axes`; the properties `position`, `distance_mode` and
                                               `DistanceMode.is_relative` are checked to be the plain accessors they are)
  * `PathTracer.m (T) (g_direction g_is_relative : Bool) (g_position : PL K) (g_resolution : K) …`
                                               what the tracer reads off its builder: `self._g.state.direction`,
                                               `self._g.distance_mode.is_relative`, `self._g.position`, `self._g.state.resolution`
  * a method that can `raise` returns `Option …` (`none` = the exception; only `ValueError` occurs);
  * a method whose last statement is the call `self.parametric(f, length, **kwargs)` / `self.arc(…)` / `self.helix(…)`
    is written three times: `m_args` stops at that call and returns what is handed to the final `self.parametric` (the
    set-up arithmetic: the path function and its length), `m` follows the calls down to the final loop of `parametric`
    (the vertices that loop walks), `m_moves` is the whole method (the points handed to `self._g.move`, in order);
  * the loop that calls `self._g.move(p, **kwargs)` (the last statement of `parametric` and of `polyline`) is a fold like
    any other loop, over the state (`self._g.position`, the list of points handed to `move` so far) besides the
    variables its body assigns: the statement `self._g.move(p, **kwargs)` appends `p` to that list and replaces the
    position by `moveEffect position p`.  `moveEffect` is a *parameter* of the `…_moves` functions (`GCodeCore.move` is
    translated by `gen_motion.py`; the tie theorems state what they assume about it); inside the loop
    `self._g.position` / `to_distance_mode` read the position reached so far.  In the variants `m` (vertices) the method
    stops at that loop and returns what it walks (`parametric`: `(Point(*t) for t in points)`, `polyline`:
    `self._g.to_absolute_list(targets)`);
  * `np.copysign` and scipy's `CubicSpline(x, y)` (as the function `θ ↦ s(θ)`) are parameters (`np_copysign`, `CubicSpline`)
    of the functions that use them - they are never given a meaning here.

The subset understood (anything else makes the translator refuse with exit status 3 - it never guesses):
  statements   docstring; `x = e`; `x -= e`, `x += e`; `xs.append(e)`; `mask[i] = e`; `if c: … [else: …]` (a branch that
               contains a `return` / `raise` / `continue` takes the rest of the block into both branches - every path is
               followed to its end -, otherwise the variables assigned in the branches are joined; a variable first
               assigned there must be assigned, with one type, by both branches); `for x in xs:` /
               `for i, x in enumerate(xs):` without `break` / `return` (a left fold over the variables assigned in the
               body); `continue`; `return e`; `raise ValueError(...)` (message dropped); a nested
               `def f(thetas: np.ndarray)` made of assignments and a `return`; a final `self.m(args, **kwargs)`;
               `self._g.move(p, **kwargs)` inside the final loop of a method (see above)
  expressions  names; numbers (`0 1 2 10` as scalars, decimal literals as `OfScientific` literals, ints as `Nat`/`Int`
               where an `int` is expected); `+ - * /` on scalars, `+ -` on resolved points, unary minus; `2 * math.pi`
               and `-2 * math.pi` (= `T.twoPi`, `-T.twoPi`: negation is exact); float * int (`ofInt`); comparisons
               `< <= > >=` (`a >= b` is written `b ≤ a`); `==` / `!=` of two floats (`pyEq`: neither is less than the
               other) and of two resolved points (`pyEqV3`), of two booleans, `direction == Direction.CLOCKWISE` (= `is`);
               `and` / `or`; `x ** 2` (= `x * x`); `self is Direction.CLOCKWISE`; `not`; `a if c else b`;
               `p.x p.y p.z` of a resolved point; `len(p)`, `len(xs)`; `abs int max`; a tuple `(a, b)` / `(a, b, c)` of
               numbers (a `PointLike` of that length); `[p]`; `[e for c in xs]`, `(e for t in xs)` (`List.map`); `xs[-1]`
               (`pyLast`); `np.copysign(a, b)`; `CubicSpline(x, y)` and `s(thetas)` of the result;
               `Point(*p)` (of a resolved point / array row: the same three numbers), `Point(a, b)`, `Point(a, b, c)`,
               `.resolve()`, `.replace(*p)`; `np.hypot arctan2 cos sin sqrt isclose(…, rtol=…) column_stack linspace(0, 1, n)
               diff(…, axis=0) linalg.norm(…, axis=1) ones(len(…), dtype=bool) vstack([row, rows])`, `.sum()`, `.size`,
               `a[:-1] a[1:] a[0] a[mask]`, `enumerate`; `f(array)` for a path function (element-wise: `List.map`);
               calls of the translated methods.
Assumptions (recorded in DESIGN §6 / REPORT): `@typechecked` enforces the annotations (`PointLike` = up to three optional
numbers + its `len`, `int`, `float`); `**kwargs` only travel to `move`; numpy arithmetic on arrays is element-wise; the
numpy / builtin primitives are the ones of `Model/TracerPrelude.lean`; `Point.resolve` / `Point.replace` are the model's
`PL.resolve` / `PL.replaceIn` (tied at `Option Rat` by `PointTie_resolve` / `PointTie_replace`); `self._g.move` changes, of
what the tracer reads, only `self._g.position`.

usage: gen_tracer.py [repo_root] [--out FILE | --stdout]
"""
import ast
import os
import sys
from pathlib import Path

V = Path(__file__).resolve().parent.parent
OUT = V / "lean" / "GscribModel" / "Gen" / "TracerSrc.lean"

LEAN_KEYWORDS = {
    "do", "at", "from", "end", "in", "then", "else", "fun", "let", "have", "show", "open", "if", "match", "with", "by",
    "where", "def", "theorem", "Type", "Prop", "Sort", "universe", "variable", "namespace", "section", "instance",
    "class", "structure", "deriving", "import", "mutual", "macro", "syntax", "notation", "set_option", "attribute",
    "local", "private", "protected", "partial", "unsafe", "noncomputable", "extends", "export", "using", "for",
    "unless", "return", "try", "catch", "finally", "nomatch", "nofun", "calc", "suffices", "this", "example", "abbrev",
    "inductive", "axiom", "opaque", "mut", "true", "false", "some", "none", "max", "min", "id", "T", "K", "Trig", "V3", "PL",
}

TRACER_CTX = "T g_direction g_is_relative g_position g_resolution"
TRACER_SIG = "(T : Trig K) (g_direction g_is_relative : Bool) (g_position : PL K) (g_resolution : K)"
CORE_SIG = "(self_is_relative : Bool) (self_current_axes : PL K)"


class Unsupported(Exception):
    pass


def fail(node, what):
    raise Unsupported(f"line {getattr(node, 'lineno', '?')}: {what}")


def mangle(name: str) -> str:
    return f"«{name}»" if name in LEAN_KEYWORDS else name


def lean_type(t) -> str:
    if isinstance(t, tuple):
        if t[0] == "opt":
            return f"Option ({lean_type(t[1])})"
        if t[0] == "prod":
            return prod_type([lean_type(x) for x in t[1]])
        if t[0] == "list":
            inner = lean_type(t[1])
            return f"List {inner}" if inner.isidentifier() else f"List ({inner})"
    return {"K": "K", "V3": "V3 K", "PL": "PL K", "Bool": "Bool", "Dir": "Bool", "Nat": "Nat", "Int": "Int", "Fn": "K → V3 K", "Fn1": "K → K"}[t]


def prod_type(parts) -> str:
    return " × ".join(p if p.isidentifier() else f"({p})" for p in parts)


def proj(base: str, i: int, n: int) -> str:
    """i-th component of a right-nested n-tuple"""
    if n == 1:
        return base
    return base + ".2" * i + (".1" if i < n - 1 else "")


def tuple_of(names) -> str:
    return names[0] if len(names) == 1 else "(" + ", ".join(names) + ")"


def is_docstring(st) -> bool:
    return isinstance(st, ast.Expr) and isinstance(st.value, ast.Constant) and isinstance(st.value.value, str)


def terminates(stmts) -> bool:
    """does every path through the block end in return / raise / continue?"""
    if not stmts:
        return False
    last = stmts[-1]
    if isinstance(last, (ast.Return, ast.Raise, ast.Continue)):
        return True
    if isinstance(last, ast.If):
        return terminates(last.body) and terminates(last.orelse)
    return False


def exits(stmts) -> bool:
    """does the block contain a return / raise / continue anywhere (nested functions aside)?"""
    for st in stmts:
        if isinstance(st, (ast.Return, ast.Raise, ast.Continue)):
            return True
        if isinstance(st, ast.If) and (exits(st.body) or exits(st.orelse)):
            return True
        if isinstance(st, ast.For) and (exits(st.body) or exits(st.orelse)):
            return True
    return False


def is_move(node) -> bool:
    return isinstance(node, ast.Call) and ast.unparse(node.func) == "self._g.move"


def has_move(st) -> bool:
    return any(is_move(n) for n in ast.walk(st))


def assigned_names(stmts) -> list:
    """names (re)bound by the statements of a block, in order of first occurrence"""
    out = []

    def add(n):
        if n not in out:
            out.append(n)

    for st in stmts:
        if isinstance(st, ast.Assign):
            for tg in st.targets:
                if isinstance(tg, ast.Name):
                    add(tg.id)
                elif isinstance(tg, ast.Subscript) and isinstance(tg.value, ast.Name):
                    add(tg.value.id)
                else:
                    fail(st, f"assignment target {ast.unparse(tg)}")
        elif isinstance(st, ast.AugAssign):
            if not isinstance(st.target, ast.Name):
                fail(st, "augmented assignment target")
            add(st.target.id)
        elif isinstance(st, ast.Expr) and isinstance(st.value, ast.Call) and isinstance(st.value.func, ast.Attribute) \
                and st.value.func.attr == "append" and isinstance(st.value.func.value, ast.Name):
            add(st.value.func.value.id)
        elif isinstance(st, ast.If):
            for n in assigned_names(st.body) + assigned_names(st.orelse):
                add(n)
        elif isinstance(st, ast.For):
            for n in assigned_names(st.body):
                add(n)
        elif isinstance(st, ast.FunctionDef):
            add(st.name)
    return out


class Fn:
    """a function being translated"""

    def __init__(self, cls, node, variant=""):
        self.cls, self.node, self.variant = cls, node, variant
        self.may_raise = any(isinstance(n, ast.Raise) for n in ast.walk(node))
        self.ret = None            # type of the value (inside the Option when may_raise)
        self.sci = False           # uses a decimal literal (needs `OfScientific K`)
        self.len_params = []
        self.local_len = {}        # local name bound to a tuple literal -> its `len`
        self.extra = []            # primitives that stay parameters: CubicSpline, np_copysign, moveEffect
        self.in_move_loop = False
        self.has_moves = False


class T:
    def __init__(self, repo: Path):
        self.repo = repo
        self.done = {}       # lean name -> Fn (translated so far)
        self.out = []
        self.load()

    # ------------------------------------------------------------------ sources
    def cls_methods(self, rel, cname):
        tree = ast.parse((self.repo / rel).read_text())
        cls = [n for n in tree.body if isinstance(n, ast.ClassDef) and n.name == cname]
        if len(cls) != 1:
            raise Unsupported(f"{rel}: class {cname} not found")
        return cls[0], {n.name: n for n in cls[0].body if isinstance(n, ast.FunctionDef)}

    def load(self):
        self.src = {}
        dcls, self.src["Direction"] = self.cls_methods("gscrib/enums/types/direction.py", "Direction")
        members = [st.targets[0].id for st in dcls.body if isinstance(st, ast.Assign) and len(st.targets) == 1
                   and isinstance(st.targets[0], ast.Name) and st.targets[0].id.isupper()]
        if members != ["CLOCKWISE", "COUNTER"]:
            raise Unsupported(f"Direction members are {members}, expected CLOCKWISE, COUNTER")
        _, self.src["Point"] = self.cls_methods("gscrib/geometry/point.py", "Point")
        _, self.src["GCodeCore"] = self.cls_methods("gscrib/gcode_core.py", "GCodeCore")
        _, self.src["PathTracer"] = self.cls_methods("gscrib/geometry/tracer.py", "PathTracer")
        # the accessors the translation reads through
        self.accessor("GCodeCore", "position", "self._current_axes")
        self.accessor("GCodeCore", "distance_mode", "self._distance_mode")
        _, dm = self.cls_methods("gscrib/enums/types/distance_mode.py", "DistanceMode")
        self.src["DistanceMode"] = dm
        self.accessor("DistanceMode", "is_relative", "self == DistanceMode.RELATIVE")
        init = self.src["PathTracer"].get("__init__")
        body = [s for s in (init.body if init else []) if not is_docstring(s)]
        if not init or [ast.unparse(s) for s in body] != ["self._g = builder"]:
            raise Unsupported("PathTracer.__init__ is not `self._g = builder`")

    def accessor(self, cname, name, text):
        m = self.src[cname].get(name)
        body = [s for s in (m.body if m else []) if not is_docstring(s)]
        decos = [ast.unparse(d) for d in (m.decorator_list if m else [])]
        if m is None or decos != ["property"] or len(body) != 1 or not isinstance(body[0], ast.Return) \
                or ast.unparse(body[0].value) != text:
            raise Unsupported(f"{cname}.{name} is not the property `return {text}`")

    # ------------------------------------------------------------------ literals
    def number(self, e, want, fn):
        v = e.value
        if isinstance(v, bool) or not isinstance(v, (int, float)):
            fail(e, f"constant {v!r}")
        if want == "K" or (want is None and isinstance(v, float)):
            if isinstance(v, int):
                if v not in (0, 1, 2, 10):
                    fail(e, f"scalar literal {v} (only 0, 1, 2, 10 are available in every K)")
                return f"({v} : K)", "K"
            fn.sci = True
            return f"({v!r} : K)", "K"
        if isinstance(v, int) and want == "Nat" and v >= 0:
            return str(v), "Nat"
        if isinstance(v, int) and want == "Int":
            return f"({v} : Int)", "Int"
        fail(e, f"cannot type the literal {v!r} (expected {want})")

    @staticmethod
    def is_num(e):
        return isinstance(e, ast.Constant) and isinstance(e.value, (int, float)) and not isinstance(e.value, bool)

    def pair(self, a, b, env, fn, want=None):
        """type two operands, letting a literal take the type of the other side"""
        if self.is_num(a) and not self.is_num(b):
            tb, yb = self.expr(b, env, fn, want)
            ta, ya = self.expr(a, env, fn, yb)
        else:
            ta, ya = self.expr(a, env, fn, want)
            tb, yb = self.expr(b, env, fn, ya if self.is_num(b) else None)
        return ta, ya, tb, yb

    @staticmethod
    def two_pi(e):
        """`2 * math.pi` -> +1, `-2 * math.pi` -> -1, else 0"""
        if isinstance(e, ast.BinOp) and isinstance(e.op, ast.Mult) and ast.unparse(e.right) == "math.pi":
            if ast.unparse(e.left) == "2":
                return 1
            if ast.unparse(e.left) == "-2":
                return -1
        return 0

    def as_pl(self, e, env, fn):
        """an argument in a `PointLike` position -> (text : PL K, text of its len or None)"""
        t, ty = self.expr(e, env, fn)
        if ty == "PL":
            ln = f"{t}_len" if isinstance(e, ast.Name) and e.id in fn.len_params else None
            if isinstance(e, ast.Name) and e.id in fn.local_len:
                ln = str(fn.local_len[e.id])
            return t, ln
        if ty == "V3":
            return f"(V3.toPL {t})", "3"          # a `Point` is a 3-tuple
        fail(e, f"{ast.unparse(e)} : {ty} where a PointLike is expected")

    # ------------------------------------------------------------------ expressions
    def expr(self, e, env, fn, want=None):
        if isinstance(e, ast.Constant):
            if isinstance(e.value, bool):
                return ("true" if e.value else "false"), "Bool"
            return self.number(e, want, fn)
        if isinstance(e, ast.Name):
            if e.id in env:
                return mangle(e.id), env[e.id]
            fail(e, f"unknown name {e.id}")
        if isinstance(e, ast.Attribute):
            src = ast.unparse(e)
            if fn.cls == "PathTracer":
                known = {"self._g.position": ("g_position", "PL"), "self._g.state.direction": ("g_direction", "Dir"),
                         "self._g.state.resolution": ("g_resolution", "K")}
                if src in known:
                    return known[src]
            if fn.cls == "GCodeCore":
                known = {"self._current_axes": ("self_current_axes", "PL"), "self.distance_mode.is_relative": ("self_is_relative", "Bool")}
                if src in known:
                    return known[src]
            if e.attr in ("x", "y", "z"):
                t, ty = self.expr(e.value, env, fn)
                if ty == "V3":
                    return f"{t}.{e.attr}", "K"
                fail(e, f"coordinate of {ty} (only resolved points have numeric coordinates)")
            if e.attr == "size":
                t, ty = self.expr(e.value, env, fn)
                if ty == ("list", "V3"):
                    return f"(npSize {t})", "Nat"
            fail(e, f"attribute {src}")
        if isinstance(e, ast.UnaryOp):
            if isinstance(e.op, ast.USub) and not self.is_num(e.operand):
                t, ty = self.expr(e.operand, env, fn, want)
                if ty == "K":
                    return f"(-{t})", "K"
            if isinstance(e.op, ast.Not):
                t, ty = self.expr(e.operand, env, fn)
                if ty == "Bool":
                    return f"(!{t})", "Bool"
                if ty == "Prop":
                    return f"(!decide {t})", "Bool"
            fail(e, f"unary operator in {ast.unparse(e)}")
        if isinstance(e, ast.BinOp):
            s = self.two_pi(e)
            if s:
                return ("T.twoPi" if s > 0 else "(-T.twoPi)"), "K"
            if isinstance(e.op, ast.Pow) and ast.unparse(e.right) == "2":
                t, ty = self.expr(e.left, env, fn, "K")
                if ty != "K":
                    fail(e, f"square of {ty}")
                return f"({t} * {t})", "K"                  # `x ** 2` is `x * x`
            sym = {ast.Add: "+", ast.Sub: "-", ast.Mult: "*", ast.Div: "/"}.get(type(e.op))
            if sym is None:
                fail(e, f"operator in {ast.unparse(e)}")
            ta, ya, tb, yb = self.pair(e.left, e.right, env, fn, want if want in ("K", "Nat", "Int") else None)
            if ya == "K" and yb == "K":
                return f"({ta} {sym} {tb})", "K"
            if ya == "V3" and yb == "V3" and sym in "+-":
                return f"(Point.{'add' if sym == '+' else 'sub'} {ta} {tb})", "V3"
            if ya == "K" and yb == "Int" and sym == "*":
                return f"({ta} * ofInt T {tb})", "K"
            if ya == yb and ya in ("Nat", "Int") and sym in "+-" and not (ya == "Nat" and sym == "-"):
                return f"({ta} {sym} {tb})", ya
            fail(e, f"{ast.unparse(e)}: {ya} {sym} {yb}")
        if isinstance(e, ast.Compare):
            if len(e.ops) != 1:
                fail(e, "chained comparison")
            op, a, b = e.ops[0], e.left, e.comparators[0]
            if isinstance(op, ast.Is) and ast.unparse(b) == "Direction.CLOCKWISE":
                t, ty = self.expr(a, env, fn)
                if ty == "Dir":
                    return t, "Bool"
                fail(e, f"`is Direction.CLOCKWISE` on {ty}")
            if isinstance(op, (ast.Eq, ast.NotEq)):
                neg = "!" if isinstance(op, ast.NotEq) else ""
                if ast.unparse(b) == "Direction.CLOCKWISE":          # enum members are singletons: `==` is `is`
                    t, ty = self.expr(a, env, fn)
                    if ty == "Dir":
                        return (f"(!{t})" if neg else t), "Bool"
                    fail(e, f"`== Direction.CLOCKWISE` on {ty}")
                ta, ya, tb, yb = self.pair(a, b, env, fn)
                if ya == "K" and yb == "K":
                    return f"({neg}pyEq {ta} {tb})", "Bool"
                if ya == "V3" and yb == "V3":
                    return f"({neg}pyEqV3 {ta} {tb})", "Bool"
                if ya in ("Bool", "Prop") and yb in ("Bool", "Prop"):
                    return f"({neg}({self.as_bool(ta, ya)} == {self.as_bool(tb, yb)}))", "Bool"
                fail(e, f"`==` of {ya} with {yb}")
            ta, ya, tb, yb = self.pair(a, b, env, fn)
            if ya != yb or ya not in ("K", "Nat", "Int"):
                fail(e, f"comparison of {ya} with {yb}")
            form = {ast.LtE: f"{ta} ≤ {tb}", ast.Lt: f"{ta} < {tb}", ast.GtE: f"{tb} ≤ {ta}", ast.Gt: f"{tb} < {ta}"}.get(type(op))
            if form is None:
                fail(e, f"operator in {ast.unparse(e)}")
            return f"({form})", "Prop"
        if isinstance(e, ast.BoolOp):
            parts = []
            for v in e.values:
                t, ty = self.expr(v, env, fn)
                if ty not in ("Bool", "Prop"):
                    fail(e, f"`and` / `or` of {ty}")
                parts.append(self.as_bool(t, ty))
            return "(" + (" || " if isinstance(e.op, ast.Or) else " && ").join(parts) + ")", "Bool"
        if isinstance(e, ast.Tuple) and len(e.elts) in (2, 3):        # a tuple of numbers in a `PointLike` position
            parts = []
            for a in e.elts:
                t, ty = self.expr(a, env, fn, "K")
                if ty != "K":
                    fail(e, f"tuple of {ty}")
                parts.append(f"some {t}")
            parts += ["none"] * (3 - len(parts))
            return "(⟨" + ", ".join(parts) + "⟩ : PL K)", "PL"
        if isinstance(e, ast.List) and len(e.elts) == 1:
            t, ty = self.expr(e.elts[0], env, fn)
            if ty != "V3":
                fail(e, f"list literal of {ty}")
            return f"[{t}]", ("list", ty)
        if isinstance(e, (ast.ListComp, ast.GeneratorExp)):
            if len(e.generators) != 1 or e.generators[0].ifs or e.generators[0].is_async \
                    or not isinstance(e.generators[0].target, ast.Name):
                fail(e, "comprehension")
            it, ity = self.expr(e.generators[0].iter, env, fn)
            if not (isinstance(ity, tuple) and ity[0] == "list" and isinstance(ity[1], str)):
                fail(e, f"comprehension over {ity}")
            x = e.generators[0].target.id
            t, ty = self.expr(e.elt, dict(env, **{x: ity[1]}), fn)
            if not isinstance(ty, str) or ty in ("Prop", "Fn", "Fn1"):
                fail(e, f"comprehension of {ty}")
            return f"(List.map (fun ({mangle(x)} : {lean_type(ity[1])}) => {t}) {it})", ("list", ty)
        if isinstance(e, ast.IfExp):
            c, cty = self.expr(e.test, env, fn)
            if cty not in ("Bool", "Prop"):
                fail(e, "condition")
            ta, ya, tb, yb = self.pair(e.body, e.orelse, env, fn, want)
            if ya != yb:
                fail(e, f"conditional of {ya} and {yb}")
            return f"(if {c} then {ta} else {tb})", ya
        if isinstance(e, ast.Subscript):
            t, ty = self.expr(e.value, env, fn)
            if not (isinstance(ty, tuple) and ty[0] == "list"):
                fail(e, f"subscript of {ty}")
            s = ast.unparse(e.slice)
            if s == ":-1":
                return f"(List.dropLast {t})", ty
            if s == "1:":
                return f"(List.drop 1 {t})", ty
            if s == "0" and ty == ("list", "V3"):
                return f"(npRow {t} 0)", "V3"
            if s == "-1" and ty == ("list", "V3"):
                return f"(pyLast {t})", "V3"
            if isinstance(e.slice, ast.Name):
                m, mty = self.expr(e.slice, env, fn)
                if mty == ("list", "Bool"):
                    return f"(npMask {t} {m})", ty
            fail(e, f"subscript {ast.unparse(e)}")
        if isinstance(e, ast.Call):
            return self.call(e, env, fn, want)
        fail(e, f"expression {ast.unparse(e)}")

    def args_k(self, e, n, env, fn):
        if len(e.args) != n or e.keywords:
            fail(e, f"{ast.unparse(e.func)} takes {n} positional arguments")
        out = []
        for a in e.args:
            t, ty = self.expr(a, env, fn, "K")
            if ty != "K":
                fail(a, f"{ast.unparse(a)} : {ty}, scalar expected")
            out.append(t)
        return out

    def call(self, e, env, fn, want):
        f = ast.unparse(e.func)
        kw = {k.arg: k.value for k in e.keywords}
        # ---- numpy scalar functions
        if f in ("np.hypot", "np.arctan2"):
            a, b = self.args_k(e, 2, env, fn)
            return f"(T.{ {'np.hypot': 'hypot', 'np.arctan2': 'atan2'}[f]} {a} {b})", "K"
        if f in ("np.cos", "np.sin", "np.sqrt"):
            (a,) = self.args_k(e, 1, env, fn)
            return f"(T.{f[3:]} {a})", "K"
        if f == "np.isclose":
            if len(e.args) != 2 or list(kw) != ["rtol"]:
                fail(e, "np.isclose(a, b, rtol=…) expected")
            a, ya = self.expr(e.args[0], env, fn, "K")
            b, yb = self.expr(e.args[1], env, fn, "K")
            r, yr = self.expr(kw["rtol"], env, fn, "K")
            if (ya, yb, yr) != ("K", "K", "K"):
                fail(e, "np.isclose on non-scalars")
            fn.sci = True
            return f"(npIsClose {r} {a} {b})", "Bool"
        if f == "np.copysign":
            a, b = self.args_k(e, 2, env, fn)
            self.need(fn, "np_copysign")
            return f"(np_copysign {a} {b})", "K"
        if f == "CubicSpline":
            if len(e.args) != 2 or kw:
                fail(e, "CubicSpline(x, y) expected")
            a, ya = self.expr(e.args[0], env, fn)
            b, yb = self.expr(e.args[1], env, fn)
            if ya != ("list", "K") or yb != ("list", "K"):
                fail(e, f"CubicSpline of {ya}, {yb}")
            self.need(fn, "CubicSpline")
            return f"(CubicSpline {a} {b})", "Fn1"
        if f == "abs":
            (a,) = self.args_k(e, 1, env, fn)
            return f"(pyAbs {a})", "K"
        if f == "int":
            (a,) = self.args_k(e, 1, env, fn)
            return f"(T.truncNat {a})", "Nat"
        if f == "max" and len(e.args) == 2 and not kw:
            ta, ya, tb, yb = self.pair(e.args[0], e.args[1], env, fn, "Nat")
            if (ya, yb) != ("Nat", "Nat"):
                fail(e, f"max of {ya}, {yb}")
            return f"(max {ta} {tb})", "Nat"
        if f == "len" and len(e.args) == 1 and not kw:
            a = e.args[0]
            if isinstance(a, ast.Name) and env.get(a.id) == "PL":
                if a.id not in fn.len_params:
                    fail(e, f"len({a.id}) of a point without a recorded length")
                return f"{mangle(a.id)}_len", "Nat"
            t, ty = self.expr(a, env, fn)
            if isinstance(ty, tuple) and ty[0] == "list":
                return f"(List.length {t})", "Nat"
            fail(e, f"len of {ty}")
        # ---- numpy arrays
        if f == "np.column_stack":
            if len(e.args) != 1 or kw or not isinstance(e.args[0], ast.Tuple) or len(e.args[0].elts) != 3:
                fail(e, "np.column_stack((x, y, z)) expected")
            parts = []
            for a in e.args[0].elts:
                t, ty = self.expr(a, env, fn, "K")
                if ty != "K":
                    fail(a, "column of non-scalars")
                parts.append(t)
            return "(⟨" + ", ".join(parts) + "⟩ : V3 K)", "V3"
        if f == "np.linspace":
            if len(e.args) != 3 or kw or ast.unparse(e.args[0]) != "0" or ast.unparse(e.args[1]) != "1":
                fail(e, "np.linspace(0, 1, n) expected")
            n, ny = self.expr(e.args[2], env, fn, "Nat")
            if ny == "Int":
                n = f"(Int.toNat {n})"
            elif ny != "Nat":
                fail(e, f"np.linspace count of type {ny}")
            return f"(npLinspace01 T {n})", ("list", "K")
        if f == "np.diff":
            if len(e.args) != 1 or list(kw) != ["axis"] or ast.unparse(kw["axis"]) != "0":
                fail(e, "np.diff(a, axis=0) expected")
            t, ty = self.expr(e.args[0], env, fn)
            if ty != ("list", "V3"):
                fail(e, f"np.diff of {ty}")
            return f"(npDiff {t})", ty
        if f == "np.linalg.norm":
            if len(e.args) != 1 or list(kw) != ["axis"] or ast.unparse(kw["axis"]) != "1":
                fail(e, "np.linalg.norm(a, axis=1) expected")
            t, ty = self.expr(e.args[0], env, fn)
            if ty != ("list", "V3"):
                fail(e, f"np.linalg.norm of {ty}")
            return f"(npNormRows T.sqrt {t})", ("list", "K")
        if f == "np.ones":
            if len(e.args) != 1 or list(kw) != ["dtype"] or ast.unparse(kw["dtype"]) != "bool":
                fail(e, "np.ones(n, dtype=bool) expected")
            n, ny = self.expr(e.args[0], env, fn, "Nat")
            if ny != "Nat":
                fail(e, "np.ones count")
            return f"(List.replicate {n} true)", ("list", "Bool")
        if f == "np.vstack":
            if len(e.args) != 1 or kw or not isinstance(e.args[0], ast.List) or len(e.args[0].elts) != 2:
                fail(e, "np.vstack([row, rows]) expected")
            a, ya = self.expr(e.args[0].elts[0], env, fn)
            b, yb = self.expr(e.args[0].elts[1], env, fn)
            if ya != "V3" or yb != ("list", "V3"):
                fail(e, f"np.vstack of {ya}, {yb}")
            return f"({a} :: {b})", yb
        if f == "enumerate" and len(e.args) == 1 and not kw:
            t, ty = self.expr(e.args[0], env, fn)
            if not (isinstance(ty, tuple) and ty[0] == "list"):
                fail(e, f"enumerate of {ty}")
            return f"(pyEnumerate {t})", ("list", ("prod", ["Nat", ty[1]]))
        # ---- points
        if f == "Point":
            if kw:
                fail(e, "Point with keywords")
            if len(e.args) == 1 and isinstance(e.args[0], ast.Starred):
                t, ty = self.expr(e.args[0].value, env, fn)
                if ty == "V3":                    # a row of an (N, 3) array / a resolved point: the same three numbers
                    return t, "V3"
                if ty != "PL":
                    fail(e, f"Point(*p) of {ty}")
                return t, "PL"
            parts = self.args_k(e, len(e.args), env, fn)
            if len(parts) == 3:
                return "(⟨" + ", ".join(parts) + "⟩ : V3 K)", "V3"
            if len(parts) == 2:
                return f"(⟨some {parts[0]}, some {parts[1]}, none⟩ : PL K)", "PL"
            fail(e, "Point(...) with other than 2 or 3 coordinates")
        if isinstance(e.func, ast.Attribute):
            recv, meth = e.func.value, e.func.attr
            rs = ast.unparse(recv)
            # ---- translated methods
            if fn.cls == "PathTracer" and rs == "self._g" and meth in ("to_absolute", "to_distance_mode", "to_absolute_list"):
                if len(e.args) != 1 or kw:
                    fail(e, f"{meth}(p) expected")
                if meth == "to_absolute_list":
                    t, ty = self.expr(e.args[0], env, fn)
                    if ty != ("list", "PL"):
                        fail(e, f"to_absolute_list of {ty}")
                    return f"(GCodeCore.to_absolute_list g_is_relative g_position {t})", ("list", "V3")
                t, _ = self.as_pl(e.args[0], env, fn)
                return f"(GCodeCore.{meth} g_is_relative g_position {t})", "V3"
            if fn.cls == "PathTracer" and rs == "self" and meth in ("estimate_length", "_filter_segments"):
                callee = self.done.get(f"PathTracer.{meth}")
                if callee is None:
                    fail(e, f"{meth} is not translated yet")
                return self.apply(e, callee, env, fn)
            if meth in ("enforce", "full_turn"):
                t, ty = self.expr(recv, env, fn)
                if ty == "Dir":
                    if meth == "enforce":
                        (a,) = self.args_k(e, 1, env, fn)
                        return f"(Direction.enforce T {t} {a})", "K"
                    if not e.args and not kw:
                        return f"(Direction.full_turn T {t})", "K"
            if meth == "resolve" and not e.args and not kw:
                t, ty = self.expr(recv, env, fn)
                if ty == "PL":
                    return f"(PL.resolve {t})", "V3"
                fail(e, f"resolve() of {ty}")
            if meth == "replace" and len(e.args) == 1 and isinstance(e.args[0], ast.Starred) and not kw:
                t, ty = self.expr(recv, env, fn)
                p, py = self.expr(e.args[0].value, env, fn)
                if ty == "V3" and py == "PL":
                    return f"(PL.replaceIn {t} {p})", "V3"
                fail(e, f"{ty}.replace(*{py})")
            if meth == "sum" and not e.args and not kw:
                t, ty = self.expr(recv, env, fn)
                if ty == ("list", "K"):
                    return f"(npSum {t})", "K"
                fail(e, f"sum of {ty}")
        if isinstance(e.func, ast.Name) and env.get(e.func.id) == "Fn" and len(e.args) == 1 and not kw:
            t, ty = self.expr(e.args[0], env, fn)
            if ty == ("list", "K"):
                return f"(List.map {mangle(e.func.id)} {t})", ("list", "V3")
            if ty == "K":
                return f"({mangle(e.func.id)} {t})", "V3"
        if isinstance(e.func, ast.Name) and env.get(e.func.id) == "Fn1" and len(e.args) == 1 and not kw:
            t, ty = self.expr(e.args[0], env, fn)
            if ty == "K":
                return f"({mangle(e.func.id)} {t})", "K"
        fail(e, f"call {ast.unparse(e)[:60]}")

    EXTRAS = {"CubicSpline": "List K → List K → K → K", "np_copysign": "K → K → K", "moveEffect": "PL K → V3 K → PL K"}

    def need(self, fn, name):
        if name not in fn.extra:
            fn.extra.append(name)

    @staticmethod
    def as_bool(t, ty):
        return f"decide {t}" if ty == "Prop" else t

    def apply(self, e, callee, env, fn):
        """call of a translated PathTracer method -> (text, type of its value)"""
        kws = [k for k in e.keywords if k.arg is not None]
        if kws or any(isinstance(a, ast.Starred) for a in e.args):
            fail(e, "keyword / starred arguments")
        params = callee.params
        if len(e.args) > len(params):
            fail(e, "too many arguments")
        parts = []
        for (pname, pty), a in zip(params, e.args):
            if pty == "PL":
                t, ln = self.as_pl(a, env, fn)
                parts.append(t)
                if pname in callee.len_params:
                    if ln is None:
                        fail(a, f"the length of {ast.unparse(a)} is not known")
                    parts.append(ln)
                continue
            t, ty = self.expr(a, env, fn, pty)
            if ty == "Nat" and pty == "Int":
                t, ty = f"(Int.ofNat {t})", "Int"
            if ty != pty:
                fail(a, f"argument {ast.unparse(a)} : {ty}, expected {pty}")
            parts.append(t)
        for (pname, pty), dflt in list(zip(params, callee.defaults))[len(e.args):]:
            if dflt is None:
                fail(e, f"missing argument {pname}")
            t, _ = self.expr(dflt, {}, fn, pty)
            parts.append(t)
        fn.sci = fn.sci or callee.sci
        name = f"PathTracer.{callee.node.name}{callee.variant}"
        ty = ("opt", callee.ret) if callee.may_raise else callee.ret
        for x in callee.extra:
            self.need(fn, x)
        ctx = " ".join([x for x in self.EXTRAS if x in callee.extra] + [TRACER_CTX])
        return f"({name} {ctx} " + " ".join(parts) + ")", ty

    # ------------------------------------------------------------------ statements
    def block(self, stmts, env, fn, ind, fall):
        """lines of the Lean term for the statements; `fall(env, ind)` gives the lines when control falls off the end"""
        pad = "  " * ind
        if not stmts:
            return fall(env, ind)
        st, rest = stmts[0], stmts[1:]
        if is_docstring(st):
            return self.block(rest, env, fn, ind, fall)
        if isinstance(st, ast.Assign) and len(st.targets) == 1 and isinstance(st.targets[0], ast.Name):
            name = st.targets[0].id
            if name in fn.len_params:
                fail(st, f"{name} is rebound but its len() is read")
            t, ty = self.expr(st.value, env, fn, env.get(name) if self.is_num(st.value) else None)
            if ty == "Prop":
                t, ty = f"decide {t}", "Bool"
            fn.local_len.pop(name, None)
            if isinstance(st.value, ast.Tuple):
                fn.local_len[name] = len(st.value.elts)
            return [f"{pad}let {mangle(name)} : {lean_type(ty)} := {t}"] + self.block(rest, dict(env, **{name: ty}), fn, ind, fall)
        if isinstance(st, ast.Assign) and len(st.targets) == 1 and isinstance(st.targets[0], ast.Subscript) \
                and isinstance(st.targets[0].value, ast.Name):
            name = st.targets[0].value.id
            if env.get(name) != ("list", "Bool"):
                fail(st, f"item assignment to {env.get(name)}")
            i, iy = self.expr(st.targets[0].slice, env, fn, "Nat")
            v, vy = self.expr(st.value, env, fn)
            if iy != "Nat" or vy != "Bool":
                fail(st, f"item assignment [{iy}] = {vy}")
            return [f"{pad}let {mangle(name)} : List Bool := List.set {mangle(name)} {i} {v}"] + self.block(rest, env, fn, ind, fall)
        if isinstance(st, ast.AugAssign) and isinstance(st.target, ast.Name) and isinstance(st.op, (ast.Add, ast.Sub)):
            name = st.target.id
            if name not in env:
                fail(st, f"unknown name {name}")
            t, ty = self.expr(ast.BinOp(left=ast.Name(id=name, ctx=ast.Load()), op=st.op, right=st.value, lineno=st.lineno), env, fn)
            if ty != env[name]:
                fail(st, f"{name} : {env[name]} becomes {ty}")
            return [f"{pad}let {mangle(name)} : {lean_type(ty)} := {t}"] + self.block(rest, env, fn, ind, fall)
        if isinstance(st, ast.Expr) and isinstance(st.value, ast.Call) and isinstance(st.value.func, ast.Attribute) \
                and st.value.func.attr == "append" and isinstance(st.value.func.value, ast.Name):
            name = st.value.func.value.id
            if len(st.value.args) != 1 or st.value.keywords:
                fail(st, "append(x) expected")
            t, ty = self.expr(st.value.args[0], env, fn)
            if env.get(name) == ("list", None):          # `results = []`: the first append fixes the element type
                env = dict(env, **{name: ("list", ty)})
            if env.get(name) != ("list", ty):
                fail(st, f"append of {ty} to {env.get(name)}")
            return [f"{pad}let {mangle(name)} : {lean_type(env[name])} := {mangle(name)} ++ [{t}]"] + self.block(rest, env, fn, ind, fall)
        if isinstance(st, ast.FunctionDef):
            return self.local_def(st, env, fn, ind) + self.block(rest, dict(env, **{st.name: "Fn"}), fn, ind, fall)
        if isinstance(st, ast.Return):
            if st.value is None:
                fail(st, "bare return")
            if fn.in_loop:
                fail(st, "return inside a loop")
            t, ty = self.expr(st.value, env, fn, fn.ret if self.is_num(st.value) else None)
            self.set_ret(fn, ty, st)
            return [f"{pad}{'some ' if fn.may_raise else ''}{t}"]
        if isinstance(st, ast.Raise):
            if fn.in_loop:
                fail(st, "raise inside a loop")
            if not (isinstance(st.exc, ast.Call) and ast.unparse(st.exc.func) == "ValueError"):
                fail(st, "only `raise ValueError(...)` is understood")
            return [f"{pad}none"]
        if isinstance(st, ast.Continue):
            if not fn.in_loop:
                fail(st, "continue outside a loop")
            return fall(env, ind)
        if isinstance(st, ast.If):
            c, cty = self.expr(st.test, env, fn)
            if cty not in ("Bool", "Prop"):
                fail(st, f"condition of type {cty}")
            tb, te = terminates(st.body), terminates(st.orelse)
            if tb or te or exits(st.body) or exits(st.orelse):
                body = st.body + ([] if tb else rest)
                orelse = st.orelse + ([] if te else rest)
                return ([f"{pad}if {c} then"] + self.block(body, env, fn, ind + 1, fall)
                        + [f"{pad}else"] + self.block(orelse, env, fn, ind + 1, fall))
            if any(has_move(x) for x in st.body + st.orelse):
                fail(st, "self._g.move inside a conditional")
            names = [n for n in assigned_names(st.body + st.orelse)]
            for n in names:
                if n not in env and not (n in assigned_names(st.body) and n in assigned_names(st.orelse)):
                    fail(st, f"{n} is first assigned inside one branch of a conditional")
            tys = {}

            def join(env2, ind2):
                for n in names:
                    if n not in env2 or tys.get(n, env2[n]) != env2[n]:
                        fail(st, f"{n} is not given one type by both branches of the conditional")
                    tys[n] = env2[n]
                return ["  " * ind2 + tuple_of([mangle(n) for n in names])]

            a = self.block(st.body, env, fn, ind + 2, join)
            b = self.block(st.orelse, env, fn, ind + 2, join)
            env2 = dict(env, **tys)
            tupty = lean_type(env2[names[0]]) if len(names) == 1 else prod_type([lean_type(env2[n]) for n in names])
            jn = mangle(names[0]) if len(names) == 1 else "j'"
            lines = [f"{pad}let {jn} : {tupty} :=", f"{pad}  if {c} then"] + a + [f"{pad}  else"] + b
            if len(names) > 1:
                lines += [f"{pad}let {mangle(n)} : {lean_type(env2[n])} := {proj(jn, i, len(names))}" for i, n in enumerate(names)]
            return lines + self.block(rest, env2, fn, ind, fall)
        if isinstance(st, ast.Expr) and is_move(st.value):
            call = st.value
            if not fn.in_move_loop:
                fail(st, "self._g.move outside the final loop of the method")
            if len(call.args) != 1 or [ast.unparse(k.value) for k in call.keywords if k.arg is None] != ["kwargs"] \
                    or any(k.arg is not None for k in call.keywords):
                fail(st, "self._g.move(point, **kwargs) expected")
            t, ty = self.expr(call.args[0], env, fn)
            if ty != "V3":
                fail(st, f"self._g.move of {ty}")
            return [f"{pad}-- line {st.lineno}: self._g.move({ast.unparse(call.args[0])}, **kwargs)",
                    f"{pad}let moves' : List (V3 K) := moves' ++ [{t}]",
                    f"{pad}let g_position : PL K := moveEffect g_position {t}"] + self.block(rest, env, fn, ind, fall)
        if isinstance(st, ast.For):
            if has_move(st):
                # the loop that hands the vertices to `self._g.move`: the last statement of the method
                if rest or fn.in_loop or fn.cls != "PathTracer" or fn.has_moves or fn.variant == "_args":
                    fail(st, "a loop calling self._g.move must be the last statement of the method")
                if fn.variant == "_moves":
                    fn.has_moves = True
                    self.need(fn, "moveEffect")
                    self.set_ret(fn, ("list", "V3"), st)
                    return self.loop(st, rest, env, fn, ind, fall, moves=True)
                # the vertices variant stops here: what the loop walks
                it, ity = self.expr(st.iter, env, fn)
                if ity != ("list", "V3"):
                    fail(st, f"the move loop walks {ity}")
                self.set_ret(fn, ("list", "V3"), st)
                return [f"{pad}-- line {st.lineno}: what the final loop (to_distance_mode, self._g.move) walks",
                        f"{pad}{'some ' if fn.may_raise else ''}{it}"]
            return self.loop(st, rest, env, fn, ind, fall)
        if isinstance(st, ast.Expr) and isinstance(st.value, ast.Call) and not rest and not fn.in_loop \
                and ast.unparse(st.value.func) in ("self.parametric", "self.arc", "self.helix"):
            return self.tail_call(st.value, env, fn, ind)
        fail(st, f"statement {ast.unparse(st)[:60]}")

    def set_ret(self, fn, ty, node):
        if fn.ret is not None and fn.ret != ty:
            fail(node, f"returns {ty} after {fn.ret}")
        fn.ret = ty

    def tail_call(self, call, env, fn, ind):
        pad = "  " * ind
        kws = [ast.unparse(k.value) for k in call.keywords if k.arg is None]
        if kws != ["kwargs"] or any(k.arg is not None for k in call.keywords):
            fail(call, "the final call must pass **kwargs and no other keyword")
        call = ast.Call(func=call.func, args=call.args, keywords=[], lineno=call.lineno)
        m = call.func.attr
        if fn.variant == "_args" and m == "parametric":
            if len(call.args) != 2:
                fail(call, "self.parametric(function, length, **kwargs) expected")
            f, fy = self.expr(call.args[0], env, fn)
            ln, ly = self.expr(call.args[1], env, fn, "K")
            if (fy, ly) != ("Fn", "K"):
                fail(call, f"self.parametric({fy}, {ly})")
            self.set_ret(fn, ("prod", ["Fn", "K"]), call)
            if not fn.may_raise:
                fail(call, "a path set-up that cannot raise")       # keeps the `some` below honest
            return [f"{pad}-- line {call.lineno}: handed to `self.parametric`", f"{pad}some ({f}, {ln})"]
        callee = self.done.get(f"PathTracer.{m}{fn.variant}")
        if callee is None:
            fail(call, f"{m}{fn.variant} is not translated yet")
        t, ty = self.apply(call, callee, env, fn)
        if not (isinstance(ty, tuple) and ty[0] == "opt"):
            fail(call, "final call of a method that cannot raise")
        self.set_ret(fn, ty[1], call)
        return [f"{pad}-- line {call.lineno}: final call", f"{pad}{t}"]

    def local_def(self, st, env, fn, ind):
        pad = "  " * ind
        if len(st.args.args) != 1 or ast.unparse(st.args.args[0].annotation or ast.Constant(value=None)) != "np.ndarray" \
                or st.decorator_list or st.args.vararg or st.args.kwarg or st.args.kwonlyargs or st.args.defaults:
            fail(st, "a local function must be `def f(thetas: np.ndarray)`")
        p = st.args.args[0].arg
        inner = dict(env, **{p: "K"})
        lines = [f"{pad}-- line {st.lineno}: def {st.name}({p}) - numpy arithmetic is element-wise: written at one element",
                 f"{pad}let {mangle(st.name)} : K → V3 K := fun ({mangle(p)} : K) =>"]
        body = [s for s in st.body if not is_docstring(s)]
        for s in body[:-1]:
            if not (isinstance(s, ast.Assign) and len(s.targets) == 1 and isinstance(s.targets[0], ast.Name)):
                fail(s, "local function statement")
            t, ty = self.expr(s.value, inner, fn)
            if ty != "K":
                fail(s, f"local function value of type {ty}")
            inner[s.targets[0].id] = ty
            lines.append(f"{pad}  let {mangle(s.targets[0].id)} : K := {t}")
        if not body or not isinstance(body[-1], ast.Return) or body[-1].value is None:
            fail(st, "local function must end in return")
        t, ty = self.expr(body[-1].value, inner, fn)
        if ty != "V3":
            fail(st, f"local function returns {ty}")
        return lines + [f"{pad}  {t}"]

    def loop(self, st, rest, env, fn, ind, fall, moves=False):
        pad = "  " * ind
        if st.orelse:
            fail(st, "for … else")
        it, ity = self.expr(st.iter, env, fn)
        if not (isinstance(ity, tuple) and ity[0] == "list"):
            fail(st, f"loop over {ity}")
        el = ity[1]
        binds = []
        if isinstance(st.target, ast.Name):
            binds.append((st.target.id, el, "x'"))
        elif isinstance(st.target, ast.Tuple) and isinstance(el, tuple) and el[0] == "prod" and len(st.target.elts) == len(el[1]) \
                and all(isinstance(x, ast.Name) for x in st.target.elts):
            for i, (x, ty) in enumerate(zip(st.target.elts, el[1])):
                binds.append((x.id, ty, proj("x'", i, len(el[1]))))
        else:
            fail(st, f"loop target {ast.unparse(st.target)} over {el}")
        names = [n for n in assigned_names(st.body) if n in env]
        if not names and not moves:
            fail(st, "a loop that assigns nothing")
        # `results = []` gets its element type from the first append in the body
        env = dict(env)
        for n in names:
            if env[n] == ("list", None):
                for s in ast.walk(st):
                    if isinstance(s, ast.Call) and isinstance(s.func, ast.Attribute) and s.func.attr == "append" \
                            and isinstance(s.func.value, ast.Name) and s.func.value.id == n and len(s.args) == 1:
                        inner0 = dict(env, **{b[0]: b[1] for b in binds})
                        # the appended value is typed in the loop's environment (all loop-carried names are known)
                        env[n] = ("list", self.append_type(st.body, s, inner0, fn))
                        break
                if env[n] == ("list", None):
                    fail(st, f"cannot type the list {n}")
        # the loop-carried state: (the builder's position and the points handed to `move`, for the move loop,) then the
        # variables assigned in the body
        state = ([("g_position", "PL"), ("moves'", ("list", "V3"))] if moves else []) + [(mangle(n), env[n]) for n in names]
        snames = [x for x, _ in state]
        tupty = lean_type(state[0][1]) if len(state) == 1 else prod_type([lean_type(ty) for _, ty in state])
        inner = dict(env, **{b[0]: b[1] for b in binds})
        was, wasm = fn.in_loop, fn.in_move_loop
        fn.in_loop, fn.in_move_loop = True, moves

        def again(env2, ind2):
            for n in names:
                if env2[n] != env[n]:
                    fail(st, f"{n} changes type inside the loop")
            return ["  " * ind2 + tuple_of(snames)]

        body = self.block(st.body, inner, fn, ind + 2, again)
        fn.in_loop, fn.in_move_loop = was, wasm
        lines = [f"{pad}-- line {st.lineno}: for {ast.unparse(st.target)} in {ast.unparse(st.iter)}"]
        if moves:
            lines += [f"{pad}--   (`self._g.move(p, **kwargs)`: `p` is recorded in moves', `self._g.position` becomes `moveEffect g_position p`)",
                      f"{pad}let moves' : List (V3 K) := []"]
        lines += [f"{pad}let s' : {tupty} := List.foldl (fun (s' : {tupty}) (x' : {lean_type(el)}) =>"]
        if len(state) > 1:
            lines += [f"{pad}    let {x} : {lean_type(ty)} := {proj(chr(115) + chr(39), i, len(state))}" for i, (x, ty) in enumerate(state)]
        else:
            lines += [f"{pad}    let {snames[0]} : {tupty} := s'"]
        lines += [f"{pad}    let {mangle(b[0])} : {lean_type(b[1])} := {b[2]}" for b in binds]
        lines += body
        lines += [f"{pad}  ) {tuple_of(snames)} {it}"]
        lines += [f"{pad}let {x} : {lean_type(ty)} := {proj(chr(115) + chr(39), i, len(state))}" for i, (x, ty) in enumerate(state)]
        if moves:
            return lines + [f"{pad}{'some ' if fn.may_raise else ''}moves'"]
        return lines + self.block(rest, env, fn, ind, fall)

    def append_type(self, body, call, env, fn):
        """type of the value appended by `call`, typing the straight-line assignments of the loop body before it"""
        env = dict(env)
        for s in body:
            if any(n is call for n in ast.walk(s)):
                return self.expr(call.args[0], env, fn)[1]
            if isinstance(s, ast.Assign) and len(s.targets) == 1 and isinstance(s.targets[0], ast.Name):
                env[s.targets[0].id] = self.expr(s.value, env, fn)[1]
        fail(call, "append in a nested block of an untyped list")

    # ------------------------------------------------------------------ functions
    def params_of(self, node, cls, len_params):
        out, defaults = [], []
        args = node.args.args[1:]
        if node.args.vararg or node.args.kwonlyargs or (node.args.kwarg and node.args.kwarg.arg != "kwargs"):
            fail(node, "signature")
        dfl = [None] * (len(args) - len(node.args.defaults)) + list(node.args.defaults)
        for a, d in zip(args, dfl):
            ann = ast.unparse(a.annotation).strip("'\"") if a.annotation else ""
            ty = {"float": "K", "int": "Int", "PointLike": "PL", "Sequence[PointLike]": ("list", "PL"), "PathFn": "Fn",
                  "np.ndarray": ("list", "V3"), "Point": "V3"}.get(ann)
            if ty is None:
                fail(node, f"parameter {a.arg}: {ann or 'no annotation'}")
            out.append((a.arg, ty))
            defaults.append(d)
        return out, defaults

    def needs_len(self, node, known):
        """PointLike parameters whose `len` is read, here or by the method the parameter is passed on to"""
        out = []
        pnames = [a.arg for a in node.args.args[1:] if a.annotation is not None and ast.unparse(a.annotation) == "PointLike"]
        for n in ast.walk(node):
            if isinstance(n, ast.Call) and ast.unparse(n.func) == "len" and len(n.args) == 1 and isinstance(n.args[0], ast.Name) \
                    and n.args[0].id in pnames and n.args[0].id not in out:
                out.append(n.args[0].id)
            if isinstance(n, ast.Call) and isinstance(n.func, ast.Attribute) and ast.unparse(n.func.value) == "self" \
                    and n.func.attr in known:
                callee_params, callee_len = known[n.func.attr]
                for pn, a in zip(callee_params, n.args):
                    if pn in callee_len and isinstance(a, ast.Name) and a.id in pnames and a.id not in out:
                        out.append(a.id)
        return [p for p in pnames if p in out]

    def function(self, cls, name, variant="", lean_name=None):
        node = self.src[cls].get(name)
        if node is None:
            raise Unsupported(f"{cls}.{name} not found")
        decos = [ast.unparse(d) for d in node.decorator_list]
        if decos not in ([], ["typechecked"]):
            fail(node, f"decorators {decos}")
        fn = Fn(cls, node, variant)
        fn.in_loop = False
        known = {f.node.name: ([p[0] for p in f.params], f.len_params) for f in self.done.values() if f.cls == "PathTracer"}
        fn.len_params = self.needs_len(node, known) if cls == "PathTracer" else []
        fn.params, fn.defaults = self.params_of(node, cls, fn.len_params)
        # a method that ends in a call of a raising method raises as well
        last = [s for s in node.body if not is_docstring(s)][-1]
        if isinstance(last, ast.Expr) and isinstance(last.value, ast.Call) and ast.unparse(last.value.func) in ("self.parametric", "self.arc", "self.helix"):
            fn.may_raise = True
        env = {}
        sig = {"Direction": "(T : Trig K) (self : Bool)", "Point": "(self : V3 K)", "GCodeCore": CORE_SIG, "PathTracer": TRACER_SIG}[cls]
        if variant == "_moves":
            self.need(fn, "moveEffect")
        if cls == "Direction":
            env["self"] = "Dir"
        if cls == "Point":
            env["self"] = "V3"
        for pn, ty in fn.params:
            env[pn] = ty
            sig += f" ({mangle(pn)} : {lean_type(ty)})"
            if pn in fn.len_params:
                sig += f" ({mangle(pn)}_len : Nat)"
        # `results = []`
        body = []
        for s in node.body:
            if isinstance(s, ast.Assign) and len(s.targets) == 1 and isinstance(s.targets[0], ast.Name) \
                    and isinstance(s.value, ast.List) and not s.value.elts:
                body.append(("empty", s))
            else:
                body.append(("st", s))

        def no_fall(env2, ind2):
            fail(node, "control can fall off the end of the function")

        lines = self.stmts_with_empty_lists(body, env, fn, 1, no_fall)
        if fn.ret is None:
            fail(node, "no value")
        rty = ("opt", fn.ret) if fn.may_raise else fn.ret
        lname = lean_name or f"{cls}.{name}{variant}"
        rel = {"Direction": "enums/types/direction.py", "Point": "geometry/point.py", "GCodeCore": "gcode_core.py", "PathTracer": "geometry/tracer.py"}[cls]
        what = {"": " up to its final loop: the vertices handed, one by one, to `to_distance_mode` and `self._g.move`"
                    if (cls == "PathTracer" and has_move(node)) else
                    (": the vertices of the whole path" if fn.may_raise and isinstance(last, ast.Expr) else ""),
                "_args": " up to its final call: what is handed to `self.parametric`",
                "_moves": ", the whole method: the points handed to `self._g.move`, in order"}[variant]
        sci = " [OfScientific K]" if fn.sci else ""
        extra = "".join(f" ({x} : {ty})" for x, ty in self.EXTRAS.items() if x in fn.extra)
        self.out.append(f"/-- `{cls}.{name}`{what} (gscrib/{rel} line {node.lineno}) -/\n"
                        f"def {lname}{sci}{extra} {sig} : {lean_type(rty)} :=\n" + "\n".join(lines) + "\n")
        self.done[lname] = fn
        return fn

    def stmts_with_empty_lists(self, body, env, fn, ind, fall):
        """`name = []` is a list whose element type is fixed by the first `append`"""
        pre, stmts = [], []
        env = dict(env)
        for kind, s in body:
            if kind == "empty":
                if stmts and not all(is_docstring(x) for x in stmts):
                    fail(s, "an empty list must be created before the other statements")
                env[s.targets[0].id] = ("list", None)
                pre.append(s)
            else:
                stmts.append(s)
        if not pre:
            return self.block(stmts, env, fn, ind, fall)
        # type the lists from the appends, then emit `let name : List τ := []`
        for s in pre:
            name = s.targets[0].id
            ty = None
            for n in ast.walk(fn.node):
                if isinstance(n, ast.For):
                    for c in ast.walk(n):
                        if isinstance(c, ast.Call) and isinstance(c.func, ast.Attribute) and c.func.attr == "append" \
                                and isinstance(c.func.value, ast.Name) and c.func.value.id == name and len(c.args) == 1:
                            # environment at the loop: the straight-line assignments of the function before it
                            e0 = dict(env)
                            for s0 in stmts:
                                if isinstance(s0, ast.Assign) and len(s0.targets) == 1 and isinstance(s0.targets[0], ast.Name) \
                                        and s0.lineno < n.lineno:
                                    e0[s0.targets[0].id] = self.expr(s0.value, e0, fn)[1]
                            it, ity = self.expr(n.iter, e0, fn)
                            if isinstance(n.target, ast.Name) and isinstance(ity, tuple) and ity[0] == "list":
                                e0[n.target.id] = ity[1]
                            ty = self.append_type(n.body, c, e0, fn)
                            break
                    if ty:
                        break
            if ty is None:
                fail(s, f"cannot type the list {name}")
            env[name] = ("list", ty)
        lines = [f"{'  ' * ind}let {mangle(s.targets[0].id)} : {lean_type(env[s.targets[0].id])} := []" for s in pre]
        return lines + self.block(stmts, env, fn, ind, fall)

    # ------------------------------------------------------------------ output
    def render(self):
        self.function("Direction", "enforce")
        self.function("Direction", "full_turn")
        self.function("Point", "__add__", lean_name="Point.add")
        self.function("Point", "__sub__", lean_name="Point.sub")
        self.function("GCodeCore", "to_absolute")
        self.function("GCodeCore", "to_absolute_list")
        self.function("GCodeCore", "to_distance_mode")
        self.function("PathTracer", "_filter_segments")
        self.function("PathTracer", "estimate_length")
        self.function("PathTracer", "parametric")
        self.function("PathTracer", "parametric", "_moves")
        self.function("PathTracer", "polyline")
        self.function("PathTracer", "polyline", "_moves")
        for variant in ("_args", "", "_moves"):
            for m in ("arc", "arc_radius", "circle", "helix", "thread", "spiral", "spline"):
                self.function("PathTracer", m, variant)
        head = ["/- GENERATED by tools/gen_tracer.py from gscrib/geometry/tracer.py, gscrib/enums/types/direction.py, "
                "gscrib/gcode_core.py, gscrib/geometry/point.py (source text, by AST). Do not edit. -/",
                "import GscribModel.Model.TracerPrelude",
                "namespace GscribModel.Gen.TracerSrc",
                "open GscribModel.Tracer GscribModel.TracerPrelude",
                "set_option linter.unusedVariables false",
                "section",
                "variable {K : Type} [Add K] [Sub K] [Mul K] [Div K] [Neg K] [LE K] [LT K] [DecidableLE K] [DecidableLT K]",
                "  [OfNat K 0] [OfNat K 1] [OfNat K 2] [OfNat K 10]",
                ""]
        return "\n".join(head + self.out + ["end", "end GscribModel.Gen.TracerSrc"]) + "\n"


def main():
    args = [a for a in sys.argv[1:] if not a.startswith("--")]
    if "--out" in sys.argv:
        args = [a for a in args if a != sys.argv[sys.argv.index("--out") + 1]]
    repo = Path(args[0] if args else os.environ.get("GSCRIB_REPO", "/repo"))
    try:
        text = T(repo).render()
    except Unsupported as e:
        print("gen_tracer: the source is outside the translated subset:", e, file=sys.stderr)
        raise SystemExit(3)
    except (OSError, SyntaxError) as e:
        print("gen_tracer: cannot read the source:", e, file=sys.stderr)
        raise SystemExit(3)
    except (KeyError, IndexError, AttributeError, TypeError, ValueError) as e:      # a shape of source nobody thought of: refuse
        print(f"gen_tracer: the source is outside the translated subset: internal {type(e).__name__}: {e}", file=sys.stderr)
        raise SystemExit(3)
    if "--stdout" in sys.argv:
        sys.stdout.write(text)
        return
    out = Path(sys.argv[sys.argv.index("--out") + 1]) if "--out" in sys.argv else OUT
    out.parent.mkdir(parents=True, exist_ok=True)
    if not out.exists() or out.read_text() != text:
        out.write_text(text)
        print("gen_tracer: rewrote", out)


if __name__ == "__main__":
    main()

#!/usr/bin/env python3
"""Translator: gscrib/geometry/point.py (class Point, the methods without arithmetic)  ->  GscribModel/Gen/PointSrc.lean

`Point.resolve / replace / mask / combine / within_bounds` decide which axes a statement mentions (C04), what the
tracked position becomes (C01, C11) and whether a target is inside the axes box (C03).  They are pure expressions over
three optional coordinates, so they are translated literally from the source text (by AST; nothing is imported or
executed) into Lean functions over `Pt` (three `Option Rat`); `Props/PointTie.lean` proves the models' own point
operations equal to them.

Subset: `return <expr>`; `name = <expr>`; a nested `def f(a, b, …): return <expr>`; expressions: `A if C else B`,
`X is None`, `X is not None`, `and` / `or` / `not`, `==` `!=` on coordinates, chained `<=` `<` on coordinates,
`None in (a, b, …)`, `None`, numbers, `self.x`, `p.x` for a Point-typed parameter, `Point(e1, e2, e3)` / `cls(...)`.
A coordinate is `Option Rat` (a finite double is its rational value; `None` = unknown); a number literal is a known
coordinate.  Ordering a coordinate against `None` raises `TypeError` in Python; the translation makes it `false` - it
is only reached behind the `None in (...)` test of the source (checked by `PointTie_within_bounds`).
Methods with arithmetic on coordinates (`__add__`, `__sub__`, …) raise on unknown coordinates and are not translated.

usage: gen_point.py [repo_root] [--out FILE | --stdout]
"""
import ast
import os
import sys
from fractions import Fraction
from pathlib import Path

V = Path(__file__).resolve().parent.parent
OUT = V / "lean" / "GscribModel" / "Gen" / "PointSrc.lean"
METHODS = ["resolve", "replace", "mask", "combine", "within_bounds"]


class Unsupported(Exception):
    pass


def fail(node, what):
    raise Unsupported(f"line {getattr(node, 'lineno', '?')}: {what}")


class T:
    def __init__(self, repo):
        tree = ast.parse((repo / "gscrib" / "geometry" / "point.py").read_text())
        cls = [n for n in tree.body if isinstance(n, ast.ClassDef) and n.name == "Point"]
        if len(cls) != 1:
            raise Unsupported("class Point not found")
        self.methods = {n.name: n for n in cls[0].body if isinstance(n, ast.FunctionDef)}
        fields = [st.target.id for st in cls[0].body if isinstance(st, ast.AnnAssign) and isinstance(st.target, ast.Name)]
        if fields != ["x", "y", "z"]:
            raise Unsupported(f"Point fields are {fields}, expected x, y, z")

    def expr(self, e, env):
        """-> (text, type) with type in {"OQ", "Bool", "Pt"}"""
        if isinstance(e, ast.Constant):
            if e.value is None:
                return "(none : OQ)", "OQ"
            if isinstance(e.value, bool):
                return ("true" if e.value else "false"), "Bool"
            if isinstance(e.value, (int, float)):
                f = Fraction(repr(e.value)) if isinstance(e.value, float) else Fraction(e.value)
                t = str(f.numerator) if f.denominator == 1 else f"(({f.numerator} : Rat) / {f.denominator})"
                return f"(some {t} : OQ)", "OQ"
            fail(e, f"constant {e.value!r}")
        if isinstance(e, ast.Name):
            if e.id in env:
                return e.id, env[e.id]
            fail(e, f"unknown name {e.id}")
        if isinstance(e, ast.Attribute) and isinstance(e.value, ast.Name) and e.attr in ("x", "y", "z"):
            if env.get(e.value.id) == "Pt":
                return f"{e.value.id}.{e.attr}", "OQ"
            fail(e, f"{e.value.id} is not a point")
        if isinstance(e, ast.IfExp):
            c, cty = self.expr(e.test, env)
            a, aty = self.expr(e.body, env)
            b, bty = self.expr(e.orelse, env)
            if cty != "Bool" or aty != bty:
                fail(e, f"conditional of types {cty}, {aty}, {bty}")
            return f"(if {c} then {a} else {b})", aty
        if isinstance(e, ast.UnaryOp) and isinstance(e.op, ast.Not):
            t, ty = self.expr(e.operand, env)
            if ty != "Bool":
                fail(e, "not on a non-boolean")
            return f"(!{t})", "Bool"
        if isinstance(e, ast.BoolOp):
            parts = []
            for v in e.values:
                t, ty = self.expr(v, env)
                if ty != "Bool":
                    fail(e, f"and/or on {ty}")
                parts.append(t)
            return "(" + (" && " if isinstance(e.op, ast.And) else " || ").join(parts) + ")", "Bool"
        if isinstance(e, ast.Compare):
            ops = [e.left] + list(e.comparators)
            out = []
            for a, op, b in zip(ops, e.ops, ops[1:]):
                if isinstance(op, (ast.Is, ast.IsNot)) and isinstance(b, ast.Constant) and b.value is None:
                    t, ty = self.expr(a, env)
                    if ty != "OQ":
                        fail(e, "is None on a non-coordinate")
                    out.append(f"{t}.isNone" if isinstance(op, ast.Is) else f"{t}.isSome")
                    continue
                if isinstance(op, ast.In) and isinstance(a, ast.Constant) and a.value is None and isinstance(b, ast.Tuple):
                    items = []
                    for el in b.elts:
                        t, ty = self.expr(el, env)
                        if ty != "OQ":
                            fail(e, "None in (...) over non-coordinates")
                        items.append(f"{t}.isNone")
                    out.append("(" + " || ".join(items) + ")")
                    continue
                ta, tya = self.expr(a, env)
                tb, tyb = self.expr(b, env)
                if tya != "OQ" or tyb != "OQ":
                    fail(e, f"comparison of {tya} with {tyb}")
                if isinstance(op, ast.Eq):
                    out.append(f"decide ({ta} = {tb})")
                elif isinstance(op, ast.NotEq):
                    out.append(f"decide ({ta} ≠ {tb})")
                elif isinstance(op, ast.LtE):
                    out.append(f"(OQ.le {ta} {tb})")
                elif isinstance(op, ast.Lt):
                    out.append(f"(OQ.lt {ta} {tb})")
                elif isinstance(op, ast.GtE):
                    out.append(f"(OQ.le {tb} {ta})")
                elif isinstance(op, ast.Gt):
                    out.append(f"(OQ.lt {tb} {ta})")
                else:
                    fail(e, f"operator in {ast.unparse(e)}")
            return ("(" + " && ".join(out) + ")") if len(out) > 1 else out[0], "Bool"
        if isinstance(e, ast.Call):
            fn = e.func
            if isinstance(fn, ast.Name) and fn.id in ("Point", "cls") and len(e.args) == 3 and not e.keywords:
                parts = []
                for a in e.args:
                    t, ty = self.expr(a, env)
                    if ty != "OQ":
                        fail(e, f"Point(...) argument of type {ty}")
                    parts.append(t)
                return "(⟨" + ", ".join(parts) + "⟩ : Pt)", "Pt"
            if isinstance(fn, ast.Name) and env.get(fn.id, "").startswith("fun:"):
                n = int(env[fn.id].split(":")[1])
                if len(e.args) != n:
                    fail(e, "arity")
                parts = []
                for a in e.args:
                    t, ty = self.expr(a, env)
                    if ty != "OQ":
                        fail(e, "local function argument")
                    parts.append(t)
                return f"({fn.id} " + " ".join(parts) + ")", "Bool"
            fail(e, f"call {ast.unparse(e)}")
        fail(e, f"expression {ast.unparse(e)}")

    def method(self, name):
        m = self.methods.get(name)
        if m is None:
            raise Unsupported(f"Point.{name} not found")
        env = {"self": "Pt"}
        sig = ""
        for a in m.args.args[1:]:
            ann = ast.unparse(a.annotation) if a.annotation else ""
            if ann in ("OptFloat", "Optional[float]", "float"):
                env[a.arg] = "OQ"
                sig += f" ({a.arg} : OQ)"
            elif ann.strip("'\"") == "Point":
                env[a.arg] = "Pt"
                sig += f" ({a.arg} : Pt)"
            else:
                fail(m, f"parameter {a.arg}: {ann}")
        lines = []
        ret = None
        for st in m.body:
            if isinstance(st, ast.Expr) and isinstance(st.value, ast.Constant) and isinstance(st.value.value, str):
                continue
            if isinstance(st, ast.Assign) and len(st.targets) == 1 and isinstance(st.targets[0], ast.Name):
                t, ty = self.expr(st.value, env)
                env[st.targets[0].id] = ty
                lines.append(f"  let {st.targets[0].id} : {ty} := {t}")
            elif isinstance(st, ast.FunctionDef):
                body = [b for b in st.body if not (isinstance(b, ast.Expr) and isinstance(b.value, ast.Constant))]
                if len(body) != 1 or not isinstance(body[0], ast.Return):
                    fail(st, "local function body")
                inner = dict(env, **{a.arg: "OQ" for a in st.args.args})
                t, ty = self.expr(body[0].value, inner)
                if ty != "Bool":
                    fail(st, "local function must be boolean")
                ps = " ".join(f"({a.arg} : OQ)" for a in st.args.args)
                env[st.name] = f"fun:{len(st.args.args)}"
                lines.append(f"  let {st.name} : {' → '.join(['OQ'] * len(st.args.args))} → Bool := fun {ps} => {t}")
            elif isinstance(st, ast.Return) and st.value is not None:
                ret = self.expr(st.value, env)
                break
            else:
                fail(st, f"statement {ast.unparse(st)[:50]}")
        if ret is None:
            fail(m, "no return")
        t, ty = ret
        return (f"/-- `Point.{name}` (source line {m.lineno}) -/\ndef {name} (self : Pt){sig} : {ty} :=\n" + "\n".join(lines + [f"  {t}"]) + "\n")

    def render(self):
        out = ["/- GENERATED by tools/gen_point.py from gscrib/geometry/point.py (source text, by AST). Do not edit. -/",
               "import GscribModel.Model.GenPrelude", "namespace GscribModel.Gen.PointSrc", "open GscribModel.Builder GscribModel.GenPrelude",
               "set_option linter.unusedVariables false", ""]
        out += [self.method(n) for n in METHODS]
        out.append("end GscribModel.Gen.PointSrc")
        return "\n".join(out) + "\n"


def main():
    args = [a for a in sys.argv[1:] if not a.startswith("--")]
    repo = Path(args[0] if args else os.environ.get("GSCRIB_REPO", "/repo"))
    try:
        text = T(repo).render()
    except Unsupported as e:
        print("gen_point: the source is outside the translated subset:", e, file=sys.stderr)
        raise SystemExit(3)
    if "--stdout" in sys.argv:
        sys.stdout.write(text)
        return
    out = Path(sys.argv[sys.argv.index("--out") + 1]) if "--out" in sys.argv else OUT
    out.parent.mkdir(parents=True, exist_ok=True)
    if not out.exists() or out.read_text() != text:
        out.write_text(text)
        print("gen_point: rewrote", out)


if __name__ == "__main__":
    main()

#!/usr/bin/env python3
"""Translator: gscrib/writers/printrun_writer.py (the device-report side of class PrintrunWriter)  ->  GscribModel/Gen/ReportSrc.lean

`PrintrunWriter._on_device_message / _parse_message / _update_param / _format_error / get_parameter` and the module
constants they use (`SUCCESS_PREFIXES`, `ERROR_PREFIXES`, `AXES`, the text of `VALUE_PATTERN`) decide which readings a
device report leaves in the writer (property C18).  They are translated from the *source text* (by AST; nothing is
imported or executed), statement by statement and in source order, into Lean functions over a record `Writer` holding
the four attributes these methods touch; `Props/ReportTie.lean` proves the hand-written model (`Model/Report.lean`)
equal to them.  The regular expression itself is not translated: its text is emitted as a constant and
`VALUE_PATTERN.findall` is the prelude's `Re.findall` (= the model's scanner, validated against `re` by harness/c18.py).

Shape of the output.  A method without a result is a *procedure*  `m (self : Writer) (args…) : Res Writer`
(`Res σ = σ × Option Exc`: the object as it was when the method returned or raised, and the exception class); a method
whose body is a single `return <expr>` is a *function* of `self` and its arguments.  `self` is re-bound (`let self := {
self with … }`) by every statement that mutates the object, locals by every assignment.  The body of a `for` loop is
emitted as a definition of its own, `<method>_for<k>` (k-th loop of the method in source order; parameters: `self`, the
variables of the enclosing scope that the body mentions, the loop targets).

The subset understood (anything else is refused with exit status 3 - never guessed):
  module      `NAME = ('a', 'b', …)` (tuple of string literals), `NAME = re.compile(<string literal>)` (one argument)
  __init__    `self._reported_params = set()`, `self._current_params = ParamsDict()`, `self._device_error = None` in
              `__init__`, `self._ack_event = threading.Event()` in a method `__init__` calls as `self._m()`
              (exactly one initialiser each; they give the fields of `Writer` their types and `Writer.init` its values)
  statements  docstring; `self._logger.debug|info|warning|error|exception(<literals and names>)` (dropped);
              `name = e`; `a, b = e` for a list of strings `e` (any other length: `ValueError`);
              `self._device_error = DeviceError(s) | GscribError(f"…") | None`; `self._current_params[k] = v`;
              `self._reported_params.clear()` / `.add(k)`; `self._ack_event.set()`; `self._m(args)` for a procedure
              translated earlier; `if / elif / else` (the statements after it continue in every branch that does not
              `return`); bare `return` (not inside a loop); `for x in e:` / `for a, b in e:` without `else`, `break`,
              `continue`; `try: … except Exception [as e]: …` as the LAST statement of a function or loop body
  expressions names; string and small non-negative integer literals; `self._f`; the module constants above; `len(x)`;
              `float(s)` (may raise: only as the whole right-hand side of an assignment or as an argument of a procedure
              call, evaluated left to right); `map(float, l)` and `zip(l, lazy)` (lazy iterators, see the prelude);
              `s.strip()` `s.lower()` `s.upper()` `s.isalnum()` `s.startswith(str | tuple constant)`
              `s.split(<one-character literal>)`; `PATTERN.findall(s)`; `self._current_params.get(s)`;
              `self._m(args)` for a translated function; `==` `!=` on two strings / two integers;
              `x in (<string literals>)`, `x [not] in self._reported_params`; `and` `or` `not`
Types: `str` -> `Str` (`List Char`, written as a list of character literals), `float` -> `Rat`, `set` -> `PySet`,
`ParamsDict` -> `ParamsDict`, `threading.Event` -> `Event`, exception objects -> `ErrObj`; all of them, the string
methods, `float`, the loops and `try` are the hand-written prelude `Model/ReportPrelude.lean` (its header lists what is
assumed).  The translator also checks that `ParamsDict.__setitem__` / `.get` in gscrib/params.py still are the two
one-liners the prelude transcribes.

usage: gen_report.py [repo_root] [--out FILE | --stdout]
"""
import ast
import os
import sys
from pathlib import Path

V = Path(__file__).resolve().parent.parent
OUT = V / "lean" / "GscribModel" / "Gen" / "ReportSrc.lean"
SRC = "gscrib/writers/printrun_writer.py"
CLASS = "PrintrunWriter"
ORDER = ["_update_param", "_format_error", "_parse_message", "_on_device_message", "get_parameter"]
# field -> (text of the only initialiser, Lean type, Lean initial value)
FIELDS = {
    "_reported_params": ("set()", "PySet", "[]"),
    "_current_params": ("ParamsDict()", "ParamsDict", "[]"),
    "_device_error": ("None", "Option ErrObj", "none"),
    "_ack_event": ("threading.Event()", "Event", "false"),
}
CONSTS = ["SUCCESS_PREFIXES", "ERROR_PREFIXES", "AXES", "VALUE_PATTERN"]
LOGGER = {"debug", "info", "warning", "error", "exception"}
ANNOT = {"str": "Str", "float": "Rat"}
PARAMSDICT = {"__setitem__": (["self", "key", "value"], ["super().__setitem__(key.upper(), value)"]),
              "get": (["self", "key", "default"], ["return super().get(key.upper(), default)"])}


class Unsupported(Exception):
    pass


def fail(node, what):
    raise Unsupported(f"line {getattr(node, 'lineno', '?')}: {what}")


def lean_char(c):
    if c == "\\":
        return "'\\\\'"
    if c == "'":
        return "'\\''"
    if 32 <= ord(c) < 127:
        return f"'{c}'"
    return f"(Char.ofNat {ord(c)})"


def lean_str(s):
    return "([" + ", ".join(lean_char(c) for c in s) + "] : Str)"


def is_doc(st):
    return isinstance(st, ast.Expr) and isinstance(st.value, ast.Constant) and isinstance(st.value.value, str)


def self_attr(e):
    """`self.<name>` -> name"""
    if isinstance(e, ast.Attribute) and isinstance(e.value, ast.Name) and e.value.id == "self":
        return e.attr
    return None


def elem_type(ty):
    for head in ("List ", "Seq "):
        if ty.startswith(head):
            t = ty[len(head):]
            return t[1:-1] if t.startswith("(") and t.endswith(")") else t
    return None


def paren(t):
    return f"({t})" if " " in t else t


class T:
    def __init__(self, repo):
        path = repo / SRC
        if not path.exists():
            raise Unsupported(f"{SRC} not found")
        tree = ast.parse(path.read_text())
        cls = [n for n in tree.body if isinstance(n, ast.ClassDef) and n.name == CLASS]
        if len(cls) != 1:
            raise Unsupported(f"class {CLASS} not found")
        self.methods = {}
        for n in cls[0].body:
            if isinstance(n, ast.FunctionDef):
                if n.name in self.methods:
                    fail(n, f"method {n.name} defined twice")
                self.methods[n.name] = n
        self.consts = {}          # name -> (Lean type, Lean text, comment)
        self.read_constants(tree)
        self.check_fields()
        self.check_paramsdict(repo, tree)
        self.sigs = {}            # translated method -> ("proc" | "fun", [param types], result type)
        self.defs = []            # Lean definitions, in order

    # ------------------------------------------------------------------ module level
    def read_constants(self, tree):
        seen = {}
        for st in tree.body:
            if isinstance(st, ast.Assign) and len(st.targets) == 1 and isinstance(st.targets[0], ast.Name) and st.targets[0].id in CONSTS:
                name = st.targets[0].id
                if name in seen:
                    fail(st, f"{name} assigned twice")
                seen[name] = st
            elif isinstance(st, (ast.AugAssign, ast.AnnAssign)) and isinstance(st.target, ast.Name) and st.target.id in CONSTS:
                fail(st, f"{st.target.id}: unsupported assignment")
        for name in CONSTS:
            st = seen.get(name)
            if st is None:
                raise Unsupported(f"module constant {name} not found")
            v = st.value
            if isinstance(v, ast.Tuple) and v.elts and all(isinstance(x, ast.Constant) and isinstance(x.value, str) for x in v.elts):
                text = "[" + ", ".join(lean_str(x.value) for x in v.elts) + "]"
                self.consts[name] = ("List Str", text, f"`{name} = {ast.unparse(v)}` (source line {st.lineno})")
            elif (isinstance(v, ast.Call) and isinstance(v.func, ast.Attribute) and isinstance(v.func.value, ast.Name)
                  and v.func.value.id == "re" and v.func.attr == "compile" and len(v.args) == 1 and not v.keywords
                  and isinstance(v.args[0], ast.Constant) and isinstance(v.args[0].value, str)):
                pat = v.args[0].value
                if "-/" in pat or "/-" in pat or "\n" in pat:
                    fail(st, "pattern text cannot be quoted in a Lean comment")
                self.consts[name] = ("Re", f"⟨{lean_str(pat)}⟩", f"`{name} = re.compile(…)`, pattern text `{pat}` (source line {st.lineno})")
            else:
                fail(st, f"{name} = {ast.unparse(v)[:60]}: neither a tuple of string literals nor re.compile(<literal>)")

    def check_fields(self):
        init = self.methods.get("__init__")
        if init is None:
            raise Unsupported("__init__ not found")
        where = [init]
        for st in init.body:
            if isinstance(st, ast.Expr) and isinstance(st.value, ast.Call) and self_attr(st.value.func) in self.methods \
                    and not st.value.args and not st.value.keywords:
                where.append(self.methods[self_attr(st.value.func)])
        found = {}
        for m in where:
            for st in ast.walk(m):
                targets = st.targets if isinstance(st, ast.Assign) else [st.target] if isinstance(st, (ast.AnnAssign, ast.AugAssign)) else []
                for t in targets:
                    if self_attr(t) in FIELDS:
                        if not isinstance(st, ast.Assign) or len(st.targets) != 1 or m.body.count(st) != 1:
                            fail(st, f"initialiser of {self_attr(t)}: unsupported form")
                        found.setdefault(self_attr(t), []).append(st)
        for f, (text, _, _) in FIELDS.items():
            sts = found.get(f, [])
            if len(sts) != 1:
                raise Unsupported(f"self.{f}: {len(sts)} initialisers in __init__ (and the methods it calls), expected 1")
            if ast.unparse(sts[0].value) != text:
                fail(sts[0], f"self.{f} is initialised with {ast.unparse(sts[0].value)}, expected {text}")

    def check_paramsdict(self, repo, tree):
        imported = any(isinstance(st, ast.ImportFrom) and st.module == "gscrib.params" and any(a.name == "ParamsDict" and a.asname is None for a in st.names)
                       for st in tree.body)
        if not imported:
            raise Unsupported("`from gscrib.params import ParamsDict` not found")
        p = repo / "gscrib" / "params.py"
        if not p.exists():
            raise Unsupported("gscrib/params.py not found")
        cls = [n for n in ast.parse(p.read_text()).body if isinstance(n, ast.ClassDef) and n.name == "ParamsDict"]
        if len(cls) != 1 or [ast.unparse(b) for b in cls[0].bases] != ["dict"]:
            raise Unsupported("class ParamsDict(dict) not found in gscrib/params.py")
        ms = [n for n in cls[0].body if isinstance(n, ast.FunctionDef)]
        for name, (args, body) in PARAMSDICT.items():
            m = [n for n in ms if n.name == name]
            if len(m) != 1:
                raise Unsupported(f"ParamsDict.{name}: {len(m)} definitions")
            m = m[0]
            got = [ast.unparse(st) for st in m.body if not is_doc(st)]
            a = m.args
            dflt = [ast.unparse(d) for d in a.defaults]
            if [x.arg for x in a.args] != args or a.vararg or a.kwarg or a.kwonlyargs or a.posonlyargs or got != body or m.decorator_list \
                    or dflt != (["None"] if name == "get" else []):
                fail(m, f"ParamsDict.{name} is not the method the prelude transcribes ({'; '.join(body)})")

    # ------------------------------------------------------------------ expressions
    def expr(self, e, env):
        """-> (Lean text, type, may_raise).  With may_raise the text has type `Except Exc <type>`."""
        if isinstance(e, ast.Constant):
            if isinstance(e.value, str):
                return lean_str(e.value), "Str", False
            if isinstance(e.value, int) and not isinstance(e.value, bool) and 0 <= e.value < 2 ** 31:
                return f"({e.value} : Nat)", "Nat", False
            fail(e, f"constant {e.value!r}")
        if isinstance(e, ast.Name):
            if e.id in env:
                return e.id, env[e.id], False
            if e.id in self.consts:
                return e.id, self.consts[e.id][0], False
            fail(e, f"unknown name {e.id}")
        if self_attr(e) is not None:
            if e.attr in FIELDS:
                return f"self.{e.attr}", FIELDS[e.attr][1], False
            fail(e, f"attribute self.{e.attr}")
        if isinstance(e, ast.UnaryOp) and isinstance(e.op, ast.Not):
            return f"(!{self.pure(e.operand, env, 'Bool')})", "Bool", False
        if isinstance(e, ast.BoolOp):
            parts = [self.pure(v, env, "Bool") for v in e.values]
            return "(" + (" && " if isinstance(e.op, ast.And) else " || ").join(parts) + ")", "Bool", False
        if isinstance(e, ast.Compare):
            if len(e.ops) != 1:
                fail(e, "chained comparison")
            op, a, b = e.ops[0], e.left, e.comparators[0]
            if isinstance(op, (ast.Eq, ast.NotEq)):
                ta, tya = self.pure(a, env)
                tb, tyb = self.pure(b, env)
                if tya != tyb or tya not in ("Str", "Nat"):
                    fail(e, f"comparison of {tya} with {tyb}")
                return f"decide ({ta} {'=' if isinstance(op, ast.Eq) else '≠'} {tb})", "Bool", False
            if isinstance(op, (ast.In, ast.NotIn)):
                ta = self.pure(a, env, "Str")
                if isinstance(b, ast.Tuple) and b.elts and all(isinstance(x, ast.Constant) and isinstance(x.value, str) for x in b.elts):
                    t = f"(Py.isIn {ta} [" + ", ".join(lean_str(x.value) for x in b.elts) + "])"
                else:
                    tb, tyb = self.pure(b, env)
                    if tyb != "PySet":
                        fail(e, f"membership in {tyb}")
                    t = f"(PySet.contains {tb} {ta})"
                return (t if isinstance(op, ast.In) else f"(!{t})"), "Bool", False
            fail(e, f"operator in {ast.unparse(e)}")
        if isinstance(e, ast.Call):
            return self.call(e, env)
        fail(e, f"expression {ast.unparse(e)[:60]}")

    def pure(self, e, env, want=None):
        t, ty, raises = self.expr(e, env)
        if raises:
            fail(e, f"{ast.unparse(e)[:50]} may raise in a position where the translation cannot sequence it")
        if want is None:
            return t, ty
        if ty != want:
            fail(e, f"{ast.unparse(e)[:50]} has type {ty}, expected {want}")
        return t

    def call(self, e, env):
        fn = e.func
        if e.keywords:
            fail(e, "keyword arguments")
        if isinstance(fn, ast.Name) and fn.id not in env:
            if fn.id == "len" and len(e.args) == 1:
                t, ty = self.pure(e.args[0], env)
                if ty != "Str" and elem_type(ty) is None or ty.startswith("Seq"):
                    fail(e, f"len of {ty}")
                return f"(Py.len {t})", "Nat", False
            if fn.id == "float" and len(e.args) == 1:
                return f"(Py.float {self.pure(e.args[0], env, 'Str')})", "Rat", True
            if fn.id == "map" and len(e.args) == 2 and isinstance(e.args[0], ast.Name) and e.args[0].id == "float" and "float" not in env:
                return f"(Py.mapLazy Py.float {self.pure(e.args[1], env, 'List Str')})", "Seq Rat", False
            if fn.id == "zip" and len(e.args) == 2:
                ta, tya = self.pure(e.args[0], env)
                tb, tyb = self.pure(e.args[1], env)
                if not tya.startswith("List ") or not tyb.startswith("Seq "):
                    fail(e, f"zip of {tya} and {tyb} (supported: a list and a lazy iterator)")
                return f"(Py.zipLazy {ta} {tb})", f"Seq ({elem_type(tya)} × {elem_type(tyb)})", False
            if fn.id == "DeviceError" and len(e.args) == 1:
                return f"(ErrObj.deviceError {self.pure(e.args[0], env, 'Str')})", "ErrObj", False
            if fn.id == "GscribError" and len(e.args) == 1 and isinstance(e.args[0], ast.JoinedStr):
                for part in e.args[0].values:
                    if isinstance(part, ast.FormattedValue):
                        v = part.value
                        if isinstance(v, ast.Call) and isinstance(v.func, ast.Name) and v.func.id == "str" and len(v.args) == 1 and not v.keywords:
                            v = v.args[0]
                        if not (isinstance(v, ast.Name) and v.id in env):
                            fail(e, "f-string over something else than names")
                return "ErrObj.gscribError", "ErrObj", False
            fail(e, f"call {ast.unparse(e)[:60]}")
        if isinstance(fn, ast.Attribute):
            m = self_attr(fn)
            if m is not None:
                sig = self.sigs.get(m)
                if sig is None or sig[0] != "fun":
                    fail(e, f"self.{m}(…) is not a translated function")
                return "(" + " ".join([m, "self"] + self.args(e, sig[1], env)) + ")", sig[2], False
            if self_attr(fn.value) == "_current_params" and fn.attr == "get" and len(e.args) == 1:
                return f"(ParamsDict.get self._current_params {self.pure(e.args[0], env, 'Str')})", "Option Rat", False
            recv, rty = self.pure(fn.value, env)
            if rty == "Re" and fn.attr == "findall" and len(e.args) == 1:
                return f"(Re.findall {recv} {self.pure(e.args[0], env, 'Str')})", "List (Str × Str)", False
            if rty == "Str":
                if fn.attr in ("strip", "lower", "upper") and not e.args:
                    return f"(Py.{fn.attr} {recv})", "Str", False
                if fn.attr == "isalnum" and not e.args:
                    return f"(Py.isalnum {recv})", "Bool", False
                if fn.attr == "startswith" and len(e.args) == 1:
                    t, ty = self.pure(e.args[0], env)
                    if ty == "Str":
                        return f"(Py.startswith {recv} {t})", "Bool", False
                    if ty == "List Str":
                        return f"(Py.startswithAny {recv} {t})", "Bool", False
                    fail(e, f"startswith({ty})")
                if fn.attr == "split" and len(e.args) == 1 and isinstance(e.args[0], ast.Constant) and isinstance(e.args[0].value, str) \
                        and len(e.args[0].value) == 1:
                    return f"(Py.split {recv} {lean_char(e.args[0].value)})", "List Str", False
            fail(e, f"method call {ast.unparse(e)[:60]} on {rty}")
        fail(e, f"call {ast.unparse(e)[:60]}")

    def args(self, call, types, env):
        if len(call.args) != len(types):
            fail(call, "number of arguments")
        return [self.pure(a, env, ty) for a, ty in zip(call.args, types)]

    # ------------------------------------------------------------------ statements
    def hoist(self, e, env, fn, ind, lines):
        """translate `e`; if it may raise, emit the match that ends the procedure on the error -> (text, type, new indent)"""
        t, ty, raises = self.expr(e, env)
        if not raises:
            return t, ty, ind
        fn["tmp"] += 1
        name = f"a{fn['tmp']}"
        lines += [f"{ind}match {t} with", f"{ind}| .error e => (self, some e)", f"{ind}| .ok {name} =>"]
        return name, ty, ind + "  "

    def block(self, stmts, env, ind, fn):
        """Lean lines of type `Res Writer` for the statements (`self` and the locals of `env` are in scope)"""
        if not stmts:
            return [f"{ind}(self, none)"]
        st, rest = stmts[0], stmts[1:]
        env = dict(env)
        out = []
        if is_doc(st):
            return self.block(rest, env, ind, fn)
        if isinstance(st, ast.Return):
            if st.value is not None:
                fail(st, "return with a value inside a procedure")
            if fn["in_for"]:
                fail(st, "return inside a loop")
            return [f"{ind}(self, none)   -- return (line {st.lineno})"]      # whatever follows is not executed
        if isinstance(st, ast.If):
            c = self.pure(st.test, env, "Bool")
            return ([f"{ind}if {c} then"] + self.block(st.body + rest, env, ind + "  ", fn)
                    + [f"{ind}else"] + self.block(st.orelse + rest, env, ind + "  ", fn))
        if isinstance(st, ast.Try):
            if rest:
                fail(rest[0], "statement after try/except (supported only as the last statement of a body)")
            if st.orelse or st.finalbody or len(st.handlers) != 1:
                fail(st, "try with else / finally / several handlers")
            h = st.handlers[0]
            if not (isinstance(h.type, ast.Name) and h.type.id == "Exception"):
                fail(h, "handler for something else than Exception")
            henv = dict(env)
            if h.name:
                henv[h.name] = "Exc"
            hb = self.block(h.body, henv, ind + "    ", fn)
            return ([f"{ind}Py.tryExcept (   -- try: (line {st.lineno})"] + self.block(st.body, env, ind + "    ", fn)
                    + [f"{ind}  ) (fun self {h.name or '_'} =>   -- except Exception: (line {h.lineno})"] + hb[:-1] + [hb[-1] + ")"])
        if isinstance(st, ast.For):
            if st.orelse:
                fail(st, "for … else")
            it, ity = self.pure(st.iter, env)
            ety = elem_type(ity)
            if ety is None:
                fail(st, f"loop over {ity}")
            parts = [p.strip() for p in ety.split("×")]
            if isinstance(st.target, ast.Name) and len(parts) == 1:
                targets, proj = [st.target.id], ["x"]
            elif isinstance(st.target, ast.Tuple) and all(isinstance(x, ast.Name) for x in st.target.elts) and len(st.target.elts) == len(parts) == 2:
                targets, proj = [x.id for x in st.target.elts], ["x.1", "x.2"]
            else:
                fail(st, f"loop target {ast.unparse(st.target)} over elements of type {ety}")
            used = {n.id for b in st.body for n in ast.walk(b) if isinstance(n, ast.Name)}
            caps = [v for v in env if v in used and v not in targets]
            name = self.lift_for(st, env, caps, targets, parts, fn)
            comb = "Py.forSeq" if ity.startswith("Seq ") else "Py.forList"
            out = [f"{ind}match {comb} {it} self (fun self x => {' '.join([name, 'self'] + caps + proj)}) with   -- for (line {st.lineno})",
                   f"{ind}| (self, some e) => (self, some e)", f"{ind}| (self, none) =>"]
            for v, ty in zip(targets, parts):       # Python leaves the loop variables bound; the translation does not
                env.pop(v, None)
            return out + self.block(rest, env, ind + "  ", fn)
        if isinstance(st, ast.Assign):
            if len(st.targets) != 1:
                fail(st, "multiple assignment")
            tg = st.targets[0]
            if isinstance(tg, ast.Name):
                if tg.id == "self" or tg.id in self.consts:
                    fail(st, f"assignment to {tg.id}")
                t, ty, ind2 = self.hoist(st.value, env, fn, ind, out)
                env[tg.id] = ty
                return out + [f"{ind2}let {tg.id} : {ty} := {t}"] + self.block(rest, env, ind2, fn)
            if isinstance(tg, ast.Tuple) and all(isinstance(x, ast.Name) for x in tg.elts) and len(tg.elts) >= 2:
                t = self.pure(st.value, env, "List Str")
                names = [x.id for x in tg.elts]
                if len(set(names)) != len(names) or "self" in names:
                    fail(st, "unpacking targets")
                for n in names:
                    env[n] = "Str"
                return ([f"{ind}match {t} with", f"{ind}| [{', '.join(names)}] =>"] + self.block(rest, env, ind + "  ", fn)
                        + [f"{ind}| _ => (self, some Exc.valueError)   -- unpacking a list of another length"])
            f = self_attr(tg)
            if f == "_device_error":
                if isinstance(st.value, ast.Constant) and st.value.value is None:
                    t = "none"
                else:
                    t = f"(some {self.pure(st.value, env, 'ErrObj')})"
                return [f"{ind}let self : Writer := {{ self with _device_error := {t} }}"] + self.block(rest, env, ind, fn)
            if isinstance(tg, ast.Subscript) and self_attr(tg.value) == "_current_params":
                k = self.pure(tg.slice, env, "Str")
                v = self.pure(st.value, env, "Rat")
                return ([f"{ind}let self : Writer := {{ self with _current_params := ParamsDict.setitem self._current_params {k} {v} }}"]
                        + self.block(rest, env, ind, fn))
            fail(st, f"assignment to {ast.unparse(tg)}")
        if isinstance(st, ast.Expr) and isinstance(st.value, ast.Call):
            c = st.value
            fnode = c.func
            if c.keywords:
                fail(st, "keyword arguments")
            if isinstance(fnode, ast.Attribute):
                owner = self_attr(fnode.value)
                if owner == "_logger" and fnode.attr in LOGGER:
                    for a in c.args:
                        if not (isinstance(a, ast.Constant) or (isinstance(a, ast.Name) and a.id in env)):
                            fail(st, "logger argument that is neither a literal nor a name")
                    return [f"{ind}-- self._logger.{fnode.attr}(…) (line {st.lineno}): dropped"] + self.block(rest, env, ind, fn)
                if owner == "_reported_params" and fnode.attr == "clear" and not c.args:
                    return ([f"{ind}let self : Writer := {{ self with _reported_params := PySet.clear self._reported_params }}"]
                            + self.block(rest, env, ind, fn))
                if owner == "_reported_params" and fnode.attr == "add" and len(c.args) == 1:
                    k = self.pure(c.args[0], env, "Str")
                    return ([f"{ind}let self : Writer := {{ self with _reported_params := PySet.add self._reported_params {k} }}"]
                            + self.block(rest, env, ind, fn))
                if owner == "_ack_event" and fnode.attr == "set" and not c.args:
                    return ([f"{ind}let self : Writer := {{ self with _ack_event := Event.set self._ack_event }}"]
                            + self.block(rest, env, ind, fn))
                m = self_attr(fnode)
                if m is not None:
                    sig = self.sigs.get(m)
                    if sig is None or sig[0] != "proc":
                        fail(st, f"self.{m}(…) is not a procedure translated earlier")
                    if len(c.args) != len(sig[1]):
                        fail(st, "number of arguments")
                    args = []
                    for a, want in zip(c.args, sig[1]):
                        t, ty, ind = self.hoist(a, env, fn, ind, out)
                        if ty != want:
                            fail(a, f"argument of type {ty}, expected {want}")
                        args.append(t)
                    return (out + [f"{ind}match {' '.join([m, 'self'] + args)} with", f"{ind}| (self, some e) => (self, some e)",
                                   f"{ind}| (self, none) =>"] + self.block(rest, env, ind + "  ", fn))
            fail(st, f"call statement {ast.unparse(st)[:60]}")
        fail(st, f"statement {ast.unparse(st)[:60]}")

    def lift_for(self, st, env, caps, targets, tys, fn):
        sh = fn["shared"]
        if id(st) in sh["loops"]:
            return sh["loops"][id(st)]
        sh["nloops"] += 1           # numbered in source order over the whole method, nested loops after their parent
        name = f"{fn['name']}_for{sh['nloops']}"
        sh["loops"][id(st)] = name
        inner = {"name": fn["name"], "tmp": 0, "in_for": True, "shared": sh}
        benv = {v: env[v] for v in caps}
        benv.update(dict(zip(targets, tys)))
        body = self.block(st.body, benv, "  ", inner)
        sig = "".join(f" ({v} : {benv[v]})" for v in caps + targets)
        self.defs.append(f"/-- body of the loop `for {ast.unparse(st.target)} in {ast.unparse(st.iter)}` of `{CLASS}.{fn['name']}` (source line {st.lineno}) -/\n"
                         f"def {name} (self : Writer){sig} : Res Writer :=\n" + "\n".join(body) + "\n")
        return name

    def method(self, name):
        m = self.methods.get(name)
        if m is None:
            raise Unsupported(f"{CLASS}.{name} not found")
        a = m.args
        if a.vararg or a.kwarg or a.kwonlyargs or a.posonlyargs or a.defaults or m.decorator_list or not a.args or a.args[0].arg != "self":
            fail(m, f"signature of {name}")
        env, sig, types = {}, "", []
        for p in a.args[1:]:
            ann = ast.unparse(p.annotation) if p.annotation else ""
            if ann not in ANNOT:
                fail(m, f"parameter {p.arg}: annotation {ann or 'missing'}")
            env[p.arg] = ANNOT[ann]
            types.append(ANNOT[ann])
            sig += f" ({p.arg} : {ANNOT[ann]})"
        body = [st for st in m.body if not is_doc(st)]
        if len(body) == 1 and isinstance(body[0], ast.Return) and body[0].value is not None:
            t, ty = self.pure(body[0].value, env)
            self.sigs[name] = ("fun", types, ty)
            self.defs.append(f"/-- `{CLASS}.{name}` (source line {m.lineno}) -/\ndef {name} (self : Writer){sig} : {ty} :=\n  {t}\n")
            return
        fn = {"name": name, "tmp": 0, "in_for": False, "shared": {"loops": {}, "nloops": 0}}
        lines = self.block(body, env, "  ", fn)
        self.sigs[name] = ("proc", types, "Res Writer")
        self.defs.append(f"/-- `{CLASS}.{name}` (source line {m.lineno}) -/\ndef {name} (self : Writer){sig} : Res Writer :=\n" + "\n".join(lines) + "\n")

    def render(self):
        out = [f"/- GENERATED by tools/gen_report.py from {SRC} (source text, by AST). Do not edit.",
               "   Assumptions of the translation: see the header of Model/ReportPrelude.lean (ASCII strings; `VALUE_PATTERN.findall` is the",
               "   model's scanner; `float()` is exact; exceptions by class; lazy `map`/`zip`; logger calls dropped). -/",
               "import GscribModel.Model.ReportPrelude", "namespace GscribModel.Gen.ReportSrc",
               "open GscribModel.Report GscribModel.ReportPy", "set_option linter.unusedVariables false", ""]
        for name in CONSTS:
            ty, text, doc = self.consts[name]
            out.append(f"/-- {doc} -/\ndef {name} : {ty} :=\n  {text}\n")
        out.append(f"/-- the attributes of `{CLASS}` that the translated methods read or write -/\nstructure Writer where")
        out += [f"  {f} : {ty}" for f, (_, ty, _) in FIELDS.items()]
        out.append("deriving Repr, DecidableEq\n")
        out.append("/-- as `__init__` leaves them: " + ", ".join(f"`{f} = {t}`" for f, (t, _, _) in FIELDS.items()) + " -/")
        out.append("def Writer.init : Writer :=\n  { " + ", ".join(f"{f} := {v}" for f, (_, _, v) in FIELDS.items()) + " }\n")
        for name in ORDER:
            self.method(name)
        out += self.defs
        out.append("def translated : List String := [" + ", ".join(f'"{n}"' for n in ORDER) + "]\n")
        out.append("end GscribModel.Gen.ReportSrc")
        return "\n".join(out) + "\n"


def main():
    args = [a for i, a in enumerate(sys.argv[1:], 1) if not a.startswith("--") and sys.argv[i - 1] != "--out"]
    repo = Path(args[0] if args else os.environ.get("GSCRIB_REPO", "/repo"))
    try:
        text = T(repo).render()
    except Unsupported as e:
        print("gen_report: the source is outside the translated subset:", e, file=sys.stderr)
        raise SystemExit(3)
    except (SyntaxError, OSError) as e:
        print("gen_report: cannot read the source:", e, file=sys.stderr)
        raise SystemExit(3)
    if "--stdout" in sys.argv:
        sys.stdout.write(text)
        return
    out = Path(sys.argv[sys.argv.index("--out") + 1]) if "--out" in sys.argv else OUT
    out.parent.mkdir(parents=True, exist_ok=True)
    if not out.exists() or out.read_text() != text:
        out.write_text(text)
        print("gen_report: rewrote", out)


if __name__ == "__main__":
    main()

#!/usr/bin/env python3
"""Verdict of the translator ties alone on the seeded changes: for each `seeded/<id>/patch.diff`, a scratch worktree of /repo
with the patch applied (never /repo itself), every registered tie of harness/core.py run against it.

    tools/tie_verdicts.py [ids...]        (default: every id not yet in seeded/tie_verdicts.json)

Per tie: `ok` (translation unchanged or the theorems re-check), `refused` (the translator refuses the patched source),
`broken` (a tie theorem no longer checks).  Only ties whose translated files are touched by the patch are run; a patch
that touches none of them gets `{}`.  Results are merged into seeded/tie_verdicts.json."""
import json
import os
import subprocess
import sys
import tempfile
from concurrent.futures import ThreadPoolExecutor
from pathlib import Path

V = Path(__file__).resolve().parent.parent
SEEDED = V / "seeded"
OUT = SEEDED / "tie_verdicts.json"

CHILD = r"""
import json, sys
sys.path.insert(0, %r)
from harness import core
core.use_repo()
r = core.check_generated_tie(sys.argv[1])
v = "ok" if r["ok"] and all(a is not None for a in r["theorems"].values()) else ("refused" if "refused" in r["log"][:80] else "broken")
print("VERDICT " + json.dumps({"verdict": v, "regenerated": r["regenerated"], "log": r["log"][-300:] if v != "ok" else ""}))
""" % str(V)


def one(sid):
    sys.path.insert(0, str(V))
    from harness import core
    d = Path(tempfile.mkdtemp(prefix=f"tiev_{sid}_", dir="/tmp"))
    d.rmdir()
    subprocess.run(["git", "-C", "/repo", "worktree", "add", "-f", "--detach", str(d), "HEAD", "-q"], check=True, capture_output=True)
    res = {}
    try:
        a = subprocess.run(["git", "apply", str(SEEDED / sid / "patch.diff")], cwd=d, capture_output=True, text=True)
        if a.returncode:
            return sid, {"_": "patch does not apply"}
        touched = subprocess.run(["git", "diff", "--name-only"], cwd=d, capture_output=True, text=True).stdout.split()
        for key in core.GEN_TIES:
            env = dict(os.environ, GSCRIB_REPO=str(d))
            p = subprocess.run([sys.executable, "-c", CHILD, key], cwd=V, env=env, capture_output=True, text=True, timeout=3600)
            line = [l for l in p.stdout.splitlines() if l.startswith("VERDICT ")]
            if not line:
                res[key] = "infra-error"
                continue
            r = json.loads(line[0][8:])
            if r["regenerated"] or r["verdict"] != "ok":
                res[key] = r["verdict"]
        res["_touched"] = touched
    finally:
        subprocess.run(["git", "-C", "/repo", "worktree", "remove", "--force", str(d)], capture_output=True)
    return sid, res


if __name__ == "__main__":
    have = json.loads(OUT.read_text()) if OUT.exists() else {}
    ids = sys.argv[1:] or [t.parent.name for t in sorted(SEEDED.glob("*/meta.json")) if t.parent.name not in have]
    with ThreadPoolExecutor(max_workers=int(os.environ.get("VERIF_JOBS", "6"))) as ex:
        for sid, res in ex.map(one, ids):
            touched = res.pop("_touched", None)
            have[sid] = res
            print(sid, res, flush=True)
            OUT.write_text(json.dumps(dict(sorted(have.items())), indent=1) + "\n")

#!/usr/bin/env python3
"""Translator: gscrib/printrun/gcoder.py (the index bookkeeping of class GCode)  ->  GscribModel/Gen/GcoderSrc.lean

`printcore._sendnext` finds the k-th line of a job as `(layer, line) = q.idxs(k); q.all_layers[layer][line]`.  That this is
the k-th line the caller handed over is an invariant of three lists (`all_layers`, `layer_idxs`, `line_idxs`) kept by
`GCode._preprocess(build_layers=True)` and `GCode.append`.  This translator reads the source text (by AST; nothing is
imported or executed) and emits the statements that create, extend and read those lists as Lean functions on the record
`GcoderPy.GCode α` of `Model/GcoderPrelude.lean`; `Props/GcoderTie.lean` proves the invariant of them.

Translated
  * `GCode.__len__`, `GCode.has_index`, `GCode.idxs`: one `return` each (int expressions, one comparison, a tuple of `list[i]`).
  * in `GCode._preprocess`, only under `if build_layers:` -
      - `NAME = self.ATTR = []` for the three lists (the local and the attribute are then the same object),
      - the nested `def append_lines(lines, …)`,
      - the closing block (`self.append_layer_id = …; self.append_layer = Layer([]); all_layers.append(self.append_layer);
        self.layer_idxs = array('I', layer_idxs); …`),
    and `preprocess_layers` = creation; one `append_lines` per element of an arbitrary list of (Boolean, lines); closing block.
    The calls of `append_lines` must sit between the creation and the closing statements; *when* they are made, with which lines,
    and the part of the new-layer test that does not mention the lists are NOT translated (parameters of the translation).
  * `GCode.append` after its fixed prologue (`command = command.strip(); if not command: return; gline = Line(command);
    self._preprocess([gline])` - checked by text; `_preprocess` without `build_layers` runs none of the bookkeeping).
  * the branch of `GCode.prepare` without data.
  Checked by text: class `Layer` (a `list` whose `__init__` copies its argument), `from array import array`, the default
  `build_layers = False`, `prepare` calling `self._preprocess(build_layers=True, …)`.

Subset (anything else touching the lists is refused, exit 3)
  statements  `L.append(E)` on `layer_idxs` / `line_idxs` (E an int expression); `all_layers.append(X)` for a fresh layer X;
              `X.append(ln)` for a layer X of `all_layers` and a line `ln`; `self.lines.append(ln)`; `self.lines = []`;
              `NAME = <int expression>`; `NAME = Layer([], …)` / `self.append_layer = Layer([])` (fresh, empty; only
              `X.duration = …` / `X.z = …` may come before it is put into `all_layers`); `NAME = all_layers[-1]` (only in the
              `else` of a test `… or not all_layers`); `self.append_layer_id = <int expression>`;
              `self.all_layers = [self.append_layer]`; `self.ATTR = array('I', <the same list> | [])`;
              `if <oracle> or not all_layers:` / `if <bool parameter>:` with the rest of the body continued in both branches;
              `for i, ln in enumerate(lines):` over the lines parameter with simple statements as body; `return`.
  int expr    int literals, int locals, `self.append_layer_id`, `len(<list>)`, `len(self)`, `+`, `-`.
  Every other statement must leave the lists alone: the tracked names may occur in it only as `len(X)`, in a truth test, or
  as `X.duration` / `X.z`; it may not assign a name the translation uses (such a name becomes unusable) and, when compound,
  may not contain `return` / `raise` / `break` / `continue`.

Assumptions (trusted base, see the prelude): line objects opaque; ints are `Int`; a `Layer` inside `all_layers` is named by
its position; `array('I', xs)` keeps the ints; `layer_callback` (caller code) does not touch the lists.

usage: gen_gcoder.py [repo_root] [--out FILE | --stdout]
"""
import ast
import os
import sys
from pathlib import Path

V = Path(__file__).resolve().parent.parent
OUT = V / "lean" / "GscribModel" / "Gen" / "GcoderSrc.lean"
SRC = "gscrib/printrun/gcoder.py"

LISTS = ("all_layers", "layer_idxs", "line_idxs")
TRACKED = LISTS + ("append_layer", "append_layer_id")
MUTATORS = {"append", "extend", "insert", "pop", "remove", "clear", "sort", "reverse", "fromlist", "frombytes", "fromfile",
            "fromunicode", "byteswap", "__setitem__", "__delitem__", "__iadd__", "__imul__", "update", "add", "discard"}
LEAN_WORDS = {"self", "lines", "fun", "let", "if", "then", "else", "do", "at", "by", "end", "from", "have", "show", "in", "def",
              "match", "with", "where", "open", "namespace", "theorem", "Type", "Nat", "Int", "List", "newLayer",
              "commandEmpty", "batches", "pure", "some", "none", "true", "false", "for", "return", "instance"}


class Unsupported(Exception):
    pass


def fail(node, what):
    raise Unsupported(f"line {getattr(node, 'lineno', '?')}: {what}")


def un(n):
    return ast.unparse(n)


def is_self_attr(e, names=None):
    return (isinstance(e, ast.Attribute) and isinstance(e.value, ast.Name) and e.value.id == "self"
            and (names is None or e.attr in names))


def lean_name(n, node):
    if not n.isidentifier() or not n.isascii():
        fail(node, f"name {n!r}")
    return n + "_" if n in LEAN_WORDS else n


class Env:
    """kinds: int | layerref | fresh | line | lines | bool | opaque; `aliases`: local name -> tracked list attribute"""

    def __init__(self, aliases=None, kinds=None, nonempty=False, fresh_attr=None, bound_attr=False):
        self.aliases = dict(aliases or {})
        self.kinds = dict(kinds or {})
        self.nonempty = nonempty          # `all_layers` is known to be non-empty (else-branch of `… or not all_layers`)
        self.fresh_attr = fresh_attr      # line number of a pending `self.append_layer = Layer([])`
        self.bound_attr = bound_attr      # `self.append_layer` was bound in this function

    def copy(self):
        return Env(self.aliases, self.kinds, self.nonempty, self.fresh_attr, self.bound_attr)

    def tracked(self, e):
        """the tracked list attribute an expression names, or None"""
        if isinstance(e, ast.Name) and e.id in self.aliases and self.kinds.get(e.id) is None:
            return self.aliases[e.id]
        if is_self_attr(e, LISTS):
            return e.attr
        return None


class T:
    def __init__(self, repo):
        path = repo / SRC
        if not path.exists():
            raise Unsupported(f"{SRC} not found")
        tree = ast.parse(path.read_text())
        self.tree = tree
        cls = [n for n in tree.body if isinstance(n, ast.ClassDef) and n.name == "GCode"]
        if len(cls) != 1:
            raise Unsupported("class GCode not found")
        self.methods = {}
        for n in cls[0].body:
            if isinstance(n, ast.FunctionDef):
                if n.name in self.methods and n.name in ("__len__", "has_index", "idxs", "append", "_preprocess", "prepare"):
                    fail(n, f"GCode.{n.name} defined twice")
                self.methods[n.name] = n
        self.check_environment()

    # ------------------------------------------------------------------ fixed texts
    def check_environment(self):
        tree = self.tree
        if not any(isinstance(n, ast.ImportFrom) and n.module == "array" and [a.name for a in n.names] == ["array"] and not n.names[0].asname
                   for n in tree.body):
            raise Unsupported("`from array import array` not found")
        lay = [n for n in tree.body if isinstance(n, ast.ClassDef) and n.name == "Layer"]
        if len(lay) != 1 or [un(b) for b in lay[0].bases] != ["list"]:
            raise Unsupported("class Layer(list) not found")
        fns = [n for n in lay[0].body if isinstance(n, ast.FunctionDef)]
        if [f.name for f in fns] != ["__init__"]:
            fail(lay[0], "class Layer: expected exactly the method __init__")
        init = fns[0]
        if un(init.args) != "self, lines, z=None" or [un(s) for s in init.body] != [
                "super(Layer, self).__init__(lines)", "self.z = z", "self.duration = 0"]:
            fail(init, "Layer.__init__ is not `super(Layer, self).__init__(lines); self.z = z; self.duration = 0`")
        for n in ast.walk(tree):      # the names the translation gives a fixed meaning to are not rebound
            if isinstance(n, (ast.Assign, ast.AugAssign, ast.AnnAssign)):
                tg = n.targets if isinstance(n, ast.Assign) else [n.target]
                for t in tg:
                    for m in ast.walk(t):
                        if isinstance(m, ast.Name) and isinstance(m.ctx, ast.Store) and m.id in ("Layer", "array", "len", "enumerate"):
                            fail(n, f"{m.id} is rebound")
            if isinstance(n, (ast.FunctionDef, ast.ClassDef)) and n.name in ("array", "len", "enumerate"):
                fail(n, f"{n.name} is redefined")

    # ------------------------------------------------------------------ expressions
    def lexpr(self, e, env):
        """a list-valued expression -> Lean text, or None"""
        t = env.tracked(e)
        if t is not None:
            return f"self.{t}"
        if isinstance(e, ast.Name) and env.kinds.get(e.id) == "layerref":
            return f"(Py.layerAt self.all_layers {lean_name(e.id, e)})"
        if is_self_attr(e, ("append_layer",)) and env.fresh_attr is None:
            return "(Py.layerAt self.all_layers self.append_layer)"
        if isinstance(e, ast.Name) and env.kinds.get(e.id) == "lines":
            return "lines"
        return None

    def iexpr(self, e, env):
        """an int-valued expression -> Lean text, or None"""
        if isinstance(e, ast.Constant) and isinstance(e.value, int) and not isinstance(e.value, bool):
            return f"({e.value} : Int)" if e.value >= 0 else None
        if isinstance(e, ast.Name):
            return lean_name(e.id, e) if env.kinds.get(e.id) == "int" else None
        if is_self_attr(e, ("append_layer_id",)):
            return "self.append_layer_id"
        if isinstance(e, ast.BinOp) and isinstance(e.op, (ast.Add, ast.Sub)):
            a, b = self.iexpr(e.left, env), self.iexpr(e.right, env)
            if a is None or b is None:
                return None
            return f"({a} {'+' if isinstance(e.op, ast.Add) else '-'} {b})"
        if isinstance(e, ast.Call) and isinstance(e.func, ast.Name) and e.func.id == "len" and len(e.args) == 1 and not e.keywords:
            a = e.args[0]
            if isinstance(a, ast.Name) and a.id == "self" and env.kinds.get("self") == "gcode":
                return "(GCode_len self)"
            t = self.lexpr(a, env)
            return None if t is None else f"(Py.len {t})"
        return None

    # ------------------------------------------------------------------ the three small methods
    def small_methods(self):
        out = []
        m = self.method("__len__")
        self.sig(m, ["self"])
        body = self.body_of(m)
        env = Env(kinds={})
        if len(body) != 1 or not isinstance(body[0], ast.Return) or body[0].value is None:
            fail(m, "GCode.__len__: expected one `return <int expression>`")
        t = self.iexpr(body[0].value, env)
        if t is None:
            fail(m, f"GCode.__len__: `{un(body[0].value)}` is not an int expression of the subset")
        out += [f"/-- `GCode.__len__` (source line {m.lineno}) -/", "def GCode_len (self : GCode α) : Int :=", f"  {t}", ""]

        m = self.method("has_index")
        ps = self.sig(m, ["self", None])
        body = self.body_of(m)
        env = Env(kinds={"self": "gcode", ps[1]: "int"})
        if len(body) != 1 or not isinstance(body[0], ast.Return) or not isinstance(body[0].value, ast.Compare) or len(body[0].value.ops) != 1:
            fail(m, "GCode.has_index: expected one `return <a> <op> <b>`")
        c = body[0].value
        a, b = self.iexpr(c.left, env), self.iexpr(c.comparators[0], env)
        ops = {ast.Lt: "<", ast.LtE: "≤", ast.Gt: ">", ast.GtE: "≥", ast.Eq: "=", ast.NotEq: "≠"}
        if a is None or b is None or type(c.ops[0]) not in ops:
            fail(m, f"GCode.has_index: `{un(c)}` is not a comparison of int expressions")
        out += [f"/-- `GCode.has_index` (source line {m.lineno}) -/",
                f"def GCode_has_index (self : GCode α) ({lean_name(ps[1], m)} : Int) : Bool :=", f"  (decide ({a} {ops[type(c.ops[0])]} {b}))", ""]

        m = self.method("idxs")
        ps = self.sig(m, ["self", None])
        body = self.body_of(m)
        env = Env(kinds={ps[1]: "int"})
        if len(body) != 1 or not isinstance(body[0], ast.Return) or not isinstance(body[0].value, ast.Tuple) or len(body[0].value.elts) != 2:
            fail(m, "GCode.idxs: expected one `return <list>[i], <list>[j]`")
        binds = []
        for k, el in enumerate(body[0].value.elts):
            if not (isinstance(el, ast.Subscript) and is_self_attr(el.value, ("layer_idxs", "line_idxs"))):
                fail(m, f"GCode.idxs: `{un(el)}` is not an element of self.layer_idxs / self.line_idxs")
            ix = self.iexpr(el.slice, env)
            if ix is None:
                fail(m, f"GCode.idxs: index `{un(el.slice)}`")
            binds.append(f"  let r{k} ← Py.getItem self.{el.value.attr} {ix}")
        out += [f"/-- `GCode.idxs` (source line {m.lineno}); `none` = `IndexError` -/",
                f"def GCode_idxs (self : GCode α) ({lean_name(ps[1], m)} : Int) : Option (Int × Int) := do"] + binds + ["  pure (r0, r1)", ""]
        return out

    def method(self, name):
        m = self.methods.get(name)
        if m is None:
            raise Unsupported(f"GCode.{name} not found")
        if m.decorator_list:
            fail(m, f"GCode.{name} is decorated")
        return m

    def sig(self, m, want):
        a = m.args
        if a.vararg or a.kwarg or a.kwonlyargs or a.posonlyargs or (want is not None and len(a.args) != len(want)):
            fail(m, f"signature of {m.name}")
        names = [x.arg for x in a.args]
        for w, n in zip(want or [], names):
            if w is not None and w != n:
                fail(m, f"signature of {m.name}: parameter {n}")
        return names

    @staticmethod
    def body_of(m):
        b = list(m.body)
        if b and isinstance(b[0], ast.Expr) and isinstance(b[0].value, ast.Constant) and isinstance(b[0].value.value, str):
            b = b[1:]
        return b

    # ------------------------------------------------------------------ statements that must leave the lists alone
    def mentions(self, node, env):
        """does `node` mention a tracked list, a layer object, or a tracked attribute of self"""
        for n in ast.walk(node):
            if isinstance(n, ast.Name) and (env.tracked(n) is not None or env.kinds.get(n.id) in ("layerref", "fresh")):
                return True
            if is_self_attr(n, TRACKED):
                return True
        return False

    def readonly(self, node, env, what="statement"):
        """refuse unless every mention of a tracked object inside `node` is a read of its length / truth value (or the
        `duration` / `z` attribute of a layer)"""
        def is_obj(n):
            return ((isinstance(n, ast.Name) and (env.tracked(n) is not None or env.kinds.get(n.id) in ("layerref", "fresh")))
                    or is_self_attr(n, TRACKED))

        def walk(n, ctx):
            if is_obj(n):
                if isinstance(getattr(n, "ctx", None), (ast.Store, ast.Del)):
                    fail(n, f"{what} assigns `{un(n)}` outside the translated statements")
                if is_self_attr(n, ("append_layer_id",)):
                    return      # an int: reading it is harmless
                if ctx not in ("len", "test", "attr"):
                    fail(n, f"{what} uses `{un(n)}` other than as len(…) / a truth test: `{un(node)[:70]}`")
                return
            if isinstance(n, ast.Call) and isinstance(n.func, ast.Name) and n.func.id == "len" and len(n.args) == 1 and not n.keywords:
                walk(n.args[0], "len")
                return
            if isinstance(n, ast.Attribute) and n.attr in ("duration", "z") and is_obj(n.value) and not is_self_attr(n.value, LISTS + ("append_layer_id",)) \
                    and env.tracked(n.value) is None:
                return
            if isinstance(n, (ast.If, ast.While, ast.IfExp)):
                walk(n.test, "test")
                for f in ("body", "orelse"):
                    v = getattr(n, f)
                    for c in (v if isinstance(v, list) else [v]):
                        walk(c, None)
                return
            if isinstance(n, ast.UnaryOp) and isinstance(n.op, ast.Not):
                walk(n.operand, "test")
                return
            if isinstance(n, ast.BoolOp):
                for v in n.values:
                    walk(v, "test" if ctx == "test" else ctx)
                return
            for c in ast.iter_child_nodes(n):
                walk(c, None)
        walk(node, None)

    def skip(self, st, env, where):
        """a statement that is not translated: it must leave the lists alone, names it assigns become unusable"""
        self.readonly(st, env, f"{where}: untranslated statement")
        if not isinstance(st, (ast.Assign, ast.AugAssign, ast.AnnAssign, ast.Expr, ast.Nonlocal, ast.Global, ast.Pass)):
            for n in ast.walk(st):
                if isinstance(n, (ast.Return, ast.Raise, ast.Break, ast.Continue, ast.Yield, ast.YieldFrom)):
                    fail(n, f"{where}: `{type(n).__name__.lower()}` inside an untranslated compound statement")
        for n in ast.walk(st):
            if isinstance(n, ast.Name) and isinstance(n.ctx, (ast.Store, ast.Del)):
                if n.id in env.aliases and env.kinds.get(n.id) is None:
                    fail(n, f"{where}: `{n.id}` (the list self.{env.aliases[n.id]}) is reassigned")
                if n.id in env.kinds:
                    if env.kinds[n.id] in ("layerref", "fresh", "lines", "bool", "gcode"):
                        fail(n, f"{where}: `{n.id}` is reassigned by an untranslated statement")
                    env.kinds[n.id] = "opaque"
            if isinstance(n, (ast.FunctionDef, ast.Lambda, ast.ClassDef, ast.AsyncFunctionDef)) and n is not st:
                pass

    # ------------------------------------------------------------------ the block translator
    def simple(self, st, env, where, in_loop=False):
        """one non-compound statement -> list of Lean lines (without indentation), or None when it is not one of the
        translated forms"""
        W = "let self : GCode α := { self with "
        c = f"-- line {st.lineno}: {un(st)}"
        # ---- method calls `X.append(E)`
        if isinstance(st, ast.Expr) and isinstance(st.value, ast.Call) and isinstance(st.value.func, ast.Attribute):
            call, recv, meth = st.value, st.value.func.value, st.value.func.attr
            t = env.tracked(recv)
            is_layer = (isinstance(recv, ast.Name) and env.kinds.get(recv.id) in ("layerref", "fresh")) or is_self_attr(recv, ("append_layer",))
            is_lines = is_self_attr(recv, ("lines",))
            if t is None and not is_layer and not is_lines:
                return None
            if meth != "append" or len(call.args) != 1 or call.keywords:
                fail(st, f"{where}: `{un(st)}`: only `.append(x)` is translated on the index lists and layers")
            arg = call.args[0]
            if t in ("layer_idxs", "line_idxs"):
                v = self.iexpr(arg, env)
                if v is None:
                    fail(st, f"{where}: `{un(arg)}` is not an int expression of the subset")
                return [c, f"{W}{t} := self.{t} ++ [{v}] }}"]
            if t == "all_layers":
                if isinstance(arg, ast.Name) and env.kinds.get(arg.id) == "fresh":
                    if in_loop:
                        fail(st, f"{where}: a layer is created inside the loop")
                    env.kinds[arg.id] = "layerref"
                    n = lean_name(arg.id, arg)
                    return [f"-- line {st.lineno}: {un(st)}   ({arg.id}: the fresh, empty Layer)",
                            f"let {n} : Nat := self.all_layers.length", f"{W}all_layers := self.all_layers ++ [[]] }}"]
                if is_self_attr(arg, ("append_layer",)) and env.fresh_attr is not None:
                    env.fresh_attr, env.bound_attr = None, True
                    return [f"-- line {st.lineno}: {un(st)}   (self.append_layer: the fresh, empty Layer)",
                            f"{W}append_layer := self.all_layers.length, all_layers := self.all_layers ++ [[]] }}"]
                fail(st, f"{where}: `{un(st)}`: only a fresh, empty Layer may be put into all_layers")
            if is_lines:
                if not (isinstance(arg, ast.Name) and env.kinds.get(arg.id) == "line"):
                    fail(st, f"{where}: `{un(st)}`: not a line object")
                return [c, f"{W}lines := self.lines ++ [{lean_name(arg.id, arg)}] }}"]
            # a layer object
            if not (isinstance(arg, ast.Name) and env.kinds.get(arg.id) == "line"):
                fail(st, f"{where}: `{un(st)}`: not a line object")
            if isinstance(recv, ast.Name):
                if env.kinds[recv.id] != "layerref":
                    fail(st, f"{where}: `{un(st)}`: the layer is not in all_layers yet")
                return [c, f"{W}all_layers := Py.layerAppend self.all_layers {lean_name(recv.id, recv)} {lean_name(arg.id, arg)} }}"]
            if env.fresh_attr is not None:
                fail(st, f"{where}: `{un(st)}`: self.append_layer is not in all_layers yet")
            return [c, f"{W}all_layers := Py.layerAppend self.all_layers self.append_layer {lean_name(arg.id, arg)} }}"]
        if not isinstance(st, ast.Assign):
            return None
        # ---- `NAME = self.ATTR = []`
        if len(st.targets) == 2 and isinstance(st.targets[0], ast.Name) and is_self_attr(st.targets[1], LISTS):
            if not (isinstance(st.value, ast.List) and not st.value.elts) or in_loop:
                fail(st, f"{where}: `{un(st)}`: expected `name = self.{st.targets[1].attr} = []`")
            n, a = st.targets[0].id, st.targets[1].attr
            if a in env.aliases.values() or n in env.aliases or n in env.kinds:
                fail(st, f"{where}: self.{a} / {n} is created twice")
            env.aliases[n] = a
            return [c, f"{W}{a} := [] }}"]
        if len(st.targets) != 1:
            return None
        tg, v = st.targets[0], st.value
        # ---- attributes of self
        if is_self_attr(tg, ("append_layer_id",)):
            t = self.iexpr(v, env)
            if t is None:
                fail(st, f"{where}: `{un(v)}` is not an int expression of the subset")
            return [c, f"{W}append_layer_id := {t} }}"]
        if is_self_attr(tg, ("append_layer",)):
            if un(v) != "Layer([])" or in_loop or env.fresh_attr is not None:
                fail(st, f"{where}: `{un(st)}`: expected `self.append_layer = Layer([])`")
            env.fresh_attr = st.lineno
            return [f"-- line {st.lineno}: {un(st)}   (a fresh, empty Layer; it gets its place when it is put into all_layers)"]
        if is_self_attr(tg, ("all_layers",)):
            if un(v) == "[self.append_layer]" and env.fresh_attr is not None and not in_loop:
                env.fresh_attr, env.bound_attr = None, True
                return [f"-- line {st.lineno}: {un(st)}   (self.append_layer: the fresh, empty Layer)", f"{W}append_layer := 0, all_layers := [[]] }}"]
            fail(st, f"{where}: `{un(st)}`: self.all_layers is assigned")
        if is_self_attr(tg, ("layer_idxs", "line_idxs")):
            a = tg.attr
            if (isinstance(v, ast.Call) and isinstance(v.func, ast.Name) and v.func.id == "array" and len(v.args) == 2 and not v.keywords
                    and isinstance(v.args[0], ast.Constant) and v.args[0].value == "I"):
                src = v.args[1]
                if isinstance(src, ast.List) and not src.elts:
                    return [c, f"{W}{a} := Py.array_I [] }}"]
                if env.tracked(src) == a:
                    return [c, f"{W}{a} := Py.array_I self.{a} }}"]
            fail(st, f"{where}: `{un(st)}`: expected `self.{a} = array('I', <that list> | [])`")
        if is_self_attr(tg, ("lines",)):
            if isinstance(v, ast.List) and not v.elts:
                return [c, f"{W}lines := [] }}"]
            return None
        # ---- locals
        if isinstance(tg, ast.Name):
            n = tg.id
            if n in env.aliases and env.kinds.get(n) is None:
                fail(st, f"{where}: `{n}` (the list self.{env.aliases[n]}) is reassigned")
            if env.kinds.get(n) in ("lines", "line", "bool", "gcode") or (in_loop and n in env.kinds):
                fail(st, f"{where}: `{n}` is reassigned")
            if isinstance(v, ast.Call) and isinstance(v.func, ast.Name) and v.func.id == "Layer":
                if in_loop or not v.args or not (isinstance(v.args[0], ast.List) and not v.args[0].elts) or len(v.args) > 2 or v.keywords:
                    fail(st, f"{where}: `{un(st)}`: only `Layer([], …)` (a fresh, empty layer) is translated")
                if len(v.args) == 2 and self.mentions(v.args[1], env):
                    fail(st, f"{where}: `{un(st)}`")
                if env.kinds.get(n) in ("fresh", "layerref"):
                    fail(st, f"{where}: `{n}` is bound to a layer twice on one path")
                env.kinds[n] = "fresh"
                return [f"-- line {st.lineno}: {un(st)}   (a fresh, empty Layer; it gets its place when it is put into all_layers)"]
            if (isinstance(v, ast.Subscript) and env.tracked(v.value) == "all_layers" and un(v.slice) == "-1"):
                if not env.nonempty or in_loop:
                    fail(st, f"{where}: `{un(st)}` is translated only behind the test `… or not all_layers`")
                if env.kinds.get(n) in ("fresh", "layerref"):
                    fail(st, f"{where}: `{n}` is bound to a layer twice on one path")
                env.kinds[n] = "layerref"
                return [c, f"let {lean_name(n, tg)} : Nat := self.all_layers.length - 1"]
            t = self.iexpr(v, env)
            if t is not None:
                if env.kinds.get(n) in ("fresh", "layerref"):
                    fail(st, f"{where}: `{n}` names a layer and is reassigned")
                env.kinds[n] = "int"
                return [c, f"let {lean_name(n, tg)} : Int := {t}"]
        return None

    def pending_fresh(self, st, env, where):
        """while a fresh layer is not yet in all_layers nothing but `X.duration = …` / `X.z = …` may touch it"""
        fresh = {n for n, k in env.kinds.items() if k == "fresh"}
        for n in ast.walk(st):
            hit = (isinstance(n, ast.Name) and n.id in fresh) or (env.fresh_attr is not None and is_self_attr(n, ("append_layer",)))
            if not hit:
                continue
            ok = False
            if isinstance(st, ast.Assign) and len(st.targets) == 1 and isinstance(st.targets[0], ast.Attribute) and st.targets[0].value is n \
                    and st.targets[0].attr in ("duration", "z") and not self.mentions(st.value, env):
                ok = True
            if isinstance(st, ast.Expr) and isinstance(st.value, ast.Call) and isinstance(st.value.func, ast.Attribute) \
                    and env.tracked(st.value.func.value) == "all_layers" and st.value.func.attr == "append" and st.value.args and st.value.args[0] is n:
                ok = True
            if isinstance(st, ast.Assign) and is_self_attr(st.targets[0], ("all_layers",)) and un(st.value) == "[self.append_layer]":
                ok = True
            if not ok:
                fail(st, f"{where}: `{un(st)[:60]}` touches a Layer that is not in all_layers yet")

    def block(self, stmts, env, ind, where, oracle=None):
        """statements -> Lean lines ending in the value `self`; an `if` continues the rest of the body in both branches"""
        out = []
        P = " " * ind
        for k, st in enumerate(stmts):
            rest = stmts[k + 1:]
            has_fresh = env.fresh_attr is not None or "fresh" in env.kinds.values()
            if has_fresh:
                self.pending_fresh(st, env, where)
                if isinstance(st, ast.Assign) and len(st.targets) == 1 and isinstance(st.targets[0], ast.Attribute) \
                        and st.targets[0].attr in ("duration", "z") and not self.mentions(st.value, env) \
                        and not is_self_attr(st.targets[0]):
                    continue      # `X.duration = …` on the fresh layer
            if isinstance(st, ast.Return):
                if st.value is not None and self.mentions(st.value, env):
                    fail(st, f"{where}: `{un(st)}`")
                self.end_check(st, env, where)
                return out + [f"{P}-- line {st.lineno}: {un(st)}", f"{P}self"]
            if isinstance(st, ast.If):
                cond = self.test(st.test, env, oracle)
                if cond is not None:
                    text, nonempty_else = cond
                    e1, e2 = env.copy(), env.copy()
                    e2.nonempty = e2.nonempty or nonempty_else
                    a = self.block(list(st.body) + rest, e1, ind + 2, where, oracle)
                    b = self.block(list(st.orelse) + rest, e2, ind + 2, where, oracle)
                    return out + [f"{P}-- line {st.lineno}: if {un(st.test)}:", f"{P}if {text} then"] + a + [f"{P}else"] + b
                self.skip(st, env, where)
                continue
            if isinstance(st, ast.For):
                loop = self.loop(st, env, ind, where)
                if loop is not None:
                    out += loop
                    continue
                self.skip(st, env, where)
                continue
            lines = self.simple(st, env, where)
            if lines is None:
                self.skip(st, env, where)
                continue
            out += [P + l for l in lines]
        self.end_check(stmts[-1] if stmts else None, env, where)
        return out + [f"{P}self"]

    def end_check(self, node, env, where):
        if env.fresh_attr is not None or "fresh" in env.kinds.values():
            fail(node, f"{where}: a Layer is created and never put into all_layers")

    def test(self, e, env, oracle):
        """an `if` test -> (Lean Bool text, all_layers is non-empty in the else-branch), or None when the `if` is not a
        translated one"""
        if isinstance(e, ast.Name) and env.kinds.get(e.id) == "bool":
            return lean_name(e.id, e) if e.id != "store" else "store", False
        if isinstance(e, ast.BoolOp) and isinstance(e.op, ast.Or) and oracle is not None:
            last = e.values[-1]
            if isinstance(last, ast.UnaryOp) and isinstance(last.op, ast.Not) and env.tracked(last.operand) == "all_layers":
                others = e.values[:-1]
                if not others or any(self.mentions(o, env) for o in others):
                    fail(e, f"the test `{un(e)}` reads the lists in its untranslated part")
                return f"({oracle} || (Py.isEmpty self.all_layers))", True
        return None

    def loop(self, st, env, ind, where):
        """`for i, ln in enumerate(lines): <simple statements>` -> a fold, or None when the loop is not a translated one"""
        P = " " * ind
        it = st.iter
        shape = (isinstance(it, ast.Call) and isinstance(it.func, ast.Name) and it.func.id == "enumerate" and len(it.args) == 1 and not it.keywords
                 and isinstance(it.args[0], ast.Name) and env.kinds.get(it.args[0].id) == "lines"
                 and isinstance(st.target, ast.Tuple) and len(st.target.elts) == 2 and all(isinstance(x, ast.Name) for x in st.target.elts))
        if not shape:
            return None
        if st.orelse:
            fail(st, f"{where}: for … else")
        i, ln = st.target.elts[0].id, st.target.elts[1].id
        if i in env.kinds or ln in env.kinds or i in env.aliases or ln in env.aliases or i == ln:
            fail(st, f"{where}: loop variables {i}, {ln} shadow a name in use")
        e = env.copy()
        e.kinds[i], e.kinds[ln] = "int", "line"
        body = []
        for b in st.body:
            if not isinstance(b, (ast.Expr, ast.Assign)):
                fail(b, f"{where}: only simple statements are translated inside the loop over the lines")
            lines = self.simple(b, e, where, in_loop=True)
            if lines is None:
                self.skip(b, e, where)
                continue
            body += [P + "  " + l for l in lines]
        for n, k in e.kinds.items():
            if n not in (i, ln) and env.kinds.get(n) != k:
                fail(st, f"{where}: the loop body assigns `{n}`")
        return [f"{P}-- line {st.lineno}: for {un(st.target)} in {un(st.iter)}:",
                f"{P}let self : GCode α := Py.forEnum lines self fun self {lean_name(i, st)} {lean_name(ln, st)} =>"] + body + [f"{P}  self"]

    # ------------------------------------------------------------------ _preprocess
    def preprocess(self):
        m = self.method("_preprocess")
        a = m.args
        names = [x.arg for x in a.args]
        if a.vararg or a.kwarg or a.kwonlyargs or names[:1] != ["self"] or "build_layers" not in names or "lines" not in names:
            fail(m, "signature of _preprocess")
        dflt = dict(zip(names[len(names) - len(a.defaults):], a.defaults))
        if not (isinstance(dflt.get("build_layers"), ast.Constant) and dflt["build_layers"].value is False):
            fail(m, "_preprocess: the default of build_layers is not False")
        body = self.body_of(m)
        is_bl = lambda s: isinstance(s, ast.If) and isinstance(s.test, ast.Name) and s.test.id == "build_layers" and not s.orelse
        # build_layers itself is never assigned
        for n in ast.walk(m):
            if isinstance(n, ast.Name) and n.id == "build_layers" and isinstance(n.ctx, (ast.Store, ast.Del)):
                fail(n, "_preprocess: build_layers is assigned")
        def creates(s):
            return any(isinstance(x, ast.Assign) and len(x.targets) == 2 and is_self_attr(x.targets[1], LISTS) for x in s.body)
        def closes(s):
            return any(isinstance(x, ast.Assign) and any(is_self_attr(t, ("append_layer_id", "append_layer")) for t in x.targets) for x in s.body)
        init_ix = [k for k, s in enumerate(body) if is_bl(s) and creates(s)]
        fin_ix = [k for k, s in enumerate(body) if is_bl(s) and closes(s)]
        if len(init_ix) != 1 or len(fin_ix) != 1 or not init_ix[0] < fin_ix[0]:
            fail(m, "_preprocess: expected one top-level `if build_layers:` creating the lists and a later one storing them")
        init_if, fin_if = body[init_ix[0]], body[fin_ix[0]]

        # ---- the creation block
        env = Env()
        out_init = []
        fn = None
        for st in init_if.body:
            if isinstance(st, ast.FunctionDef) and st.name == "append_lines":
                if fn is not None:
                    fail(st, "append_lines is defined twice")
                if set(env.aliases.values()) != set(LISTS):
                    fail(st, "append_lines is defined before the three lists are created")
                fn = st
                continue
            lines = self.simple(st, env, "_preprocess") if isinstance(st, ast.Assign) and len(st.targets) == 2 else None
            if lines is None:
                self.skip(st, env, "_preprocess (creation of the lists)")
                continue
            out_init += ["  " + l for l in lines]
        if fn is None:
            fail(init_if, "_preprocess: the nested `def append_lines` was not found next to the creation of the lists")
        if set(env.aliases.values()) != set(LISTS):
            fail(init_if, f"_preprocess: the lists created are {sorted(env.aliases.values())}")
        created = [st.lineno for st in init_if.body if isinstance(st, ast.Assign) and len(st.targets) == 2 and is_self_attr(st.targets[1], LISTS)]

        # ---- append_lines
        fa = fn.args
        if fa.vararg or fa.kwarg or fa.kwonlyargs or fa.defaults or len(fa.args) < 1 or fn.decorator_list:
            fail(fn, "signature of append_lines")
        lp = fa.args[0].arg
        fenv = Env(aliases=env.aliases, kinds={lp: "lines"})
        for x in fa.args[1:]:
            if x.arg in env.aliases:
                fail(fn, f"append_lines: parameter {x.arg} shadows a list")
            fenv.kinds[x.arg] = "opaque"
        if lp in env.aliases:
            fail(fn, f"append_lines: parameter {lp} shadows a list")
        fbody = self.body_of(fn)
        if fbody and un(fbody[0]) == "if not build_layers:\n    return":
            fbody = fbody[1:]         # build_layers is true here
        for n in ast.walk(fn):
            if isinstance(n, (ast.Nonlocal, ast.Global)) and (set(n.names) & (set(env.aliases) | {"build_layers"})):
                fail(n, "append_lines rebinds a list")
        oracle_src = None
        for n in ast.walk(fn):
            if isinstance(n, ast.If) and self.test(n.test, fenv.copy(), "newLayer") is not None:
                oracle_src = " or ".join(un(v) for v in n.test.values[:-1])
        out_fn = self.block(fbody, fenv, 2, "append_lines", oracle="newLayer")
        if oracle_src is None:
            fail(fn, "append_lines: the test `<…> or not all_layers` was not found")
        if not any("Py.forEnum" in l for l in out_fn) or not any("layer_idxs := self.layer_idxs ++" in l for l in out_fn) \
                or not any("line_idxs := self.line_idxs ++" in l for l in out_fn) or not any("Py.layerAppend" in l for l in out_fn):
            fail(fn, "append_lines: the loop `for i, ln in enumerate(lines)` appending to the layer, layer_idxs and line_idxs was not found")

        # ---- the closing block
        cenv = Env(aliases=env.aliases)
        first_rel = None
        out_fin, rel_lines = [], []
        for k, st in enumerate(fin_if.body):
            has_fresh = cenv.fresh_attr is not None
            if has_fresh:
                self.pending_fresh(st, cenv, "_preprocess (closing block)")
                if isinstance(st, ast.Assign) and len(st.targets) == 1 and isinstance(st.targets[0], ast.Attribute) \
                        and st.targets[0].attr in ("duration", "z") and is_self_attr(st.targets[0].value, ("append_layer",)):
                    continue
            lines = None if isinstance(st, (ast.If, ast.For, ast.While, ast.Try, ast.With, ast.FunctionDef)) else \
                self.simple(st, cenv, "_preprocess (closing block)")
            if lines is None:
                self.skip(st, cenv, "_preprocess (closing block)")
                continue
            if first_rel is None:
                first_rel = k
            rel_lines.append(st.lineno)
            out_fin += ["  " + l for l in lines]
        self.end_check(fin_if, cenv, "_preprocess (closing block)")
        if not cenv.bound_attr or not any("append_layer_id :=" in l for l in out_fin):
            fail(fin_if, "_preprocess: the closing block does not set append_layer_id and put a fresh append_layer into all_layers")
        fin_lines = rel_lines

        # ---- everything else in _preprocess leaves the lists alone; append_lines is only called, between creation and closing
        calls = []
        def visit_rest(st, top_ix, fin_pos):
            for n in ast.walk(st):
                if isinstance(n, ast.Name) and n.id == "append_lines":
                    calls.append((n, top_ix, fin_pos))
        translated_fin = set()
        for k, st in enumerate(body):
            if k == init_ix[0]:
                continue      # checked above (its untranslated statements went through `skip`)
            if k == fin_ix[0]:
                for j, s in enumerate(st.body):
                    visit_rest(s, k, j)
                continue
            self.readonly(st, Env(aliases=env.aliases) if k > init_ix[0] else Env(), "_preprocess: untranslated statement")
            for n in ast.walk(st):
                if isinstance(n, ast.Name) and isinstance(n.ctx, (ast.Store, ast.Del)) and n.id in env.aliases and k > init_ix[0]:
                    fail(n, f"_preprocess: `{n.id}` (the list self.{env.aliases[n.id]}) is reassigned")
            visit_rest(st, k, None)
        for s in init_if.body:
            if s is not fn:
                visit_rest(s, init_ix[0], None)
            else:
                for n in ast.walk(s):
                    if isinstance(n, ast.Name) and n.id == "append_lines":
                        fail(n, "append_lines refers to itself")
        call_funcs = {id(n.func) for n in ast.walk(m) if isinstance(n, ast.Call)}
        if not calls:
            fail(m, "_preprocess never calls append_lines")
        for n, top_ix, fin_pos in calls:
            if id(n) not in call_funcs:
                fail(n, "append_lines is used other than by calling it")
            if top_ix < init_ix[0] or top_ix > fin_ix[0] or (top_ix == init_ix[0]) or (fin_pos is not None and first_rel is not None and fin_pos >= first_rel):
                fail(n, "append_lines is called outside the span between the creation of the lists and the closing block")
        # self.lines is only read
        for n in ast.walk(m):
            tgt = None
            if isinstance(n, ast.Attribute) and is_self_attr(n, ("lines",)) and isinstance(n.ctx, (ast.Store, ast.Del)):
                tgt = n
            if isinstance(n, ast.Call) and isinstance(n.func, ast.Attribute) and n.func.attr in MUTATORS and is_self_attr(n.func.value, ("lines",)):
                tgt = n
            if isinstance(n, (ast.Subscript,)) and isinstance(n.ctx, (ast.Store, ast.Del)) and is_self_attr(n.value, ("lines",)):
                tgt = n
            if tgt is not None:
                fail(tgt, "_preprocess changes self.lines")

        out = [f"/-- `GCode._preprocess`, `build_layers`: the layer lists are created (source lines {created[0]}-{created[-1]}) -/",
               "def preprocess_init (self : GCode α) : GCode α :="] + out_init + ["  self", ""]
        out += [f"/-- `append_lines` nested in `GCode._preprocess` (source line {fn.lineno}), the index bookkeeping; `newLayer` is the value of the",
                f"    untranslated test `{oracle_src}` -/",
                "def append_lines (self : GCode α) (newLayer : Bool) (lines : List α) : GCode α :="] + out_fn + [""]
        out += [f"/-- the end of `GCode._preprocess`, `build_layers` (source lines {fin_lines[0]}-{fin_lines[-1]}) -/",
                "def preprocess_finish (self : GCode α) : GCode α :="] + out_fin + ["  self", ""]
        out += ["/-- `GCode._preprocess(build_layers=True)`: the layer lists are created, `append_lines` is called once per element of",
                "    `batches` (the value of the untranslated new-layer test and the lines handed over, in call order), the lists are",
                "    stored -/",
                "def preprocess_layers (self : GCode α) (batches : List (Bool × List α)) : GCode α :=",
                "  let self : GCode α := preprocess_init self",
                "  let self : GCode α := batches.foldl (fun self b => append_lines self b.1 b.2) self",
                "  preprocess_finish self", ""]
        return out

    # ------------------------------------------------------------------ append
    def append(self):
        m = self.method("append")
        a = m.args
        if [x.arg for x in a.args] != ["self", "command", "store"] or a.vararg or a.kwarg or a.kwonlyargs \
                or len(a.defaults) != 1 or not (isinstance(a.defaults[0], ast.Constant) and a.defaults[0].value is True):
            fail(m, "signature of append: expected (self, command, store=True)")
        body = self.body_of(m)
        want = ["command = command.strip()", "if not command:\n    return", "gline = Line(command)", "self._preprocess([gline])"]
        if [un(s) for s in body[:4]] != want:
            fail(m, "append: the prologue is not `command = command.strip(); if not command: return; gline = Line(command); "
                    "self._preprocess([gline])`")
        line_cls = [n for n in self.tree.body if isinstance(n, ast.Assign) and un(n) == "Line = PyLine"]
        if len(line_cls) != 1:
            fail(m, "`Line = PyLine` not found")
        env = Env(kinds={"gline": "line", "store": "bool", "command": "opaque"})
        rest = self.block(body[4:], env, 2, "append")
        return [f"/-- `GCode.append` (source line {m.lineno}) from `gline = Line(command)` on; `commandEmpty` is `not command.strip()` -/",
                "def GCode_append (self : GCode α) (commandEmpty : Bool) (gline : α) (store : Bool) : GCode α :=",
                f"  -- line {body[1].lineno}: if not command: return",
                "  if commandEmpty then self else",
                f"  -- line {body[3].lineno}: self._preprocess([gline])   (build_layers = False: none of the index bookkeeping runs)"] + rest + [""]

    # ------------------------------------------------------------------ prepare
    def prepare(self):
        m = self.method("prepare")
        body = self.body_of(m)
        ifs = [s for s in body if isinstance(s, ast.If) and isinstance(s.test, ast.Name) and s.test.id == "data"]
        if len(ifs) != 1 or not ifs[0].orelse or body[-1] is not ifs[0]:
            fail(m, "prepare: expected a final `if data: … else: …`")
        for s in body[:-1]:
            self.readonly(s, Env(), "prepare: untranslated statement")
        st = ifs[0]
        calls = [n for s in st.body for n in ast.walk(s) if isinstance(n, ast.Call) and isinstance(n.func, ast.Attribute)
                 and n.func.attr == "_preprocess" and isinstance(n.func.value, ast.Name) and n.func.value.id == "self"]
        if len(calls) != 1 or calls[0].args or not any(k.arg == "build_layers" and isinstance(k.value, ast.Constant) and k.value.value is True
                                                        for k in calls[0].keywords):
            fail(st, "prepare: the branch with data does not call self._preprocess(build_layers=True, …) once")
        for s in st.body:
            self.readonly(s, Env(), "prepare (branch with data): untranslated statement")
        env = Env()
        out = self.block(list(st.orelse), env, 2, "prepare (branch without data)")
        if not env.bound_attr:
            fail(st, "prepare: the branch without data does not create append_layer")
        ln = [s.lineno for s in st.orelse]
        return [f"/-- `GCode.prepare`, the branch without data (source lines {ln[0]}-{ln[-1]}) -/",
                "def prepare_empty (self : GCode α) : GCode α :="] + out + [""]

    def check_g92(self):
        """the analyzer's reading of `G92` (C01's cross-oracle): an offset is taken for exactly the linear axes the line names -
        `if line.<a> is not None: offset_<a> = current_<a> - line.<a>` for x, y, z and nothing else in that branch (no "reset all")"""
        pre = self.method("_preprocess")
        want = [f"if line.{a} is not None:\n    offset_{a} = current_{a} - line.{a}" for a in "xyz"]
        hits = []
        for n in ast.walk(pre):
            if isinstance(n, ast.If):
                t = n.test
                if isinstance(t, ast.Compare) and un(t.left) == "line.command" and len(t.ops) == 1 and isinstance(t.ops[0], ast.Eq) \
                        and un(t.comparators[0]) == "'G92'" and any("offset_x" in un(b) for b in n.body):
                    hits.append(n)
        if len(hits) != 1:
            raise Unsupported(f"_preprocess: expected exactly one `line.command == 'G92'` branch that sets the axis offsets, found {len(hits)}")
        body = [un(b) for b in hits[0].body]
        if body != want:
            fail(hits[0], "the G92 branch of the analyzer is no longer `an offset for exactly the axes the line names`: " + repr(body))

    def render(self):
        self.check_g92()
        out = [f"/- GENERATED by tools/gen_gcoder.py from {SRC} (source text, by AST). Do not edit. -/",
               "import GscribModel.Model.GcoderPrelude", "namespace GscribModel.Gen.GcoderSrc", "open GscribModel.GcoderPy",
               "set_option linter.unusedVariables false", "variable {α : Type}", ""]
        out += self.small_methods()
        out += self.preprocess()
        out += self.append()
        out += self.prepare()
        out.append("end GscribModel.Gen.GcoderSrc")
        return "\n".join(out) + "\n"


def main():
    args = [a for a in sys.argv[1:] if not a.startswith("--")]
    if "--out" in sys.argv:
        o = sys.argv[sys.argv.index("--out") + 1]
        args = [a for a in args if a != o]
    repo = Path(args[0] if args else os.environ.get("GSCRIB_REPO", "/repo"))
    try:
        text = T(repo).render()
    except Unsupported as e:
        print("gen_gcoder: the source is outside the translated subset:", e, file=sys.stderr)
        raise SystemExit(3)
    if "--stdout" in sys.argv:
        sys.stdout.write(text)
        return
    out = Path(sys.argv[sys.argv.index("--out") + 1]) if "--out" in sys.argv else OUT
    out.parent.mkdir(parents=True, exist_ok=True)
    if not out.exists() or out.read_text() != text:
        out.write_text(text)
        print("gen_gcoder: rewrote", out)


if __name__ == "__main__":
    main()
